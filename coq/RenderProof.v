(* RenderProof.v — property C13: the object unmarshaller accepts EVERY rendering of a
   value that fits the target (not only the one the marshaller emits), and rejects what
   does not fit, with the error attributed to the offending token.

   Part 1  [reqx E A lax]: round-trip equality with a flag.  [reqx false] is [req] of
           RoundTripProof.v ([reqx_false_req], [req_reqx]); [reqx true] also lets an omitempty
           field that was rendered although empty come back as what was rendered.
   Part 2  [renders E A lax t v ts]: the renderings of a value (inductive, mutual with the
           renderings of element lists, map entries and struct-map entries).  Relative to the
           marshaller's output a rendering varies in: declared lengths (ANY length for arrays and
           plain maps — the model never looks at it; struct maps: negative or the exact count;
           unions: -1 or 1); Int/Uint spelling; the order of map entries and struct fields; ignored
           keys anywhere (with a value an untyped slot accepts); omitempty fields present although
           empty (only with lax = true); Null for a struct-map target (the zero struct); arbitrary
           tags on every token except the first token of what goes into an untyped slot.
   Part 3  the acceptance induction over [renders] (continuation style: a rendered prefix of a
           container takes the unmarshaller to the state after it, whatever follows).
   Part 4  [unmarshal_accepts_renderings] (lax = false, conclusion [req], the requested statement),
           [unmarshal_accepts_renderings_lax] (lax = true, conclusion [reqx true]),
           [unmarshal_accepts_renderings_gen]; [marshal_renders]: the marshaller's output is a
           rendering; [token_roundtrip_from_renderings]: RoundTripProof.token_roundtrip again, as a
           corollary.
   Part 5  rejections, each with the position [UErr (S (length rest))] of the offending token:
           [reject_wrong_token_kind] (+ _top, _ptr, _struct, _union, [reject_any_unknown_tag],
           [reject_any_close], converse [accept_right_token_kind]), [reject_unknown_field],
           [reject_length_mismatch], [struct_duplicate_key_last_wins], [reject_array_overflow],
           [array_short_padded], [reject_duplicate_map_key], [reject_union_unknown_member],
           [reject_union_extra_entry]; tags: [tag_ignored_typed_target].
   Part 6  kernel-evaluated examples; findings; the refutation
           [present_empty_field_req_refuted] of the requested statement for lax renderings. *)
From Coq Require Import List ZArith Bool Lia ZifyBool ZifyNat Permutation Sorted.
Require Import Tok GoVal Marshal FloatConv Unmarshal ObjProof RoundTripProof.
Import ListNotations.
Open Scope Z_scope.

#[local] Opaque zero_of.
Arguments zero_of : simpl never.

(* ====================================================================== *)
(* Part 1.  Round-trip equality with explicitly rendered empty fields       *)
(* ====================================================================== *)

Inductive reqx (E : tenv) (A : atlas) (lax : bool) : gtype -> gval -> gval -> Prop :=
| rx_atom t v : atom v = true -> reqx E A lax t v v
| rx_slice t et l l' :
    strip_named t = GSlice et -> Forall2 (reqx E A lax et) l l' ->
    reqx E A lax t (VSlice (Some l)) (VSlice (Some l'))
| rx_arr t n et l l' :
    strip_named t = GArr n et -> Forall2 (reqx E A lax et) l l' ->
    reqx E A lax t (GVArr l) (GVArr l')
| rx_map t kt vt es es' :
    strip_named t = GMap kt vt -> length es = length es' ->
    (forall k x, In (k, x) es -> exists x', In (k, x') es' /\ reqx E A lax vt x x') ->
    reqx E A lax t (GVMap (Some es)) (GVMap (Some es'))
| rx_ptr t x x' : reqx E A lax t x x' -> reqx E A lax (GPtr t) (VPtr (Some x)) (VPtr (Some x'))
| rx_ptr_null t x : nullish x = true -> reqx E A lax (GPtr t) (VPtr (Some x)) (VPtr None)
| rx_any t dt x x' : reqx E A lax dt x x' -> reqx E A lax t (VAny (Some (dt, x))) (VAny (Some (dt, x')))
| rx_any_null t dt x : nullish x = true -> reqx E A lax t (VAny (Some (dt, x))) (VAny None)
| rx_any_num t k z :
    reqx E A lax t (VAny (Some (GNum k, VNum z))) (VAny (Some (any_num_type k z, VNum z)))
| rx_any_f32 t b : reqx E A lax t (VAny (Some (GF32, GVFlt b))) (VAny (Some (GF64, GVFlt b)))
| rx_any_bytearr t n s :
    reqx E A lax t (VAny (Some (GByteArr n, VByteArr s))) (VAny (Some (GBytes, VBytes (Some s))))
| rx_struct t e fields fs fs' :
    atlas_get A t = Some e -> ae_kind e = EStruct fields ->
    (forall fe, In fe fields -> fe_ignore fe = false ->
       (forall fv, traverse (fe_route fe) (VStruct fs) = Some fv -> fe_omit fe && is_empty fv = false ->
          exists fv', traverse (fe_route fe) (VStruct fs') = Some fv' /\ reqx E A lax (fe_type fe) fv fv') /\
       (forall fv, traverse (fe_route fe) (VStruct fs) = Some fv -> fe_omit fe && is_empty fv = true ->
          blank_at E fe (VStruct fs') \/
          (lax = true /\ exists fv', traverse (fe_route fe) (VStruct fs') = Some fv' /\
                                     reqx E A lax (fe_type fe) fv fv')) /\
       (traverse (fe_route fe) (VStruct fs) = None -> blank_at E fe (VStruct fs'))) ->
    reqx E A lax t (VStruct fs) (VStruct fs')
| rx_transform t e kind wire v v' w w' :
    atlas_get A t = Some e -> ae_kind e = ETransform kind wire ->
    tr_dom kind v = true -> tr_dom kind v' = true ->
    tr_fwd kind v = Some w -> tr_fwd kind v' = Some w' -> reqx E A lax wire w w' ->
    reqx E A lax t v v'.

(* without explicitly rendered empty fields this is [req] *)
Lemma reqx_false_req E A : forall t v v', reqx E A false t v v' -> req E A t v v'.
Proof.
  fix IH 4. intros t v v' H. destruct H.
  - apply req_atom; assumption.
  - eapply req_slice; [eassumption|].
    revert l l' H0. fix IHl 3. intros l0 l0' HF. destruct HF; constructor; [apply IH; assumption | apply IHl; assumption].
  - eapply req_arr; [eassumption|].
    revert l l' H0. fix IHl 3. intros l0 l0' HF. destruct HF; constructor; [apply IH; assumption | apply IHl; assumption].
  - eapply req_map; [eassumption | assumption |].
    intros k x Hin. destruct (H1 k x Hin) as (x' & Hi & Hr). exists x'. split; [exact Hi | apply IH; exact Hr].
  - apply req_ptr. apply IH. assumption.
  - apply req_ptr_null. assumption.
  - apply req_any. apply IH. assumption.
  - apply req_any_null. assumption.
  - apply req_any_num.
  - apply req_any_f32.
  - apply req_any_bytearr.
  - eapply req_struct; [eassumption | eassumption |].
    intros fe Hin Hig. destruct (H1 fe Hin Hig) as (H2 & H3 & H4). split; [|split].
    + intros fv Hfv Hoe. destruct (H2 fv Hfv Hoe) as (fv' & Hfv' & Hr). exists fv'. split; [exact Hfv' | apply IH; exact Hr].
    + intros fv Hfv Hoe. destruct (H3 fv Hfv Hoe) as [Hb | [Hc _]]; [exact Hb | discriminate Hc].
    + exact H4.
  - eapply req_transform; try eassumption. apply IH. assumption.
Qed.

(* and [req] is contained in [reqx], whatever the flag *)
Lemma req_reqx E A lax : forall t v v', req E A t v v' -> reqx E A lax t v v'.
Proof.
  fix IH 4. intros t v v' H. destruct H.
  - apply rx_atom; assumption.
  - eapply rx_slice; [eassumption|].
    revert l l' H0. fix IHl 3. intros l0 l0' HF. destruct HF; constructor; [apply IH; assumption | apply IHl; assumption].
  - eapply rx_arr; [eassumption|].
    revert l l' H0. fix IHl 3. intros l0 l0' HF. destruct HF; constructor; [apply IH; assumption | apply IHl; assumption].
  - eapply rx_map; [eassumption | assumption |].
    intros k x Hin. destruct (H1 k x Hin) as (x' & Hi & Hr). exists x'. split; [exact Hi | apply IH; exact Hr].
  - apply rx_ptr. apply IH. assumption.
  - apply rx_ptr_null. assumption.
  - apply rx_any. apply IH. assumption.
  - apply rx_any_null. assumption.
  - apply rx_any_num.
  - apply rx_any_f32.
  - apply rx_any_bytearr.
  - eapply rx_struct; [eassumption | eassumption |].
    intros fe Hin Hig. destruct (H1 fe Hin Hig) as (H2 & H3 & H4). split; [|split].
    + intros fv Hfv Hoe. destruct (H2 fv Hfv Hoe) as (fv' & Hfv' & Hr). exists fv'. split; [exact Hfv' | apply IH; exact Hr].
    + intros fv Hfv Hoe. left. exact (H3 fv Hfv Hoe).
    + exact H4.
  - eapply rx_transform; try eassumption. apply IH. assumption.
Qed.

(* ====================================================================== *)
(* Part 2.  The renderings of a value                                       *)
(* ====================================================================== *)

(* a map type that unmarshals like any map: no entry, or a map-morphism entry *)
Definition maplike (A : atlas) (t : gtype) : Prop :=
  match atlas_get A t with
  | None => True
  | Some e => match ae_kind e with EMapMorphism _ => True | _ => False end
  end.

Section Renders.
  Variable E : tenv.
  Variable A : atlas.
  Variable lax : bool.     (* true: omitempty fields may be rendered although empty *)

  (* [renders t v ts]   ts is a rendering of v at static type t (through pointers)
     [rbare t v ts]     ... at a non-pointer type t
     [ritems et l ts]   ts is the concatenation of renderings of the elements l (no close token)
     [rentries vt es ts] ts renders the entries (key string, value) in this order (no close token)
     [rfields st fields v l ts]  ts renders the struct-map entries l of v in this order (no close
                        token): fields of v that are reachable, and ignored keys with a value
                        an untyped slot accepts.
     Every token carries an arbitrary tag [tg], except the first token of what goes into an
     untyped slot (there the tag selects the type). *)
  Inductive renders : gtype -> gval -> list token -> Prop :=
  | R_base t v ts : (forall t', t <> GPtr t') -> rbare t v ts -> renders t v ts
  | R_ptr_null t' v tg : nullish v = true -> renders (GPtr t') v [Tok Null tg]
  | R_ptr t n base bv tk tg r :
      peel t = (S n, base) -> tk <> Null -> rbare base bv (Tok tk tg :: r) ->
      renders t (wrap_ptrs (S n) bv) (Tok tk tg :: r)
  with rbare : gtype -> gval -> list token -> Prop :=
  (* scalars *)
  | RB_bool t b tg : atlas_get A t = None -> strip_named t = GBool -> rbare t (GVBool b) [Tok (Bool b) tg]
  | RB_str t s tg : atlas_get A t = None -> strip_named t = GStr -> rbare t (GVStr s) [Tok (Str s) tg]
  | RB_int t k z tg : atlas_get A t = None -> strip_named t = GNum k -> z <= max_i64 ->
      rbare t (VNum z) [Tok (Int z) tg]
  | RB_uint t k z tg : atlas_get A t = None -> strip_named t = GNum k -> 0 <= z ->
      rbare t (VNum z) [Tok (Uint z) tg]
  | RB_f32 t b tg : atlas_get A t = None -> strip_named t = GF32 -> rbare t (GVFlt b) [Tok (Flt b) tg]
  | RB_f64 t b tg : atlas_get A t = None -> strip_named t = GF64 -> rbare t (GVFlt b) [Tok (Flt b) tg]
  | RB_bytes t s tg : atlas_get A t = None -> strip_named t = GBytes -> rbare t (VBytes (Some s)) [Tok (Byt s) tg]
  | RB_bytes_nil t tg : atlas_get A t = None -> strip_named t = GBytes -> rbare t (VBytes None) [Tok Null tg]
  | RB_bytearr t n s tg : atlas_get A t = None -> strip_named t = GByteArr n -> rbare t (VByteArr s) [Tok (Byt s) tg]
  (* slices and arrays: any declared length *)
  | RB_slice_nil t et tg : atlas_get A t = None -> strip_named t = GSlice et -> rbare t (VSlice None) [Tok Null tg]
  | RB_slice t et l d tg tg' ts : atlas_get A t = None -> strip_named t = GSlice et -> ritems et l ts ->
      rbare t (VSlice (Some l)) (Tok (ArrOpen d) tg :: ts ++ [Tok ArrClose tg'])
  | RB_arr t n et l d tg tg' ts : atlas_get A t = None -> strip_named t = GArr n et -> ritems et l ts ->
      rbare t (GVArr l) (Tok (ArrOpen d) tg :: ts ++ [Tok ArrClose tg'])
  (* maps (without entry or with a map-morphism entry): any declared length, entries in any order *)
  | RB_map_nil t kt vt str tg : maplike A t -> strip_named t = GMap kt vt -> map_stringer A kt = Some str ->
      rbare t (GVMap None) [Tok Null tg]
  | RB_map t kt vt es str ses d tg tg' ts :
      maplike A t -> strip_named t = GMap kt vt -> map_stringer A kt = Some str ->
      (forall kv, In kv es -> str (fst kv) <> None) ->
      Permutation ses (skg str es) -> rentries vt ses ts ->
      rbare t (GVMap (Some es)) (Tok (MapOpen d) tg :: ts ++ [Tok MapClose tg'])
  (* untyped slots: the first token is untagged, or carries the tag of the dynamic type *)
  | RB_any_nil t : atlas_get A t = None -> is_any t -> rbare t (VAny None) [Tok Null None]
  | RB_any_null t dt dv : atlas_get A t = None -> is_any t -> nullish dv = true ->
      rbare t (VAny (Some (dt, dv))) [Tok Null None]
  | RB_any_tagged t dt dv e tg tk r :
      atlas_get A t = None -> is_any t -> tagged_slot A dt = true ->
      atlas_get A dt = Some e -> ae_tag e = Some tg ->
      rbare dt dv (Tok tk (Some tg) :: r) -> rbare t (VAny (Some (dt, dv))) (Tok tk (Some tg) :: r)
  | RB_any_native t dt dv tk r :
      atlas_get A t = None -> is_any t -> native_slot A dt = true -> nullish dv = false ->
      rbare dt dv (Tok tk None :: r) -> rbare t (VAny (Some (dt, dv))) (Tok tk None :: r)
  (* struct maps *)
  | RB_struct_null t e fields v tg :
      atlas_get A t = Some e -> ae_kind e = EStruct fields ->
      reqx E A lax t v (zero_of E t) -> rbare t v [Tok Null tg]
  | RB_struct t e fields v l len tg tg' ts :
      atlas_get A t = Some e -> ae_kind e = EStruct fields ->
      rfields t fields v l ts ->
      NoDup (filter active l) ->                                    (* every field at most once *)
      (forall fe, In fe fields -> livep v fe = true -> In fe l) ->  (* what the marshaller emits is there *)
      (lax = false -> forall fe, In fe l -> fe_ignore fe = false -> livep v fe = true) ->
      (len < 0 \/ len = Z.of_nat (length l)) ->                     (* indefinite, or the exact count *)
      rbare t v (Tok (MapOpen len) tg :: ts ++ [Tok MapClose tg'])
  (* transforms: a rendering of the serial form; the entry's own tag on the first token is dropped *)
  | RB_transform t e kind wire v w ts :
      atlas_get A t = Some e -> ae_kind e = ETransform kind wire -> tr_fwd kind v = Some w ->
      rbare wire w (untag_own (ae_tag e) ts) -> rbare t v ts
  (* keyed unions: a map of one entry, declared length -1 or 1 *)
  | RB_union t e members name mt mv len tg1 tg2 tg3 ts :
      atlas_get A t = Some e -> ae_kind e = EUnion members -> In (name, mt) members ->
      (len = -1 \/ len = 1) -> rbare mt mv ts ->
      rbare t (VAny (Some (mt, mv))) (Tok (MapOpen len) tg1 :: Tok (Str name) tg2 :: ts ++ [Tok MapClose tg3])
  with ritems : gtype -> list gval -> list token -> Prop :=
  | RI_nil et : ritems et [] []
  | RI_cons et x l tsx ts : renders et x tsx -> ritems et l ts -> ritems et (x :: l) (tsx ++ ts)
  with rentries : gtype -> list (bytes * gval) -> list token -> Prop :=
  | RE_nil vt : rentries vt [] []
  | RE_cons vt k x es tsx ts tg : renders vt x tsx -> rentries vt es ts ->
      rentries vt ((k, x) :: es) (Tok (Str k) tg :: tsx ++ ts)
  with rfields : gtype -> list field_entry -> gval -> list field_entry -> list token -> Prop :=
  | RF_nil st fields v : rfields st fields v [] []
  | RF_field st fields v fe fv l tsv ts tg :
      In fe fields -> fe_ignore fe = false -> traverse (fe_route fe) v = Some fv ->
      renders (fe_type fe) fv tsv -> rfields st fields v l ts ->
      rfields st fields v (fe :: l) (Tok (Str (fe_name fe)) tg :: tsv ++ ts)
  | RF_ignored st fields v fe x l tsv ts tg :
      In fe fields -> fe_ignore fe = true ->
      wt E A GAny x -> domb E A GAny x = true -> renders GAny x tsv -> rfields st fields v l ts ->
      rfields st fields v (fe :: l) (Tok (Str (fe_name fe)) tg :: tsv ++ ts).

  Scheme renders_mind := Minimality for renders Sort Prop
    with rbare_mind := Minimality for rbare Sort Prop
    with ritems_mind := Minimality for ritems Sort Prop
    with rentries_mind := Minimality for rentries Sort Prop
    with rfields_mind := Minimality for rfields Sort Prop.
  Combined Scheme renders_all_ind from renders_mind, rbare_mind, ritems_mind, rentries_mind, rfields_mind.
End Renders.

(* ====================================================================== *)
(* Part 3.  Acceptance                                                      *)
(* ====================================================================== *)

(* ---------- a rendering starts with a value token ------------------------------- *)

Definition startsv (ts : list token) : Prop := exists tk tg r, ts = Tok tk tg :: r /\ vstart tk = true.

Lemma startsv_untag tg ts : startsv (untag_own tg ts) -> startsv ts.
Proof.
  intros (tk & tg0 & r & Hq & Hv). destruct tg as [t|]; [|exists tk, tg0, r; auto].
  destruct ts as [|[v [t'|]] r0]; [discriminate Hq| |].
  - cbn in Hq. destruct (t =? t'); inversion Hq; subst; eexists _, _, _; split; eauto.
  - cbn in Hq. inversion Hq; subst. eexists _, _, _; split; eauto.
Qed.

Lemma startsv_nonempty ts : startsv ts -> ts <> [].
Proof. intros (tk & tg & r & -> & _). discriminate. Qed.

Lemma renders_starts_all E A lax :
  (forall t v ts, renders E A lax t v ts -> startsv ts) /\
  (forall t v ts, rbare E A lax t v ts -> startsv ts) /\
  (forall et l ts, ritems E A lax et l ts -> True) /\
  (forall vt es ts, rentries E A lax vt es ts -> True) /\
  (forall st fields v l ts, rfields E A lax st fields v l ts -> True).
Proof.
  apply renders_all_ind; intros; auto;
    try (eexists _, _, _; split; [reflexivity | reflexivity]).
  apply (startsv_untag (ae_tag e)). assumption.
Qed.

Lemma renders_starts E A lax t v ts : renders E A lax t v ts -> startsv ts.
Proof. apply renders_starts_all. Qed.
Lemma rbare_starts E A lax t v ts : rbare E A lax t v ts -> startsv ts.
Proof. apply renders_starts_all. Qed.

(* ---------- facts about [reqx] (as for [req]) ----------------------------------- *)

Lemma reqx_atom_inv E A lax t v v' : not_transform_type A t = true -> atom v = true -> reqx E A lax t v v' -> v' = v.
Proof.
  intros Hnt Ha Hr. inversion Hr; subst; try reflexivity; try discriminate Ha.
  unfold not_transform_type in Hnt. rewrite H, H0 in Hnt. discriminate.
Qed.

Lemma reqx_wrap E A lax : forall t n base bv bv',
  peel t = (n, base) -> reqx E A lax base bv bv' -> reqx E A lax t (wrap_ptrs n bv) (wrap_ptrs n bv').
Proof.
  induction t; intros pn base bv bv' Hp Hr; try (cbn in Hp; inversion Hp; subst; exact Hr).
  rewrite peel_ptr in Hp. inversion Hp; subst. clear Hp. cbn [wrap_ptrs].
  apply rx_ptr. apply IHt with (base := snd (peel t)); [apply surjective_pairing | exact Hr].
Qed.

Lemma tr_bwd_defined_x E A lax kind ty wire v w w' :
  tr_types_ok E kind ty wire = true -> not_transform_type A wire = true ->
  tr_dom kind v = true -> tr_fwd kind v = Some w -> reqx E A lax wire w w' -> wt E A wire w' ->
  exists v', tr_bwd kind w' = Some v'.
Proof.
  intros Hty Hnt Hd Hf Hr Hw'.
  assert (Hatom : atom w = true -> exists v', tr_bwd kind w' = Some v').
  { intros Ha. rewrite (reqx_atom_inv E A lax wire w w' Hnt Ha Hr). exists v. eapply tr_bwd_fwd; eassumption. }
  revert Hty Hf Hw' Hatom. unfold tr_types_ok, tr_fwd, tr_bwd. clear Hd.
  kind_cases kind; intros Hty Hf Hw' Hatom; try discriminate Hty; try discriminate Hf.
  all: tr_ok_split Hty; shape Hf; inversion Hf; subst w; try (apply Hatom; reflexivity).
  - (* 4 *) destruct (strip_named wire) eqn:Hsw; try discriminate Hwi.
    inversion Hr; subst; try discriminate.
    + match goal with HF : Forall2 _ _ _ |- _ => inversion HF as [|? y1 ? l1 _ HF1]; subst; inversion HF1 as [|? y2 ? l2 _ HF2]; subst; inversion HF2; subst end.
      unfold wt in Hw'. cbn [wtb] in Hw'. rewrite Hsw in Hw'. cbn [forallb] in Hw'.
      apply andb_true_iff in Hw'. destruct Hw' as [Hy1 Hy2]. apply andb_true_iff in Hy2. destruct Hy2 as [Hy2 _].
      apply strips_to_eq in Hwi.
      destruct y1; cbn [wtb] in Hy1; rewrite Hwi in Hy1; try discriminate Hy1.
      destruct y2; cbn [wtb] in Hy2; rewrite Hwi in Hy2; try discriminate Hy2. eexists; reflexivity.
    + unfold not_transform_type in Hnt. rewrite H, H0 in Hnt. discriminate.
  - (* 5 *) apply (wt_fields_are E A _ _ _ Hwi) in Hw'. destruct Hw' as (fs & -> & Hfs).
    destruct fs as [|x [|? ?]]; cbn in Hfs; rewrite ?andb_false_r in Hfs; try discriminate Hfs.
    destruct x; try discriminate Hfs. eexists; reflexivity.
  - (* 7 *) apply (wt_fields_are E A _ _ _ Hwi) in Hw'. destruct Hw' as (fs & -> & Hfs).
    destruct fs as [|x [|y [|? ?]]]; cbn in Hfs; rewrite ?andb_false_r in Hfs; try discriminate Hfs;
      try (destruct x; discriminate Hfs).
    destruct x; try discriminate Hfs. destruct y; cbn in Hfs; rewrite ?andb_false_r in Hfs; try discriminate Hfs.
    eexists; reflexivity.
  - (* 9 *) apply (wt_strips E A _ _ _ Hwi) in Hw'. unfold wt in Hw'. destruct w'; try discriminate Hw'. eexists; reflexivity.
Qed.

(* ---------- fuel bookkeeping ----------------------------------------------------- *)

Lemma uconv_from (G : nat -> ures) r n : (forall f, G (n + f)%nat = r) -> uconv G r.
Proof. intros H. exists n. intros f Hle. replace f with (n + (f - n))%nat by lia. apply H. Qed.

Lemma strip_not_unnamed t k : strip_named t = k -> is_unnamed_prim k = false -> is_unnamed_prim t = false.
Proof.
  intros Hs Hk. destruct (is_unnamed_prim t) eqn:Hup; [|reflexivity].
  rewrite (unnamed_prim_primk0 t Hup) in Hs. congruence.
Qed.

Lemma uconv_shift (G g : nat -> ures) r n : (forall f, G (n + f)%nat = g f) -> uconv G r -> uconv g r.
Proof. intros HG [F HF]. exists F. intros f Hle. rewrite <- HG. apply HF. lia. Qed.

Lemma ikind_eq_dec : forall a b : ikind, {a = b} + {a <> b}.
Proof. decide equality. Qed.
Lemma gtype_eq_dec : forall a b : gtype, {a = b} + {a <> b}.
Proof. decide equality; try apply Z.eq_dec; try apply Nat.eq_dec; apply ikind_eq_dec. Qed.
Lemma fe_eq_dec : forall a b : field_entry, {a = b} + {a <> b}.
Proof.
  decide equality; try apply bool_dec; try apply gtype_eq_dec;
    try (apply list_eq_dec; apply Nat.eq_dec); apply list_eq_dec; apply Z.eq_dec.
Qed.

Lemma prefix_free_sub {X} (g : X -> list nat) (big : list X) : forall small,
  prefix_free (map g big) = true -> NoDup small -> (forall x, In x small -> In x big) ->
  prefix_free (map g small) = true.
Proof.
  induction small as [|x s IH]; intros Hp Hnd Hsub; [reflexivity|].
  inversion Hnd as [|? ? Hnx Hnd']; subst. cbn [map prefix_free]. apply andb_true_iff. split.
  - apply forallb_forall. intros r Hr. apply in_map_iff in Hr. destruct Hr as (y & <- & Hy).
    apply (prefix_free_In g big x y Hp); [apply Hsub; left; reflexivity | apply Hsub; right; exact Hy |].
    intros Hc. subst y. contradiction.
  - apply IH; [exact Hp | exact Hnd' | intros y Hy; apply Hsub; right; exact Hy].
Qed.

(* what a list of rendered struct-map entries consists of *)
Lemma rfields_in_all E A lax :
  (forall t v ts, renders E A lax t v ts -> True) /\
  (forall t v ts, rbare E A lax t v ts -> True) /\
  (forall et l ts, ritems E A lax et l ts -> True) /\
  (forall vt es ts, rentries E A lax vt es ts -> True) /\
  (forall st fields v l ts, rfields E A lax st fields v l ts ->
     forall fe, In fe l -> In fe fields /\ (fe_ignore fe = false -> traverse (fe_route fe) v <> None)).
Proof.
  apply renders_all_ind; intros; auto.
  - contradiction.
  - destruct H6 as [<- | Hin]; [|apply H5; exact Hin]. split; [assumption|]. intros _. congruence.
  - destruct H7 as [<- | Hin]; [|apply H6; exact Hin]. split; [assumption|]. intros Hc. congruence.
Qed.

Lemma rfields_in E A lax st fields v l ts :
  rfields E A lax st fields v l ts ->
  forall fe, In fe l -> In fe fields /\ (fe_ignore fe = false -> traverse (fe_route fe) v <> None).
Proof. apply rfields_in_all. Qed.

Section Accept.
  Variable E : tenv.
  Variable A : atlas.
  Variable lax : bool.
  Hypothesis Hwf : atlas_wf E A = true.

  Notation rq := (reqx E A lax).
  Notation okx := (okd E A).

  (* without entry: a primitive kind goes to [uprim], the rest to [unmarshal_kind] *)
  Lemma ubare_prim t cur ts f :
    atlas_get A t = None -> is_primk (strip_named t) = true ->
    unmarshal_bare E A (S (S f)) t cur ts = uprim (strip_named t) cur ts.
  Proof.
    intros Hg Hp. rewrite unmarshal_bare_S. destruct (is_unnamed_prim t) eqn:Hup.
    - rewrite (unnamed_prim_primk0 t Hup). reflexivity.
    - rewrite Hg. apply unmarshal_kind_prim. exact Hp.
  Qed.

  Lemma ubare_kind t cur ts f :
    atlas_get A t = None -> is_unnamed_prim t = false ->
    unmarshal_bare E A (S f) t cur ts = unmarshal_kind E A f (strip_named t) cur ts.
  Proof. intros Hg Hup. rewrite unmarshal_bare_S, Hup, Hg. reflexivity. Qed.

  Lemma ubare_entry t e cur ts f :
    atlas_get A t = Some e -> unmarshal_bare E A (S f) t cur ts = unmarshal_entry E A f e cur ts.
  Proof.
    intros Hg. rewrite unmarshal_bare_S.
    destruct (atlas_wf_entry E A t e Hwf Hg) as [He Het]. destruct (entry_type_shape E A e He) as [Hup _].
    rewrite Het in Hup. rewrite Hup, Hg. reflexivity.
  Qed.

  (* ---------- the statements -------------------------------------------------------- *)

  Definition Q_r (t : gtype) (v : gval) (ts : list token) : Prop :=
    okx t v -> exists v', rq t v v' /\ wt E A t v' /\
      forall rest, uconv (fun f => unmarshal E A f t (zero_of E t) (ts ++ rest)) (UOk v' rest).

  Definition Q_b (t : gtype) (v : gval) (ts : list token) : Prop :=
    okx t v -> exists v', rq t v v' /\ wt E A t v' /\
      forall rest, uconv (fun f => unmarshal_bare E A f t (zero_of E t) (ts ++ rest)) (UOk v' rest).

  (* a rendered prefix of the elements takes the element loop to the state after it *)
  Definition Q_items (et : gtype) (l : list gval) (ts : list token) : Prop :=
    Forall (okx et) l -> exists l', Forall2 (fun x x' => rq et x x' /\ wt E A et x') l l' /\
      (forall acc tail r,
         uconv (fun f => unmarshal_slice E A f et (rev l' ++ acc) tail) r ->
         uconv (fun f => unmarshal_slice E A f et acc (ts ++ tail)) r) /\
      (forall n acc tail r, (length acc + length l <= n)%nat ->
         uconv (fun f => unmarshal_array E A f n et (rev l' ++ acc) tail) r ->
         uconv (fun f => unmarshal_array E A f n et acc (ts ++ tail)) r).

  Definition Q_entries (vt : gtype) (es : list (bytes * gval)) (ts : list token) : Prop :=
    Forall (fun p => okx vt (snd p)) es ->
    exists es', Forall2 (fun p p' => fst p = fst p' /\ rq vt (snd p) (snd p') /\ wt E A vt (snd p')) es es' /\
      (forall destr (kf : bytes -> gval) acc tail r,
         (forall p, In p es -> destr (fst p) = Some (kf (fst p))) ->
         NoDup (map fst es) ->
         (forall p q, In p es -> In q acc -> gval_key_eqb (fst q) (kf (fst p)) = false) ->
         (forall p q, In p es -> In q es -> fst p <> fst q -> gval_key_eqb (kf (fst q)) (kf (fst p)) = false) ->
         uconv (fun f => unmarshal_map_entries E A f destr vt (acc ++ map (fun p => (kf (fst p), snd p)) es') tail) r ->
         uconv (fun f => unmarshal_map_entries E A f destr vt acc (ts ++ tail)) r).

  Definition Q_fields (st : gtype) (fields : list field_entry) (v : gval) (l : list field_entry) (ts : list token) : Prop :=
    okx st v -> forallb (field_wf E st) fields = true -> names_distinct (map fe_name fields) = true ->
    prefix_free (map fe_route (filter active l)) = true ->
    forall cur count, wt E A st cur -> (forall fe, In fe l -> fe_ignore fe = false -> blank_at E fe cur) ->
    exists cur',
      (forall len tail r,
         uconv (fun f => unmarshal_fields E A f st fields len cur' (count + Z.of_nat (length l)) tail) r ->
         uconv (fun f => unmarshal_fields E A f st fields len cur count (ts ++ tail)) r) /\
      wt E A st cur' /\
      (forall fe, In fe l -> fe_ignore fe = false -> exists fv fv', traverse (fe_route fe) v = Some fv /\
          traverse (fe_route fe) cur' = Some fv' /\ rq (fe_type fe) fv fv' /\ wt E A (fe_type fe) fv') /\
      (forall r0 ft0, route_okb E st r0 ft0 = true ->
          (forall fe, In fe l -> fe_ignore fe = false -> unrelated r0 (fe_route fe) = true) ->
          (forall x, traverse r0 cur = Some x -> traverse r0 cur' = Some x) /\
          (blankr E r0 ft0 cur -> blankr E r0 ft0 cur') /\
          (traverse r0 v = None -> traverse r0 cur = None -> traverse r0 cur' = None)).

  (* ---------- pointers ---------------------------------------------------------------- *)

  Lemma acc_base t v ts : (forall t', t <> GPtr t') -> Q_b t v ts -> Q_r t v ts.
  Proof.
    intros Hnp IH Hok. destruct (IH Hok) as (v' & Hr & Hw & Hu). exists v'. split; [exact Hr|]. split; [exact Hw|].
    intros rest. eapply uconv_S; [|apply (Hu rest)]. intros f. rewrite unmarshal_S, (peel_nonptr t Hnp). reflexivity.
  Qed.

  Lemma acc_ptr_null t' v tg : nullish v = true -> Q_r (GPtr t') v [Tok Null tg].
  Proof.
    intros Hn [Hw _]. exists (VPtr None). split; [|split; [reflexivity|]].
    - destruct (wt_ptr_inv E A t' v Hw) as [-> | [x [-> _]]]; [apply rx_atom; reflexivity | apply rx_ptr_null; exact Hn].
    - intros rest. apply (uconv_from _ _ 1). intros f. cbn [Nat.add app]. rewrite unmarshal_S, peel_ptr. reflexivity.
  Qed.

  Lemma acc_ptr t n base bv tk tg r :
    peel t = (S n, base) -> tk <> Null -> Q_b base bv (Tok tk tg :: r) -> Q_r t (wrap_ptrs (S n) bv) (Tok tk tg :: r).
  Proof.
    intros Hp Hnn IH [Hw Hd].
    assert (Hokb : okx base bv).
    { destruct (peel_deref_wt E A t _ _ _ Hp Hw) as [(Hdr & _) | (bv0 & Hdr & Hwb & _)]; rewrite deref_wrap in Hdr; [discriminate|].
      inversion Hdr; subst bv0. split; [exact Hwb|]. apply (dom_wrap E A t (S n) base bv Hp Hd). }
    destruct (IH Hokb) as (bv' & Hr & Hw' & Hu).
    exists (wrap_ptrs (S n) bv'). split; [eapply reqx_wrap; eassumption|]. split; [eapply wt_wrap; eassumption|].
    intros rest. eapply uconv_S.
    - intros f. cbn [app]. rewrite (unmarshal_S_ptr E A f t n base _ tk tg _ Hp Hnn).
      rewrite (inner_cur_zero E t (S n) base Hp). reflexivity.
    - apply (uconv_bind _ (fun _ v r0 => UOk (wrap_ptrs (S n) v) r0) bv' rest); [apply (Hu rest) | apply uconv_const].
  Qed.

  (* ---------- elements ---------------------------------------------------------------- *)

  Lemma acc_items_nil et : Q_items et [] [].
  Proof. intros _. exists []. split; [constructor|]. split; intros; assumption. Qed.

  Lemma acc_items_cons et x l tsx ts :
    renders E A lax et x tsx -> Q_r et x tsx -> Q_items et l ts -> Q_items et (x :: l) (tsx ++ ts).
  Proof.
    intros Hrx IHx IHl Hok. inversion Hok as [|? ? Hokx Hokl]; subst.
    destruct (IHx Hokx) as (x' & Hrx' & Hwx' & Hux). destruct (IHl Hokl) as (l' & Hf2 & Hus & Hua).
    destruct (renders_starts _ _ _ _ _ _ Hrx) as (tk & tg & r1 & Hts1 & Hvs).
    exists (x' :: l'). split; [constructor; auto|]. split.
    - intros acc tail r Hk. eapply uconv_S.
      + intros f. rewrite <- app_assoc, Hts1. cbn [app].
        rewrite (unmarshal_slice_val E A f et acc tk tg _ Hvs). rewrite app_comm_cons, <- Hts1. reflexivity.
      + apply (uconv_bind _ (fun f x0 r0 => unmarshal_slice E A f et (x0 :: acc) r0) x' (ts ++ tail)); [apply Hux|].
        apply Hus. cbn [rev] in Hk. rewrite <- app_assoc in Hk. exact Hk.
    - intros n acc tail r Hl Hk. cbn [length] in Hl. eapply uconv_S.
      + intros f. rewrite <- app_assoc, Hts1. cbn [app].
        rewrite (unmarshal_array_val E A f n et acc tk tg _ Hvs) by lia.
        rewrite app_comm_cons, <- Hts1. reflexivity.
      + apply (uconv_bind _ (fun f x0 r0 => unmarshal_array E A f n et (x0 :: acc) r0) x' (ts ++ tail)); [apply Hux|].
        apply Hua; [cbn [length]; lia|]. cbn [rev] in Hk. rewrite <- app_assoc in Hk. exact Hk.
  Qed.

  (* ---------- map entries --------------------------------------------------------------- *)

  Lemma acc_entries_nil vt : Q_entries vt [] [].
  Proof.
    intros _. exists []. split; [constructor|]. intros destr kf acc tail r _ _ _ _ Hk.
    cbn [map app] in *. rewrite app_nil_r in Hk. exact Hk.
  Qed.

  Lemma acc_entries_cons vt k x es tsx ts tg :
    renders E A lax vt x tsx -> Q_r vt x tsx -> Q_entries vt es ts ->
    Q_entries vt ((k, x) :: es) (Tok (Str k) tg :: tsx ++ ts).
  Proof.
    intros Hrx IHx IHe Hok. inversion Hok as [|? ? Hokx Hokl]; subst. cbn [snd] in Hokx.
    destruct (IHx Hokx) as (x' & Hrx' & Hwx' & Hux). destruct (IHe Hokl) as (es' & Hf2 & Hue).
    exists ((k, x') :: es'). split; [constructor; auto|].
    intros destr kf acc tail r Hd Hnd Hacc Hinj Hk. eapply uconv_S.
    - intros f. cbn [app]. rewrite unmarshal_map_entries_S.
      pose proof (Hd (k, x) (or_introl eq_refl)) as Hdk. cbn [fst] in Hdk. rewrite Hdk.
      rewrite (existsb_false (fun p => gval_key_eqb (fst p) (kf k)) acc)
        by (intros q Hq; apply (Hacc (k, x) q (or_introl eq_refl) Hq)).
      rewrite <- app_assoc. reflexivity.
    - apply (uconv_bind _ (fun f x0 r' => unmarshal_map_entries E A f destr vt (acc ++ [(kf k, x0)]) r') x' (ts ++ tail));
        [apply Hux|].
      inversion Hnd as [|? ? Hnk Hnd']; subst. apply (Hue destr kf (acc ++ [(kf k, x')]) tail r).
      + intros p Hp. apply Hd. right. exact Hp.
      + exact Hnd'.
      + intros p q Hp Hq. apply in_app_or in Hq. destruct Hq as [Hq | [<- | []]].
        * apply (Hacc p q (or_intror Hp) Hq).
        * cbn [fst]. apply (Hinj p (k, x) (or_intror Hp) (or_introl eq_refl)).
          intros Hc. apply Hnk. cbn [fst] in Hc. rewrite <- Hc. apply in_map. exact Hp.
      + intros p q Hp Hq. apply Hinj; right; assumption.
      + cbn [map fst snd] in Hk. rewrite <- app_assoc. exact Hk.
  Qed.

  (* ---------- scalars ------------------------------------------------------------------- *)

  Lemma acc_prim t v tk tg :
    atlas_get A t = None -> is_primk (strip_named t) = true -> atom v = true ->
    (wt E A t v -> forall cur rest, uprim (strip_named t) cur (Tok tk tg :: rest) = UOk v rest) ->
    Q_b t v [Tok tk tg].
  Proof.
    intros Hg Hp Ha Hu [Hw _]. exists v. split; [apply rx_atom; exact Ha|]. split; [exact Hw|].
    intros rest. apply (uconv_from _ _ 2). intros f. cbn [Nat.add app].
    rewrite (ubare_prim _ _ _ _ Hg Hp). apply Hu. exact Hw.
  Qed.

  Lemma acc_bool t b tg : atlas_get A t = None -> strip_named t = GBool -> Q_b t (GVBool b) [Tok (Bool b) tg].
  Proof.
    intros Hg Hs. apply acc_prim; [exact Hg | rewrite Hs; reflexivity | reflexivity |].
    intros _ cur rest. rewrite Hs. reflexivity.
  Qed.

  Lemma acc_str t s tg : atlas_get A t = None -> strip_named t = GStr -> Q_b t (GVStr s) [Tok (Str s) tg].
  Proof.
    intros Hg Hs. apply acc_prim; [exact Hg | rewrite Hs; reflexivity | reflexivity |].
    intros _ cur rest. rewrite Hs. reflexivity.
  Qed.

  Lemma acc_int t k z tg : atlas_get A t = None -> strip_named t = GNum k -> Q_b t (VNum z) [Tok (Int z) tg].
  Proof.
    intros Hg Hs. apply acc_prim; [exact Hg | rewrite Hs; reflexivity | reflexivity |].
    intros Hw cur rest. unfold wt in Hw. cbn [wtb] in Hw. rewrite Hs in Hw. rewrite Hs. cbn [uprim]. rewrite Hw. reflexivity.
  Qed.

  Lemma acc_uint t k z tg : atlas_get A t = None -> strip_named t = GNum k -> Q_b t (VNum z) [Tok (Uint z) tg].
  Proof.
    intros Hg Hs. apply acc_prim; [exact Hg | rewrite Hs; reflexivity | reflexivity |].
    intros Hw cur rest. unfold wt in Hw. cbn [wtb] in Hw. rewrite Hs in Hw. rewrite Hs. cbn [uprim]. rewrite Hw. reflexivity.
  Qed.

  Lemma acc_f32 t b tg : atlas_get A t = None -> strip_named t = GF32 -> Q_b t (GVFlt b) [Tok (Flt b) tg].
  Proof.
    intros Hg Hs. apply acc_prim; [exact Hg | rewrite Hs; reflexivity | reflexivity |].
    intros Hw cur rest. unfold wt in Hw. cbn [wtb] in Hw. rewrite Hs in Hw. apply Z.eqb_eq in Hw.
    rewrite Hs. cbn [uprim]. rewrite Hw. reflexivity.
  Qed.

  Lemma acc_f64 t b tg : atlas_get A t = None -> strip_named t = GF64 -> Q_b t (GVFlt b) [Tok (Flt b) tg].
  Proof.
    intros Hg Hs. apply acc_prim; [exact Hg | rewrite Hs; reflexivity | reflexivity |].
    intros _ cur rest. rewrite Hs. reflexivity.
  Qed.

  Lemma acc_bytes t s tg : atlas_get A t = None -> strip_named t = GBytes -> Q_b t (VBytes (Some s)) [Tok (Byt s) tg].
  Proof.
    intros Hg Hs. apply acc_prim; [exact Hg | rewrite Hs; reflexivity | reflexivity |].
    intros _ cur rest. rewrite Hs. reflexivity.
  Qed.

  Lemma acc_bytes_nil t tg : atlas_get A t = None -> strip_named t = GBytes -> Q_b t (VBytes None) [Tok Null tg].
  Proof.
    intros Hg Hs. apply acc_prim; [exact Hg | rewrite Hs; reflexivity | reflexivity |].
    intros _ cur rest. rewrite Hs. reflexivity.
  Qed.

  Lemma acc_bytearr t n s tg : atlas_get A t = None -> strip_named t = GByteArr n -> Q_b t (VByteArr s) [Tok (Byt s) tg].
  Proof.
    intros Hg Hs. apply acc_prim; [exact Hg | rewrite Hs; reflexivity | reflexivity |].
    intros Hw cur rest. unfold wt in Hw. cbn [wtb] in Hw. rewrite Hs in Hw. apply andb_true_iff in Hw. destruct Hw as [Hl _].
    rewrite Hs. cbn [uprim]. rewrite Hl. reflexivity.
  Qed.

  (* ---------- slices and arrays ------------------------------------------------------------ *)

  Lemma Forall2_wt_rx et (l l' : list gval) :
    Forall2 (fun x x' => rq et x x' /\ wt E A et x') l l' -> forallb (wtb E A et) l' = true.
  Proof.
    intros H. apply forallb_Forall. induction H as [|x x' l l' [_ Hx] _ IH]; constructor; assumption.
  Qed.

  Lemma acc_slice_nil t et tg : atlas_get A t = None -> strip_named t = GSlice et -> Q_b t (VSlice None) [Tok Null tg].
  Proof.
    intros Hg Hs [Hw _]. exists (VSlice None). split; [apply rx_atom; reflexivity|]. split; [exact Hw|].
    intros rest. apply (uconv_from _ _ 2). intros f. cbn [Nat.add app].
    rewrite ubare_kind; [|exact Hg | eapply strip_not_unnamed; [exact Hs | reflexivity]].
    rewrite Hs, unmarshal_kind_S. reflexivity.
  Qed.

  Lemma acc_slice t et l d tg tg' ts :
    atlas_get A t = None -> strip_named t = GSlice et -> Q_items et l ts ->
    Q_b t (VSlice (Some l)) (Tok (ArrOpen d) tg :: ts ++ [Tok ArrClose tg']).
  Proof.
    intros Hg Hs IH [Hw Hd].
    assert (Hwl : Forall (okx et) l).
    { unfold wt in Hw. rewrite (wtb_slice E A t et _ Hs) in Hw. pose proof (domb_slice E A t et _ Hs Hd).
      apply okv_list; assumption. }
    destruct (IH Hwl) as (l' & Hf2 & Hus & _).
    exists (VSlice (Some l')). split; [|split].
    - eapply rx_slice; [exact Hs|]. eapply Forall2_imp; [|exact Hf2]. intros x y [Hxy _]. exact Hxy.
    - unfold wt. rewrite (wtb_slice E A t et _ Hs). eapply Forall2_wt_rx. exact Hf2.
    - intros rest. eapply uconv_S.
      { intros f. apply ubare_kind; [exact Hg | eapply strip_not_unnamed; [exact Hs | reflexivity]]. }
      eapply uconv_S.
      { intros f. rewrite Hs, unmarshal_kind_S. cbn [app]. rewrite <- app_assoc. reflexivity. }
      apply (Hus [] _ _). apply (uconv_from _ _ 1). intros f. cbn [Nat.add app].
      rewrite unmarshal_slice_S, app_nil_r, rev_involutive. reflexivity.
  Qed.

  Lemma acc_arr t n et l d tg tg' ts :
    atlas_get A t = None -> strip_named t = GArr n et -> Q_items et l ts ->
    Q_b t (GVArr l) (Tok (ArrOpen d) tg :: ts ++ [Tok ArrClose tg']).
  Proof.
    intros Hg Hs IH [Hw Hd].
    unfold wt in Hw. rewrite (wtb_arr E A t n et _ Hs) in Hw. apply andb_true_iff in Hw. destruct Hw as [Hlen Hwl].
    apply Nat.eqb_eq in Hlen. pose proof (domb_arr E A t n et _ Hs Hd) as Hdl.
    destruct (IH (okv_list E A et l Hwl Hdl)) as (l' & Hf2 & _ & Hua).
    pose proof (Forall2_length' _ _ _ Hf2) as Hll.
    exists (GVArr l'). split; [|split].
    - eapply rx_arr; [exact Hs|]. eapply Forall2_imp; [|exact Hf2]. intros x y [Hxy _]. exact Hxy.
    - unfold wt. rewrite (wtb_arr E A t n et _ Hs). rewrite <- Hll, Hlen, Nat.eqb_refl.
      eapply Forall2_wt_rx. exact Hf2.
    - intros rest. eapply uconv_S.
      { intros f. apply ubare_kind; [exact Hg | eapply strip_not_unnamed; [exact Hs | reflexivity]]. }
      eapply uconv_S.
      { intros f. rewrite Hs, unmarshal_kind_S. cbn [app]. rewrite <- app_assoc. reflexivity. }
      apply (Hua n [] _ _); [cbn [length]; lia|]. apply (uconv_from _ _ 1). intros f. cbn [Nat.add app].
      rewrite unmarshal_array_S, app_nil_r, rev_involutive, rev_length.
      replace (n - length l')%nat with O by lia. cbn [repeat]. rewrite app_nil_r. reflexivity.
  Qed.

  (* ---------- maps -------------------------------------------------------------------------- *)

  Lemma ubare_map t kt vt cur ts f :
    maplike A t -> strip_named t = GMap kt vt ->
    unmarshal_bare E A (S (S f)) t cur ts = unmarshal_map E A f kt vt cur ts.
  Proof.
    unfold maplike. intros Hml Hs. destruct (atlas_get A t) as [e|] eqn:Hg.
    - destruct (ae_kind e) eqn:Hk; try contradiction.
      rewrite (ubare_entry t e _ _ _ Hg), unmarshal_entry_S, Hk, (atlas_get_type A t e Hg), Hs. reflexivity.
    - rewrite ubare_kind; [|exact Hg | eapply strip_not_unnamed; [exact Hs | reflexivity]].
      rewrite Hs, unmarshal_kind_S. reflexivity.
  Qed.

  Lemma acc_map_nil t kt vt str tg :
    maplike A t -> strip_named t = GMap kt vt -> map_stringer A kt = Some str -> Q_b t (GVMap None) [Tok Null tg].
  Proof.
    intros Hml Hs Hstr [Hw _]. destruct (stringer_facts E A kt str Hwf Hstr) as (destr & Hdes & _).
    exists (GVMap None). split; [apply rx_atom; reflexivity|]. split; [exact Hw|].
    intros rest. apply (uconv_from _ _ 3). intros f. cbn [Nat.add app].
    rewrite (ubare_map t kt vt _ _ _ Hml Hs), unmarshal_map_S, Hdes. reflexivity.
  Qed.

  Lemma acc_map t kt vt es str ses d tg tg' ts :
    maplike A t -> strip_named t = GMap kt vt -> map_stringer A kt = Some str ->
    (forall kv, In kv es -> str (fst kv) <> None) ->
    Permutation ses (skg str es) -> Q_entries vt ses ts ->
    Q_b t (GVMap (Some es)) (Tok (MapOpen d) tg :: ts ++ [Tok MapClose tg']).
  Proof.
    intros Hml Hs Hstr Hsome Hperm IH [Hw Hdom].
    destruct (stringer_facts E A kt str Hwf Hstr) as (destr & Hdes & Hfw & Hbw).
    unfold wt in Hw. rewrite (wtb_map E A t kt vt _ Hs) in Hw.
    apply andb_true_iff in Hw. destruct Hw as [Hw Hkd]. apply andb_true_iff in Hw. destruct Hw as [_ Hwe].
    rewrite forallb_forall in Hwe.
    pose proof (domb_map E A t kt vt _ Hs Hdom) as Hdm. rewrite forallb_forall in Hdm.
    set (kf := fun s : bytes => match destr s with Some k => k | None => VBadV end).
    assert (Hk0 : forall kv, In kv es ->
              str (fst kv) = Some (s_of str (fst kv)) /\ destr (s_of str (fst kv)) = Some (fst kv) /\
              gval_key_eqb (fst kv) (fst kv) = true).
    { intros kv Hin. destruct (str (fst kv)) as [s|] eqn:Hq; [|exfalso; apply (Hsome kv Hin); exact Hq].
      unfold s_of. rewrite Hq.
      specialize (Hdm kv Hin). apply andb_true_iff in Hdm. destruct Hdm as [Hkd' _].
      destruct (Hfw (fst kv) s Hkd' Hq). auto. }
    assert (Hwk : forall kv, In kv es -> wt E A kt (fst kv)).
    { intros kv Hin. specialize (Hwe kv Hin). apply andb_true_iff in Hwe. apply Hwe. }
    assert (Hwv : forall kv, In kv es -> okx vt (snd kv)).
    { intros kv Hin. specialize (Hwe kv Hin). apply andb_true_iff in Hwe.
      specialize (Hdm kv Hin). apply andb_true_iff in Hdm. split; [apply Hwe | apply Hdm]. }
    assert (Hfrom : forall p, In p ses -> exists kv, In kv es /\ fst p = s_of str (fst kv) /\ snd p = snd kv).
    { intros p Hp. apply (Permutation_in _ Hperm) in Hp. unfold skg in Hp. apply in_map_iff in Hp.
      destruct Hp as (kv & <- & Hkv). exists kv. auto. }
    assert (Hws : Forall (fun p => okx vt (snd p)) ses).
    { apply Forall_forall. intros p Hp. destruct (Hfrom p Hp) as (kv & Hkv & _ & ->). apply Hwv. exact Hkv. }
    destruct (IH Hws) as (es'' & Hf2 & Hue).
    assert (Hkeys : map fst es'' = map fst ses).
    { clear -Hf2. induction Hf2 as [|p p' l l' (Hq & _) _ IH]; [reflexivity|]. cbn. rewrite IH, Hq. reflexivity. }
    assert (Hndk : NoDup (map fst es)).
    { apply keys_distinct_NoDup; [|exact Hkd]. intros k Hin. apply in_map_iff in Hin.
      destruct Hin as (kv & <- & Hkv). apply Hk0. exact Hkv. }
    assert (Hnd : NoDup (map fst ses)).
    { eapply Permutation_NoDup; [apply Permutation_sym; apply Permutation_map; exact Hperm|].
      unfold skg. rewrite map_map. cbn [fst]. rewrite <- (map_map fst (s_of str)).
      apply NoDup_map_inj_in; [exact Hndk|].
      intros k1 k2 H1 H2 Hq. apply in_map_iff in H1. destruct H1 as (kv1 & <- & Hkv1).
      apply in_map_iff in H2. destruct H2 as (kv2 & <- & Hkv2).
      destruct (Hk0 kv1 Hkv1) as (_ & Hd1 & _). destruct (Hk0 kv2 Hkv2) as (_ & Hd2 & _). congruence. }
    assert (Hdk : forall s, In s (map fst ses) -> exists kv, In kv es /\ s = s_of str (fst kv) /\ kf s = fst kv /\
                                                             destr s = Some (fst kv) /\ str (fst kv) = Some s).
    { intros s0 Hin. apply in_map_iff in Hin. destruct Hin as (p & <- & Hp).
      destruct (Hfrom p Hp) as (kv & Hkv & Hq & _). destruct (Hk0 kv Hkv) as (Hs1 & Hd1 & _).
      exists kv. unfold kf. rewrite Hq, Hd1. auto. }
    assert (Hlen : length es'' = length es).
    { rewrite <- (Forall2_length' _ _ _ Hf2). rewrite (Permutation_length Hperm). unfold skg. apply map_length. }
    set (es' := map (fun p : bytes * gval => (kf (fst p), snd p)) es'').
    exists (GVMap (Some es')). split; [|split].
    - eapply rx_map; [exact Hs | unfold es'; rewrite map_length; symmetry; exact Hlen |].
      intros k x Hin.
      assert (Hin' : In (s_of str k, x) ses).
      { apply (Permutation_in _ (Permutation_sym Hperm)). unfold skg. apply in_map_iff. exists (k, x). auto. }
      destruct (Forall2_In_l _ _ _ _ Hf2 Hin') as ([s' x'] & Hin'' & Hq & Hr & _). cbn in Hq, Hr. subst s'.
      exists x'. split; [|exact Hr]. unfold es'. apply in_map_iff. exists (s_of str k, x'). split; [|exact Hin''].
      cbn [fst snd]. f_equal. unfold kf. destruct (Hk0 (k, x) Hin) as (_ & Hd1 & _). cbn [fst] in Hd1. rewrite Hd1. reflexivity.
    - unfold wt. rewrite (wtb_map E A t kt vt _ Hs). unfold stringer_ok. rewrite Hstr. cbn [andb]. apply andb_true_iff. split.
      + apply forallb_forall. intros kv Hin. unfold es' in Hin. apply in_map_iff in Hin.
        destruct Hin as ([s0 x'] & <- & Hin). cbn [fst snd].
        destruct (Forall2_In_r _ _ _ _ Hf2 Hin) as ([s1 x] & Hin0 & Hq & _ & Hwx'). cbn in Hq, Hwx'. subst s1.
        rewrite Hwx', andb_true_r.
        destruct (Hdk s0) as (kv & Hkv & _ & Hkf & _); [apply in_map_iff; exists (s0, x); auto|].
        rewrite Hkf. apply Hwk. exact Hkv.
      + unfold es'. rewrite map_map. cbn [fst]. rewrite <- (map_map fst kf).
        apply keys_distinct_pairwise. rewrite Hkeys. apply NoDup_map_inj_in; [exact Hnd|].
        intros s1 s2 H1 H2 Hq. destruct (Hdk s1 H1) as (kv1 & _ & Hs1 & Hkf1 & _).
        destruct (Hdk s2 H2) as (kv2 & _ & Hs2 & Hkf2 & _). congruence.
    - intros rest. eapply uconv_S; [intros f; reflexivity|]. eapply uconv_S.
      { intros f. apply (ubare_map t kt vt _ _ _ Hml Hs). }
      eapply uconv_S.
      { intros f. rewrite unmarshal_map_S, Hdes. cbn [app]. cbv zeta.
        replace (match zero_of E t with GVMap (Some es0) => es0 | _ => [] end) with (@nil (gval * gval)).
        - rewrite <- app_assoc. reflexivity.
        - pose proof (mblank_zero E 50 t) as Hb. rewrite zero_of_unf.
          destruct (zero 50 E t); try reflexivity. destruct o; [discriminate Hb | reflexivity]. }
      apply (Hue destr kf [] _ _).
      + intros p Hp. destruct (Hdk (fst p)) as (kv & _ & _ & Hkf & Hd1 & _); [apply in_map; exact Hp|].
        rewrite Hkf. exact Hd1.
      + exact Hnd.
      + intros p q _ [].
      + intros p q Hp Hq Hne. destruct (gval_key_eqb (kf (fst q)) (kf (fst p))) eqn:Hqq; [|reflexivity].
        apply gval_key_eqb_eq in Hqq. exfalso. apply Hne.
        destruct (Hdk (fst p)) as (kv1 & _ & Hs1 & Hkf1 & _); [apply in_map; exact Hp|].
        destruct (Hdk (fst q)) as (kv2 & _ & Hs2 & Hkf2 & _); [apply in_map; exact Hq|]. congruence.
      + apply (uconv_from _ _ 1). intros f. cbn [Nat.add app]. rewrite unmarshal_map_entries_S. reflexivity.
  Qed.

  (* ---------- untyped slots ------------------------------------------------------------------ *)

  Lemma ubare_any t cur ts f :
    atlas_get A t = None -> is_any t -> unmarshal_bare E A (S (S f)) t cur ts = unmarshal_any E A f ts.
  Proof.
    intros Hg Ha. rewrite ubare_kind; [apply unmarshal_kind_any; exact Ha | exact Hg |].
    destruct Ha as [Hs | [i Hs]]; eapply strip_not_unnamed; eauto.
  Qed.

  Lemma acc_any_nil t : atlas_get A t = None -> is_any t -> Q_b t (VAny None) [Tok Null None].
  Proof.
    intros Hg Ha [Hw _]. exists (VAny None). split; [apply rx_atom; reflexivity|]. split; [exact Hw|].
    intros rest. apply (uconv_from _ _ 3). intros f. cbn [Nat.add app].
    rewrite (ubare_any t _ _ _ Hg Ha), unmarshal_any_S. reflexivity.
  Qed.

  Lemma acc_any_null t dt dv :
    atlas_get A t = None -> is_any t -> nullish dv = true -> Q_b t (VAny (Some (dt, dv))) [Tok Null None].
  Proof.
    intros Hg Ha Hn [Hw _]. exists (VAny None). split; [apply rx_any_null; exact Hn|].
    split; [unfold wt; rewrite (wtb_any E A t _ Ha); reflexivity|].
    intros rest. apply (uconv_from _ _ 3). intros f. cbn [Nat.add app].
    rewrite (ubare_any t _ _ _ Hg Ha), unmarshal_any_S. reflexivity.
  Qed.

  Lemma acc_any_tagged t dt dv e tg tk r :
    atlas_get A t = None -> is_any t -> tagged_slot A dt = true -> atlas_get A dt = Some e -> ae_tag e = Some tg ->
    Q_b dt dv (Tok tk (Some tg) :: r) -> Q_b t (VAny (Some (dt, dv))) (Tok tk (Some tg) :: r).
  Proof.
    intros Hg Ha Htag Hgd Htg IH [Hw Hd].
    unfold wt in Hw. rewrite (wtb_any E A t _ Ha) in Hw. destruct (domb_any E A t dt dv Ha Hd) as [Hdd _].
    destruct (IH (conj Hw Hdd)) as (dv' & Hr & Hw' & Hu).
    assert (Hbt : exists e', atlas_by_tag A tg = Some e' /\ ae_type e' = dt).
    { unfold tagged_slot in Htag. apply andb_true_iff in Htag. destruct Htag as [_ Htag]. rewrite Hgd, Htg in Htag.
      destruct (ae_kind e); try discriminate Htag;
        (destruct (atlas_by_tag A tg) as [e'|]; [|discriminate Htag]); exists e';
        (split; [reflexivity | apply gtype_eqb_eq; exact Htag]). }
    destruct Hbt as (e' & Hbt & Hty).
    exists (VAny (Some (dt, dv'))). split; [apply rx_any; exact Hr|].
    split; [unfold wt; rewrite (wtb_any E A t _ Ha); exact Hw'|].
    intros rest. eapply uconv_S; [intros f; reflexivity|].
    eapply uconv_S; [intros f; apply (ubare_any t _ _ _ Hg Ha)|].
    eapply uconv_S.
    - intros f. cbn [app]. rewrite unmarshal_any_S. cbv iota beta. rewrite Hbt. cbv zeta. rewrite Hty. reflexivity.
    - apply (uconv_bind _ (fun _ x r' => UOk (VAny (Some (dt, x))) r') dv' rest); [apply (Hu rest) | apply uconv_const].
  Qed.

  Ltac rb_absurd :=
    match goal with
    | H : strip_named _ = _ |- _ => cbn in H; discriminate H
    | H : is_any _ |- _ => destruct H as [H | [? H]]; cbn in H; discriminate H
    | H1 : atlas_get A ?t = Some _, H2 : atlas_get A ?t = None |- _ => rewrite H2 in H1; discriminate H1
    | H : nullish _ = false |- _ => discriminate H
    end.

  Lemma signed_le_max k z : in_kind k z = true -> max_i64 < z -> ik_signed k = false.
  Proof. unfold in_kind, max_i64. destruct k; cbn; intros; try reflexivity; lia. Qed.

  Lemma acc_any_native t dt dv tk r :
    atlas_get A t = None -> is_any t -> native_slot A dt = true -> nullish dv = false ->
    rbare E A lax dt dv (Tok tk None :: r) -> Q_b dt dv (Tok tk None :: r) ->
    Q_b t (VAny (Some (dt, dv))) (Tok tk None :: r).
  Proof.
    intros Hg Ha Hnat Hnl Hrb IH [Hw Hd].
    unfold wt in Hw. rewrite (wtb_any E A t _ Ha) in Hw. destruct (domb_any E A t dt dv Ha Hd) as [Hdd _].
    destruct (IH (conj Hw Hdd)) as (dv' & Hr & Hw' & Hu).
    assert (Hgd : atlas_get A dt = None).
    { unfold native_slot in Hnat. destruct (is_unnamed_prim dt) eqn:Hup; [apply (prim_no_entry E A Hwf); exact Hup|].
      cbn [orb] in Hnat. destruct (atlas_get A dt); [discriminate | reflexivity]. }
    (* the general shape of the conclusion, from what the untyped slot computes *)
    assert (Hgen : forall o', rq t (VAny (Some (dt, dv))) (VAny o') -> wt E A GAny (VAny o') ->
              (forall rest, uconv (fun f => unmarshal_any E A f ((Tok tk None :: r) ++ rest)) (UOk (VAny o') rest)) ->
              exists v', rq t (VAny (Some (dt, dv))) v' /\ wt E A t v' /\
                forall rest, uconv (fun f => unmarshal_bare E A f t (zero_of E t) ((Tok tk None :: r) ++ rest)) (UOk v' rest)).
    { intros o' Hro Hwo Huo. exists (VAny o'). split; [exact Hro|].
      split; [unfold wt; rewrite (wtb_any E A t _ Ha); exact Hwo|].
      intros rest. eapply uconv_S; [intros f; reflexivity|].
      eapply uconv_S; [intros f; apply (ubare_any t _ _ _ Hg Ha)|]. apply Huo. }
    assert (Hsame : (forall rest, uconv (fun f => unmarshal_any E A f ((Tok tk None :: r) ++ rest))
                                        (UOk (VAny (Some (dt, dv'))) rest)) ->
              exists v', rq t (VAny (Some (dt, dv))) v' /\ wt E A t v' /\
                forall rest, uconv (fun f => unmarshal_bare E A f t (zero_of E t) ((Tok tk None :: r) ++ rest)) (UOk v' rest)).
    { intros Hua. apply (Hgen (Some (dt, dv'))); [apply rx_any; exact Hr | exact Hw' | exact Hua]. }
    assert (Hatom : atom dv = true -> dv' = dv).
    { intros Hat. apply (reqx_atom_inv E A lax dt dv dv'); [apply not_transform_none; exact Hgd | exact Hat | exact Hr]. }
    unfold native_slot in Hnat. rewrite Hgd in Hnat.
    destruct dt; cbn in Hnat; try discriminate Hnat.
    - (* bool *)
      inversion Hrb; subst; try rb_absurd. rewrite (Hatom eq_refl) in *.
      apply Hsame. intros rest. apply (uconv_from _ _ 1). intros f. cbn [Nat.add app]. rewrite unmarshal_any_S. reflexivity.
    - (* integers: the slot chooses int or uint64 *)
      assert (Hik : in_kind k match dv with VNum z => z | _ => 0 end = true /\ exists z, dv = VNum z).
      { destruct dv; try discriminate Hw. cbn [wtb strip_named] in Hw. eauto. }
      destruct Hik as [Hik [z ->]].
      apply (Hgen (Some (any_num_type k z, VNum z))); [apply rx_any_num | |].
      + pose proof (in_kind_any k z Hik) as Hka. unfold wt. cbn [wtb strip_named].
        destruct (any_num_type k z); try contradiction. exact Hka.
      + inversion Hrb; subst; try rb_absurd.
        * (* Int *)
          intros rest. apply (uconv_from _ _ 1). intros f. cbn [Nat.add app]. rewrite unmarshal_any_S.
          cbn [uany_scalar]. unfold any_num_type.
          replace (z <=? max_i64) with true by (match goal with Hz : z <= max_i64 |- _ => clear -Hz; lia end). rewrite orb_true_r. reflexivity.
        * (* Uint *)
          intros rest. apply (uconv_from _ _ 1). intros f. cbn [Nat.add app]. rewrite unmarshal_any_S.
          cbn [uany_scalar]. unfold any_num_type. destruct (z <=? max_i64) eqn:Hz; [rewrite orb_true_r; reflexivity|].
          rewrite (signed_le_max k z Hik) by lia. reflexivity.
    - (* float32 comes back as float64 *)
      inversion Hrb; subst; try rb_absurd.
      apply (Hgen (Some (GF64, GVFlt b))); [apply rx_any_f32 | reflexivity |].
      intros rest. apply (uconv_from _ _ 1). intros f. cbn [Nat.add app]. rewrite unmarshal_any_S. reflexivity.
    - (* float64 *)
      inversion Hrb; subst; try rb_absurd. rewrite (Hatom eq_refl) in *.
      apply Hsame. intros rest. apply (uconv_from _ _ 1). intros f. cbn [Nat.add app]. rewrite unmarshal_any_S. reflexivity.
    - (* string *)
      inversion Hrb; subst; try rb_absurd. rewrite (Hatom eq_refl) in *.
      apply Hsame. intros rest. apply (uconv_from _ _ 1). intros f. cbn [Nat.add app]. rewrite unmarshal_any_S. reflexivity.
    - (* []byte, not nil *)
      inversion Hrb; subst; try rb_absurd. rewrite (Hatom eq_refl) in *.
      apply Hsame. intros rest. apply (uconv_from _ _ 1). intros f. cbn [Nat.add app]. rewrite unmarshal_any_S. reflexivity.
    - (* [n]byte comes back as []byte *)
      inversion Hrb; subst; try rb_absurd.
      apply (Hgen (Some (GBytes, VBytes (Some s)))); [apply rx_any_bytearr | |].
      + cbn [wtb strip_named] in Hw. apply andb_true_iff in Hw. unfold wt. cbn [wtb strip_named]. apply Hw.
      + intros rest. apply (uconv_from _ _ 1). intros f. cbn [Nat.add app]. rewrite unmarshal_any_S. reflexivity.
    - (* []interface{} *)
      destruct dt; try discriminate Hnat.
      inversion Hrb; subst; try rb_absurd.
      apply Hsame. intros rest. eapply uconv_S.
      + intros f. cbn [app]. rewrite unmarshal_any_S. reflexivity.
      + apply (uconv_bind _ (fun _ x r' => UOk (VAny (Some (GSlice GAny, x))) r') dv' rest); [|apply uconv_const].
        specialize (Hu rest).
        apply (uconv_pred (fun f => unmarshal_bare E A (S f) (GSlice GAny) (zero_of E (GSlice GAny))
                                     ((Tok (ArrOpen d) None :: ts ++ [Tok ArrClose tg']) ++ rest))).
        * intros f. rewrite ubare_kind; [|exact Hgd | reflexivity]. cbn [strip_named]. rewrite unmarshal_kind_S. reflexivity.
        * eapply uconv_pred; [|exact Hu]. reflexivity.
    - (* map[string]interface{} *)
      destruct dt1; try discriminate Hnat. destruct dt2; try discriminate Hnat.
      inversion Hrb; subst; try rb_absurd.
      apply Hsame. intros rest. eapply uconv_S.
      + intros f. cbn [app]. rewrite unmarshal_any_S.
        rewrite (unmarshal_map_cur E A f GStr GAny (GVMap (Some [])) (zero_of E (GMap GStr GAny)))
          by (rewrite zero_of_map; reflexivity).
        reflexivity.
      + apply (uconv_bind _ (fun _ x r' => UOk (VAny (Some (GMap GStr GAny, x))) r') dv' rest); [|apply uconv_const].
        specialize (Hu rest).
        apply (uconv_pred (fun f => unmarshal_bare E A (S f) (GMap GStr GAny) (zero_of E (GMap GStr GAny))
                                     ((Tok (MapOpen d) None :: ts ++ [Tok MapClose tg']) ++ rest))).
        * intros f. rewrite (ubare_map (GMap GStr GAny) GStr GAny); [reflexivity | unfold maplike; rewrite Hgd; exact I | reflexivity].
        * eapply uconv_pred; [|exact Hu]. reflexivity.
  Qed.

  (* ---------- struct maps --------------------------------------------------------------------- *)

  Lemma get_any_none : atlas_get A GAny = None.
  Proof. apply (get_none_shape E A Hwf); cbn; intros; discriminate. Qed.

  Lemma uconv_any_of_unmarshal X r :
    uconv (fun f => unmarshal E A f GAny (zero_of E GAny) X) r -> uconv (fun f => unmarshal_any E A f X) r.
  Proof.
    apply (uconv_shift _ _ r 3). intros f. cbn [Nat.add]. rewrite unmarshal_S. cbn [peel].
    apply (ubare_any GAny _ _ _ get_any_none). left. reflexivity.
  Qed.

  Lemma acc_fields_nil st fields v : Q_fields st fields v [] [].
  Proof.
    intros _ _ _ _ cur count Hwc _. exists cur. split; [|split; [exact Hwc|split]].
    - intros len tail r Hk. cbn [length app] in *. replace (count + Z.of_nat 0) with count in Hk by lia. exact Hk.
    - intros fe [].
    - intros r0 ft0 _ _. auto.
  Qed.

  Lemma acc_fields_field st fields v fe fv l tsv ts tg :
    In fe fields -> fe_ignore fe = false -> traverse (fe_route fe) v = Some fv ->
    renders E A lax (fe_type fe) fv tsv -> Q_r (fe_type fe) fv tsv ->
    rfields E A lax st fields v l ts -> Q_fields st fields v l ts ->
    Q_fields st fields v (fe :: l) (Tok (Str (fe_name fe)) tg :: tsv ++ ts).
  Proof.
    intros Hin Hig Hfv Hrv IHv Hrl IHl Hokv Hfw Hnd Hpf cur count Hwc Hbl. pose proof Hokv as [Hwv Hdomv].
    pose proof (rfields_in E A lax st fields v l ts Hrl) as Hlin.
    destruct (field_facts E st fields fe Hfw Hin Hig) as (Hrk & Hnb & Hlen).
    assert (Hwfv : okx (fe_type fe) fv).
    { split; [exact (traverse_wt E A _ st v _ fv Hwv Hrk Hfv) | exact (traverse_dom E A _ st v _ fv Hwv Hdomv Hrk Hfv)]. }
    destruct (IHv Hwfv) as (fv' & Hrv' & Hwv' & Huv).
    destruct (renders_starts _ _ _ _ _ _ Hrv) as (tk & tg0 & r1 & Hts1 & _).
    destruct (route_get_ok E A (fe_route fe) 50 st cur (fe_type fe) Hwc Hrk Hlen) as (fcur & Hget & Hfc).
    assert (Hfcur : fcur = zero_of E (fe_type fe)).
    { pose proof (Hbl fe (or_introl eq_refl) Hig) as Hb. apply blank_at_iff in Hb.
      destruct Hb as [Hb|Hb]; destruct Hfc as [Hc|[Hc1 Hc2]]; congruence. }
    subst fcur.
    destruct (route_set_ok E A (fe_route fe) 50 st cur (fe_type fe) fv' Hwc Hrk Hwv' Hlen) as (cur1 & Hset & Hwc1 & Htr1).
    cbn [filter] in Hpf. unfold active at 1 in Hpf. rewrite Hig in Hpf. cbn [negb map prefix_free] in Hpf.
    apply andb_true_iff in Hpf. destruct Hpf as [Hun Hpf]. rewrite forallb_forall in Hun.
    assert (Hunr : forall fe', In fe' l -> fe_ignore fe' = false -> unrelated (fe_route fe) (fe_route fe') = true).
    { intros fe' Hin' Hig'. apply Hun. apply in_map. apply filter_In. split; [exact Hin'|].
      unfold active. rewrite Hig'. reflexivity. }
    assert (Hbl1 : forall fe', In fe' l -> fe_ignore fe' = false -> blank_at E fe' cur1).
    { intros fe' Hin' Hig'. apply blank_at_iff. destruct (Hlin fe' Hin') as (Hin2 & _).
      destruct (field_facts E st fields fe' Hfw Hin2 Hig') as (Hrk' & _ & _).
      eapply route_set_blank; [exact Hwc | exact Hrk | exact Hrk' | rewrite unrelated_sym; apply Hunr; assumption | exact Hset |].
      apply blank_at_iff. apply Hbl; [right; exact Hin' | exact Hig']. }
    destruct (IHl Hokv Hfw Hnd Hpf cur1 (count + 1) Hwc1 Hbl1) as (cur' & Hu & Hwc' & Hdone & Hframe).
    destruct (Hframe (fe_route fe) (fe_type fe) Hrk Hunr) as (Hk1 & _ & _).
    pose proof (Hk1 fv' Htr1) as Htr'.
    exists cur'. split; [|split; [exact Hwc' | split]].
    - intros len tail r Hk. eapply uconv_S.
      + intros f. cbn [app]. rewrite unmarshal_fields_S.
        rewrite (find_by_name fields fe Hnd Hin), Hig.
        rewrite <- app_assoc, Hts1. cbn [app]. cbv iota. rewrite Hget.
        rewrite app_comm_cons, <- Hts1. reflexivity.
      + eapply uconv_bind with (v := fv') (rest := ts ++ tail); [apply Huv|].
        eapply uconv_ext; [intros f0; cbv beta; rewrite Hset; reflexivity|]. apply Hu.
        replace (count + 1 + Z.of_nat (length l)) with (count + Z.of_nat (length (fe :: l)))
          by (clear; cbn [length]; lia).
        exact Hk.
    - intros fe0 [<- | Hin0] Hig0; [|apply Hdone; assumption].
      exists fv, fv'. auto.
    - intros r0 ft0 Hr0 Hun0.
      assert (Hu0 : unrelated r0 (fe_route fe) = true) by (apply Hun0; [left; reflexivity | exact Hig]).
      destruct (Hframe r0 ft0 Hr0 (fun fe' Hin' => Hun0 fe' (or_intror Hin'))) as (Hf1 & Hf2 & Hf3).
      split; [|split].
      + intros x Hx. apply Hf1. eapply route_set_keeps; [exact Hwc | exact Hrk | exact Hu0 | exact Hset | exact Hx].
      + intros Hb. apply Hf2. eapply route_set_blank; [exact Hwc | exact Hrk | exact Hr0 | exact Hu0 | exact Hset | exact Hb].
      + intros Hn1 Hn2. apply Hf3; [exact Hn1|].
        eapply route_set_none; [exact Hwv | exact Hwc | exact Hrk | exact Hr0 | exact Hu0 | exact Hset | | exact Hn1 | exact Hn2].
        rewrite Hfv. discriminate.
  Qed.

  Lemma acc_fields_ignored st fields v fe x l tsv ts tg :
    In fe fields -> fe_ignore fe = true -> wt E A GAny x -> domb E A GAny x = true ->
    Q_r GAny x tsv -> Q_fields st fields v l ts ->
    Q_fields st fields v (fe :: l) (Tok (Str (fe_name fe)) tg :: tsv ++ ts).
  Proof.
    intros Hin Hig Hwx Hdx IHx IHl Hokv Hfw Hnd Hpf cur count Hwc Hbl.
    destruct (IHx (conj Hwx Hdx)) as (x' & _ & _ & Hux).
    cbn [filter] in Hpf. unfold active at 1 in Hpf. rewrite Hig in Hpf. cbn [negb] in Hpf.
    destruct (IHl Hokv Hfw Hnd Hpf cur (count + 1) Hwc (fun fe' Hin' => Hbl fe' (or_intror Hin')))
      as (cur' & Hu & Hwc' & Hdone & Hframe).
    exists cur'. split; [|split; [exact Hwc'|split]].
    - intros len tail r Hk. eapply uconv_S.
      + intros f. cbn [app]. rewrite unmarshal_fields_S, (find_by_name fields fe Hnd Hin), Hig.
        rewrite <- app_assoc. reflexivity.
      + apply (uconv_bind _ (fun f _ r' => unmarshal_fields E A f st fields len cur (count + 1) r') x' (ts ++ tail)).
        * apply uconv_any_of_unmarshal. apply Hux.
        * apply Hu.
          replace (count + 1 + Z.of_nat (length l)) with (count + Z.of_nat (length (fe :: l)))
            by (clear; cbn [length]; lia).
          exact Hk.
    - intros fe0 [<- | Hin0] Hig0; [congruence | apply Hdone; assumption].
    - intros r0 ft0 Hr0 Hun0. apply (Hframe r0 ft0 Hr0). intros fe' Hin'. apply Hun0. right. exact Hin'.
  Qed.

  Lemma acc_struct_null t e fields v tg :
    atlas_get A t = Some e -> ae_kind e = EStruct fields -> rq t v (zero_of E t) -> Q_b t v [Tok Null tg].
  Proof.
    intros Hg Hkd Hr _. destruct (atlas_wf_entry E A t e Hwf Hg) as [He Het].
    destruct (entry_wf_struct E A e fields He Hkd) as (id & Hs & Hnb & _). rewrite Het in *.
    exists (zero_of E t). split; [exact Hr|]. split; [apply zero_of_wt; exact Hnb|].
    intros rest. apply (uconv_from _ _ 2). intros f. cbn [Nat.add app].
    rewrite (ubare_entry t e _ _ _ Hg), unmarshal_entry_S, Hkd, Het. reflexivity.
  Qed.

  Lemma acc_struct t e fields v l len tg tg' ts :
    atlas_get A t = Some e -> ae_kind e = EStruct fields ->
    rfields E A lax t fields v l ts -> Q_fields t fields v l ts ->
    NoDup (filter active l) ->
    (forall fe, In fe fields -> livep v fe = true -> In fe l) ->
    (lax = false -> forall fe, In fe l -> fe_ignore fe = false -> livep v fe = true) ->
    (len < 0 \/ len = Z.of_nat (length l)) ->
    Q_b t v (Tok (MapOpen len) tg :: ts ++ [Tok MapClose tg']).
  Proof.
    intros Hg Hkd Hrl IH Hndl Hall Hstrict Hlen Hokv. pose proof Hokv as [Hw Hdomv].
    destruct (atlas_wf_entry E A t e Hwf Hg) as [He Het].
    destruct (entry_wf_struct E A e fields He Hkd) as (id & Hs & Hnb & Hfw & Hnd & Hro). rewrite Het in *.
    pose proof (rfields_in E A lax t fields v l ts Hrl) as Hlin.
    assert (Hpfa : prefix_free (map fe_route (filter active fields)) = true).
    { unfold routes_ok in Hro. apply andb_true_iff in Hro. apply Hro. }
    assert (Hpf : prefix_free (map fe_route (filter active l)) = true).
    { apply (prefix_free_sub fe_route (filter active fields)); [exact Hpfa | exact Hndl |].
      intros fe Hfe. apply filter_In in Hfe. destruct Hfe as [Hfe Hact]. apply filter_In. split; [apply Hlin; exact Hfe | exact Hact]. }
    assert (Hwz : wt E A t (zero_of E t)) by (apply zero_of_wt; exact Hnb).
    assert (Hblz : forall fe, In fe fields -> fe_ignore fe = false -> blankr E (fe_route fe) (fe_type fe) (zero_of E t)).
    { intros fe Hin Hig. destruct (field_facts E t fields fe Hfw Hin Hig) as (Hrk & _). apply traverse_zero. exact Hrk. }
    assert (Hblz' : forall fe, In fe l -> fe_ignore fe = false -> blank_at E fe (zero_of E t)).
    { intros fe Hin Hig. apply blank_at_iff. apply Hblz; [apply Hlin; exact Hin | exact Hig]. }
    destruct (IH Hokv Hfw Hnd Hpf (zero_of E t) 0 Hwz Hblz') as (v' & Hu & Hwv' & Hdone & Hframe).
    assert (Hunl : forall fe, In fe fields -> fe_ignore fe = false -> ~ In fe l ->
                   forall fe', In fe' l -> fe_ignore fe' = false -> unrelated (fe_route fe) (fe_route fe') = true).
    { intros fe Hin Hig Hnl fe' Hin' Hig'.
      apply (prefix_free_In fe_route (filter active fields) fe fe' Hpfa).
      - apply filter_In. split; [exact Hin|]. unfold active. rewrite Hig. reflexivity.
      - apply filter_In. split; [apply Hlin; exact Hin'|]. unfold active. rewrite Hig'. reflexivity.
      - intros Hc. subst fe'. contradiction. }
    assert (Hnotin : forall fe, In fe fields -> fe_ignore fe = false -> ~ In fe l ->
              blank_at E fe v' /\ (traverse (fe_route fe) v = None -> traverse (fe_route fe) v' = None)).
    { intros fe Hin Hig Hnl.
      destruct (field_facts E t fields fe Hfw Hin Hig) as (Hrk & _ & _).
      destruct (Hframe (fe_route fe) (fe_type fe) Hrk (Hunl fe Hin Hig Hnl)) as (_ & Hb & Hn).
      split.
      - apply blank_at_iff. apply Hb. apply Hblz; assumption.
      - intros Hnv. apply Hn; [exact Hnv|]. exact (traverse_none_zero E A _ t v _ Hw Hrk Hnv). }
    destruct (wt_struct_inv E A t v id Hw Hs) as (fts & fs & Hv & Hef & Hwfs).
    destruct (wt_struct_inv E A t v' id Hwv' Hs) as (fts' & fs' & Hv' & Hef' & Hwfs').
    exists v'. split; [|split; [exact Hwv'|]].
    - rewrite Hv, Hv'. eapply rx_struct; [exact Hg | exact Hkd |]. rewrite <- Hv, <- Hv'.
      intros fe Hin Hig.
      assert (Hp : livep v fe = match traverse (fe_route fe) v with None => false | Some fv => negb (fe_omit fe && is_empty fv) end)
        by (unfold livep; rewrite Hig; reflexivity).
      split; [|split].
      + intros fv Hfv Hoe. rewrite Hfv, Hoe in Hp. cbn [negb] in Hp.
        destruct (Hdone fe (Hall fe Hin Hp) Hig) as (fv0 & fv' & Hfv0 & Hfv' & Hr & _).
        rewrite Hfv in Hfv0. inversion Hfv0; subst fv0. exists fv'. auto.
      + intros fv Hfv Hoe. rewrite Hfv, Hoe in Hp. cbn [negb] in Hp.
        destruct (in_dec fe_eq_dec fe l) as [Hinl | Hnl].
        * right. split.
          -- destruct lax; [reflexivity|]. rewrite (Hstrict eq_refl fe Hinl Hig) in Hp. discriminate Hp.
          -- destruct (Hdone fe Hinl Hig) as (fv0 & fv' & Hfv0 & Hfv' & Hr & _).
             rewrite Hfv in Hfv0. inversion Hfv0; subst fv0. exists fv'. auto.
        * left. apply (Hnotin fe Hin Hig Hnl).
      + intros Hfv. apply (Hnotin fe Hin Hig). intros Hinl. destruct (Hlin fe Hinl) as (_ & Hc). apply (Hc Hig). exact Hfv.
    - intros rest. eapply uconv_S; [intros f; apply (ubare_entry t e _ _ _ Hg)|].
      eapply uconv_S.
      { intros f. rewrite unmarshal_entry_S, Hkd, Het. cbn [app]. rewrite <- app_assoc. reflexivity. }
      apply Hu. apply (uconv_from _ _ 1). intros f. cbn [Nat.add app]. rewrite unmarshal_fields_S.
      replace ((0 <=? len) && negb (len =? 0 + Z.of_nat (length l))) with false by (clear -Hlen; lia). reflexivity.
  Qed.

  (* ---------- transforms, keyed unions ----------------------------------------------------------- *)

  Lemma acc_transform t e kind wire v w ts :
    atlas_get A t = Some e -> ae_kind e = ETransform kind wire -> tr_fwd kind v = Some w ->
    rbare E A lax wire w (untag_own (ae_tag e) ts) -> Q_b wire w (untag_own (ae_tag e) ts) -> Q_b t v ts.
  Proof.
    intros Hg Hkd Hfw Hrb IH Hokv. pose proof Hokv as [Hw Hdomv].
    destruct (atlas_wf_entry E A t e Hwf Hg) as [He Het]. subst t.
    destruct (entry_wf_transform E A e kind wire He Hkd) as (Hty & Hup & Hnt & Htagp).
    pose proof (tr_fwd_dom E A Hwf e kind wire v w Hg Hkd Hokv Hfw) as Hokw.
    destruct (IH Hokw) as (w' & Hrw & Hww' & Huw).
    pose proof (domb_entry E A _ v Hdomv) as Hde. unfold dom_entry in Hde. rewrite Hg, Hkd in Hde.
    apply andb_true_iff in Hde. destruct Hde as [Hdm _].
    destruct (tr_bwd_defined_x E A lax kind _ wire v w w' Hty Hnt Hdm Hfw Hrw Hww') as [v' Hbw].
    destruct (tr_fwd_bwd kind w' v' Hbw) as [Hfw' Hdm'].
    assert (Hne : ts <> []).
    { apply startsv_nonempty. apply (startsv_untag (ae_tag e)). eapply rbare_starts. exact Hrb. }
    exists v'. split; [eapply rx_transform; eassumption|]. split; [eapply tr_bwd_wt; eassumption|].
    intros rest. eapply uconv_S; [intros f; apply (ubare_entry _ e _ _ _ Hg)|].
    eapply uconv_S.
    - intros f. rewrite unmarshal_entry_S, Hkd. rewrite (untag_own_app _ _ _ Hne). reflexivity.
    - apply (uconv_bind _ (fun _ w0 r => match tr_bwd kind w0 with Some x => UOk x r | None => UErr (S (length r)) end) w' rest);
        [apply Huw | rewrite Hbw; apply uconv_const].
  Qed.

  Lemma acc_union t e members name mt mv len tg1 tg2 tg3 ts :
    atlas_get A t = Some e -> ae_kind e = EUnion members -> In (name, mt) members -> (len = -1 \/ len = 1) ->
    Q_b mt mv ts ->
    Q_b t (VAny (Some (mt, mv))) (Tok (MapOpen len) tg1 :: Tok (Str name) tg2 :: ts ++ [Tok MapClose tg3]).
  Proof.
    intros Hg Hkd Hin Hlen IH Hokv. pose proof Hokv as [Hw Hdomv].
    destruct (atlas_wf_entry E A t e Hwf Hg) as [He Het]. subst t.
    destruct (entry_wf_union E A e members He Hkd) as ([i Hs] & Hnd & Hmw).
    rewrite forallb_forall in Hmw. specialize (Hmw _ Hin). unfold member_wf in Hmw. cbn [snd] in Hmw.
    destruct (atlas_get A mt) as [me|] eqn:Hgm; [|discriminate Hmw].
    assert (Hokm : okx mt mv).
    { split.
      - unfold wt in Hw. cbn [wtb] in Hw. rewrite Hs in Hw. exact Hw.
      - cbn [domb] in Hdomv. rewrite Hs in Hdomv. apply andb_true_iff in Hdomv. destruct Hdomv as [_ Hd].
        apply andb_true_iff in Hd. apply Hd. }
    destruct (IH Hokm) as (mv' & Hr & Hw' & Hu).
    exists (VAny (Some (mt, mv'))). split; [apply rx_any; exact Hr|].
    split; [unfold wt; cbn [wtb]; rewrite Hs; exact Hw'|].
    intros rest. eapply uconv_S; [intros f; apply (ubare_entry _ e _ _ _ Hg)|].
    eapply uconv_S.
    - intros f. rewrite unmarshal_entry_S, Hkd. cbn [app].
      replace ((len =? -1) || (len =? 1)) with true by (clear -Hlen; lia).
      rewrite (find_member_name members name mt Hnd Hin), Hgm. rewrite <- app_assoc. reflexivity.
    - apply (uconv_bind _ (fun _ mv0 r3 => match r3 with
                                           | [] => UStarved
                                           | Tok MapClose _ :: r4 => UOk (VAny (Some (mt, mv0))) r4
                                           | _ => UErr (length r3)
                                           end) mv' ([Tok MapClose tg3] ++ rest)); [|apply uconv_const].
      eapply uconv_pred; [|apply (Hu ([Tok MapClose tg3] ++ rest))].
      intros f. apply (ubare_entry mt me _ _ _ Hgm).
  Qed.

  (* ---------- every rendering is accepted ------------------------------------------------------ *)

  Lemma accept_all :
    (forall t v ts, renders E A lax t v ts -> Q_r t v ts) /\
    (forall t v ts, rbare E A lax t v ts -> Q_b t v ts) /\
    (forall et l ts, ritems E A lax et l ts -> Q_items et l ts) /\
    (forall vt es ts, rentries E A lax vt es ts -> Q_entries vt es ts) /\
    (forall st fields v l ts, rfields E A lax st fields v l ts -> Q_fields st fields v l ts).
  Proof.
    apply renders_all_ind; intros.
    - apply acc_base; assumption.
    - apply acc_ptr_null; assumption.
    - eapply acc_ptr; eassumption.
    - apply acc_bool; assumption.
    - apply acc_str; assumption.
    - eapply acc_int; eassumption.
    - eapply acc_uint; eassumption.
    - apply acc_f32; assumption.
    - apply acc_f64; assumption.
    - apply acc_bytes; assumption.
    - apply acc_bytes_nil; assumption.
    - eapply acc_bytearr; eassumption.
    - eapply acc_slice_nil; eassumption.
    - eapply acc_slice; eassumption.
    - eapply acc_arr; eassumption.
    - eapply acc_map_nil; eassumption.
    - eapply acc_map; eassumption.
    - apply acc_any_nil; assumption.
    - apply acc_any_null; assumption.
    - eapply acc_any_tagged; eassumption.
    - apply acc_any_native; assumption.
    - eapply acc_struct_null; eassumption.
    - eapply acc_struct; eassumption.
    - eapply acc_transform; eassumption.
    - eapply acc_union; eassumption.
    - apply acc_items_nil.
    - apply acc_items_cons; assumption.
    - apply acc_entries_nil.
    - apply acc_entries_cons; assumption.
    - apply acc_fields_nil.
    - eapply acc_fields_field; eassumption.
    - eapply acc_fields_ignored; eassumption.
  Qed.
End Accept.

(* ====================================================================== *)
(* Part 4.  The acceptance theorems; the marshaller's output is a rendering  *)
(* ====================================================================== *)

(* the general form: any flag, any trailing tokens, any sufficiently large fuel *)
Theorem unmarshal_accepts_renderings_gen : forall E A lax t v ts,
  atlas_wf E A = true -> wt E A t v -> domb E A t v = true -> renders E A lax t v ts ->
  exists v', reqx E A lax t v v' /\ wt E A t v' /\
    exists F, forall f rest, (F <= f)%nat -> unmarshal E A f t (zero 50 E t) (ts ++ rest) = UOk v' rest.
Proof.
  intros E A lax t v ts Hwf Hw Hd Hr.
  destruct (accept_all E A lax Hwf) as (Hacc & _).
  destruct (Hacc t v ts Hr (conj Hw Hd)) as (v' & Hrq & Hw' & Hu).
  exists v'. split; [exact Hrq|]. split; [exact Hw'|].
  destruct (Hu []) as [F HF]. exists F. intros f rest Hle.
  rewrite <- zero_of_unf. specialize (HF f Hle). cbv beta in HF. rewrite app_nil_r in HF.
  apply (unmarshal_frame_ok E A f t (zero_of E t) ts v' [] rest HF).
Qed.
Print Assumptions unmarshal_accepts_renderings_gen.

(* C13, acceptance: every rendering (without explicitly rendered empty omitempty fields) of a
   well-typed value of the domain is accepted, all its tokens are consumed, and the value read
   is round-trip equal to the value rendered *)
Theorem unmarshal_accepts_renderings : forall E A t v ts,
  atlas_wf E A = true -> wt E A t v -> domb E A t v = true -> renders E A false t v ts ->
  exists f' v', unmarshal E A f' t (zero 50 E t) ts = UOk v' [] /\ req E A t v v'.
Proof.
  intros E A t v ts Hwf Hw Hd Hr.
  destruct (unmarshal_accepts_renderings_gen E A false t v ts Hwf Hw Hd Hr) as (v' & Hrq & _ & F & HF).
  exists F, v'. split; [|apply reqx_false_req; exact Hrq].
  specialize (HF F [] (le_n _)). rewrite app_nil_r in HF. exact HF.
Qed.
Print Assumptions unmarshal_accepts_renderings.

(* ... and with omitempty fields rendered although empty: such a field comes back as what was
   rendered (e.g. an empty non-nil slice), which [req] does not allow ([reqx true] does) *)
Theorem unmarshal_accepts_renderings_lax : forall E A t v ts,
  atlas_wf E A = true -> wt E A t v -> domb E A t v = true -> renders E A true t v ts ->
  exists f' v', unmarshal E A f' t (zero 50 E t) ts = UOk v' [] /\ reqx E A true t v v' /\ wt E A t v'.
Proof.
  intros E A t v ts Hwf Hw Hd Hr.
  destruct (unmarshal_accepts_renderings_gen E A true t v ts Hwf Hw Hd Hr) as (v' & Hrq & Hw' & F & HF).
  exists F, v'. split; [|split; assumption].
  specialize (HF F [] (le_n _)). rewrite app_nil_r in HF. exact HF.
Qed.
Print Assumptions unmarshal_accepts_renderings_lax.

(* ---------- the marshaller's output is a rendering -------------------------------------- *)

Lemma names_distinct_NoDup (fields : list field_entry) :
  names_distinct (map fe_name fields) = true -> NoDup fields.
Proof.
  induction fields as [|x l IH]; intros H; [constructor|]. cbn in H. apply andb_true_iff in H. destruct H as [Hn Hd].
  constructor; [|apply IH; exact Hd]. intros Hin. apply negb_true_iff in Hn.
  assert (Hc : existsb (bytes_eqb (fe_name x)) (map fe_name l) = true).
  { apply existsb_exists. exists (fe_name x). split; [apply in_map; exact Hin | apply bytes_eqb_refl]. }
  congruence.
Qed.

Lemma renders_nonptr E A lax t v ts :
  (forall t', t <> GPtr t') -> renders E A lax t v ts -> rbare E A lax t v ts.
Proof.
  intros Hnp H. inversion H; subst.
  - assumption.
  - exfalso. eapply Hnp. reflexivity.
  - exfalso. destruct (peel_S_ptr _ _ _ H0) as [t' ->]. eapply Hnp. reflexivity.
Qed.

Section MarshalRenders.
  Variable E : tenv.
  Variable A : atlas.
  Hypothesis Hwf : atlas_wf E A = true.

  Notation okx := (okd E A).
  Notation rn := (renders E A false).
  Notation rb := (rbare E A false).

  Definition M_marshal (f : nat) : Prop := forall t v ts, okx t v -> marshal A f t v = MOk ts -> rn t v ts.
  Definition M_bare (f : nat) : Prop :=
    forall t v ts, okx t v -> (forall t', t <> GPtr t') -> marshal_bare A f t v = MOk ts -> rb t v ts.
  Definition M_kind (f : nat) : Prop :=
    forall t v ts, okx t v -> atlas_get A t = None -> marshal_kind A f (strip_named t) v = MOk ts -> rb t v ts.
  Definition M_items (f : nat) : Prop :=
    forall et l ts, Forall (okx et) l -> marshal_items A f et l = MOk ts ->
    exists ts', ts = ts' ++ [Tok ArrClose None] /\ ritems E A false et l ts'.
  Definition M_entries (f : nat) : Prop :=
    forall vt (es : list (bytes * gval)) ts, Forall (fun p => okx vt (snd p)) es -> marshal_entries A f vt es = MOk ts ->
    exists ts', ts = ts' ++ [Tok MapClose None] /\ rentries E A false vt es ts'.
  Definition M_map (f : nat) : Prop :=
    forall mode t kt vt o ts, strip_named t = GMap kt vt -> maplike A t -> okx t (GVMap o) ->
      marshal_map A f mode kt vt o = MOk ts -> rb t (GVMap o) ts.
  Definition M_entry (f : nat) : Prop :=
    forall e v ts, atlas_get A (ae_type e) = Some e -> okx (ae_type e) v -> marshal_entry A f e v = MOk ts ->
      rb (ae_type e) v ts.
  Definition M_fields (f : nat) : Prop :=
    forall st fields v l ts, okx st v -> forallb (field_wf E st) fields = true ->
      (forall fe, In fe l -> In fe fields /\ fe_ignore fe = false /\ traverse (fe_route fe) v <> None) ->
      marshal_fields A f l v = MOk ts ->
      exists ts', ts = ts' ++ [Tok MapClose None] /\ rfields E A false st fields v l ts'.

  Definition M_all (f : nat) : Prop :=
    M_marshal f /\ M_bare f /\ M_kind f /\ M_items f /\ M_entries f /\ M_map f /\ M_entry f /\ M_fields f.

  Lemma M_zero : M_all 0.
  Proof. repeat split; intro; intros; discriminate. Qed.

  Lemma mstep_marshal f : M_bare f -> M_marshal (S f).
  Proof.
    intros Hb t v ts [Hw Hdom] H. rewrite marshal_S in H. destruct (peel t) as [n base] eqn:Hp.
    destruct (peel_deref_wt E A t v n base Hp Hw) as [(Hd & Hn & [x Hx]) | (bv & Hd & Hwb & Hv)]; rewrite Hd in H.
    - inversion H; subst ts. destruct n as [|n']; [discriminate|].
      destruct (peel_S_ptr t n' base Hp) as [t' ->]. apply R_ptr_null. exact Hn.
    - assert (Hdw : domb E A base bv = true /\ (n <> O -> null_form A base bv = false)).
      { apply (dom_wrap E A t n base bv Hp). rewrite <- Hv. exact Hdom. }
      destruct Hdw as [Hdb Hnnf].
      pose proof (peel_base_not_ptr t n base Hp) as Hnpb.
      pose proof (Hb base bv ts (conj Hwb Hdb) Hnpb H) as Hrb.
      destruct n as [|n'].
      + apply peel_zero_base in Hp as Hbase. subst base. cbn in Hv. subst bv. apply R_base; assumption.
      + destruct (rbare_starts _ _ _ _ _ _ Hrb) as (tk & tg & r & -> & _).
        destruct (peel_S_ptr t n' base Hp) as [t' Ht].
        assert (Hcase : tk = Null \/ tk <> Null) by (destruct tk; auto; right; discriminate).
        destruct Hcase as [-> | Hnn].
        * destruct (marshal_bare_null E A Hwf f base bv tg r (conj Hwb Hdb) Hnpb H)
            as [(-> & -> & Hnl) | Hnf]; [|rewrite (Hnnf ltac:(discriminate)) in Hnf; discriminate Hnf].
          subst t. apply R_ptr_null. rewrite Hv, nullish_wrap. exact Hnl.
        * rewrite Hv. eapply R_ptr; eassumption.
  Qed.

  Lemma mstep_bare f : M_kind f -> M_entry f -> M_bare (S f).
  Proof.
    intros Hk He t v ts Hok Hnp H. rewrite marshal_bare_S in H.
    destruct (is_unnamed_prim t) eqn:Hup.
    - apply (Hk t v ts Hok (prim_no_entry E A Hwf t Hup)). rewrite (unnamed_prim_primk0 t Hup). exact H.
    - destruct (atlas_get A t) as [e|] eqn:Hg.
      + pose proof (atlas_get_type A t e Hg) as Het. subst t. apply He; assumption.
      + apply Hk; assumption.
  Qed.

  Lemma mstep_items f : M_marshal f -> M_items f -> M_items (S f).
  Proof.
    intros Hm Hi et l ts Hw H. rewrite marshal_items_S in H. destruct l as [|x l].
    - inversion H; subst ts. exists []. split; [reflexivity | constructor].
    - apply mseq_ok in H. destruct H as (ts1 & H1 & H). apply mprepend_ok in H. destruct H as (ts2 & H2 & ->).
      inversion Hw as [|? ? Hwx Hwl]; subst.
      destruct (Hi et l ts2 Hwl H2) as (ts2' & -> & Hr2).
      exists (ts1 ++ ts2'). split; [rewrite app_assoc; reflexivity|]. constructor; [apply Hm; assumption | exact Hr2].
  Qed.

  Lemma mstep_entries f : M_marshal f -> M_entries f -> M_entries (S f).
  Proof.
    intros Hm He vt es ts Hw H. rewrite marshal_entries_S in H. destruct es as [|[k x] es].
    - inversion H; subst ts. exists []. split; [reflexivity | constructor].
    - apply mprepend_ok in H. destruct H as (ts0 & H & ->).
      apply mseq_ok in H. destruct H as (ts1 & H1 & H). apply mprepend_ok in H. destruct H as (ts2 & H2 & ->).
      inversion Hw as [|? ? Hwx Hwl]; subst. cbn [snd] in Hwx.
      destruct (He vt es ts2 Hwl H2) as (ts2' & -> & Hr2).
      exists (Tok (Str k) None :: ts1 ++ ts2'). split; [cbn [app]; rewrite app_assoc; reflexivity|].
      constructor; [apply Hm; assumption | exact Hr2].
  Qed.

  Lemma mstep_map f : M_entries f -> M_map (S f).
  Proof.
    intros He mode t kt vt o ts Hs Hml [Hw Hdom] H. rewrite marshal_map_S in H.
    destruct (map_stringer A kt) as [str|] eqn:Hstr; [|discriminate].
    cbv zeta in H. destruct (existsb _ _) eqn:Hex; [discriminate|].
    destruct o as [es|].
    - apply mprepend_ok in H. destruct H as (ts' & H & ->). rewrite sorted_skg in H.
      unfold wt in Hw. rewrite (wtb_map E A t kt vt _ Hs) in Hw.
      apply andb_true_iff in Hw. destruct Hw as [Hw _]. apply andb_true_iff in Hw. destruct Hw as [_ Hwe].
      rewrite forallb_forall in Hwe.
      pose proof (domb_map E A t kt vt _ Hs Hdom) as Hdm. rewrite forallb_forall in Hdm.
      set (sorted := sort_keys (key_ltb mode) (skg str es)) in *.
      assert (Hperm : Permutation sorted (skg str es)) by apply sort_keys_perm.
      assert (Hws : Forall (fun p => okx vt (snd p)) sorted).
      { apply Forall_forall. intros p Hp. apply (Permutation_in _ Hperm) in Hp. unfold skg in Hp. apply in_map_iff in Hp.
        destruct Hp as (kv & <- & Hkv). cbn [snd].
        specialize (Hwe kv Hkv). apply andb_true_iff in Hwe. specialize (Hdm kv Hkv). apply andb_true_iff in Hdm.
        split; [apply Hwe | apply Hdm]. }
      destruct (He vt sorted ts' Hws H) as (ts'' & -> & Hr).
      cbn [app]. eapply RB_map; try eassumption.
      intros kv Hin Hc.
      assert (Hx : existsb (fun p : option bytes * gval => match fst p with None => true | Some _ => false end)
                           (map_keyed str es) = true).
      { apply existsb_exists. exists (str (fst kv), snd kv).
        split; [unfold map_keyed; apply in_map_iff; exists kv; auto | cbn; rewrite Hc; reflexivity]. }
      congruence.
    - inversion H; subst ts. eapply RB_map_nil; eassumption.
  Qed.

  Lemma mstep_fields f : M_marshal f -> M_fields f -> M_fields (S f).
  Proof.
    intros Hm Hf st fields v l ts Hokv Hfw Hl H. pose proof Hokv as [Hwv Hdomv].
    rewrite marshal_fields_S in H. destruct l as [|fe l].
    - inversion H; subst ts. exists []. split; [reflexivity | constructor].
    - destruct (Hl fe (or_introl eq_refl)) as (Hin & Hig & Htr).
      destruct (traverse (fe_route fe) v) as [fv|] eqn:Hfv; [|contradiction Htr; reflexivity].
      apply mprepend_ok in H. destruct H as (ts0 & H & ->).
      apply mseq_ok in H. destruct H as (ts1 & H1 & H). apply mprepend_ok in H. destruct H as (ts2 & H2 & ->).
      destruct (field_facts E st fields fe Hfw Hin Hig) as (Hrk & _ & _).
      assert (Hwfv : okx (fe_type fe) fv).
      { split; [exact (traverse_wt E A _ st v _ fv Hwv Hrk Hfv) | exact (traverse_dom E A _ st v _ fv Hwv Hdomv Hrk Hfv)]. }
      destruct (Hf st fields v l ts2 Hokv Hfw (fun fe' Hin' => Hl fe' (or_intror Hin')) H2) as (ts2' & -> & Hr2).
      exists (Tok (Str (fe_name fe)) None :: ts1 ++ ts2'). split; [cbn [app]; rewrite app_assoc; reflexivity|].
      eapply RF_field; try eassumption. apply Hm; assumption.
  Qed.

  (* the first token of what a tagged struct or transform type marshals to carries the tag *)
  Lemma tagged_head f dt dv e tg ts :
    atlas_get A dt = Some e -> ae_tag e = Some tg ->
    match ae_kind e with EStruct _ | ETransform _ _ => True | _ => False end ->
    marshal A f dt dv = MOk ts -> exists tk r, ts = Tok tk (Some tg) :: r.
  Proof.
    intros Hg Htg Hkd H.
    destruct (atlas_wf_entry E A dt e Hwf Hg) as [He Het].
    destruct (entry_type_shape E A e He) as [Hup Hnp]. rewrite Het in Hup, Hnp.
    destruct f as [|f1]; [discriminate|]. rewrite marshal_S, (peel_nonptr dt Hnp) in H. cbn [deref] in H.
    destruct f1 as [|f2]; [discriminate|]. rewrite marshal_bare_S, Hup, Hg in H.
    destruct f2 as [|f3]; [discriminate|]. rewrite marshal_entry_S in H.
    destruct (ae_kind e) as [fields|kind wire|members|mode]; try contradiction.
    - cbv zeta in H. apply mprepend_ok in H. destruct H as (ts' & _ & Hts). rewrite Htg in Hts. cbn in Hts. eauto.
    - destruct (tr_fwd kind dv) as [w|]; [|discriminate]. apply wrap_transform_ok in H.
      destruct H as (ts1 & H1 & ->). destruct (marshal_starts A _ _ _ _ H1) as (tk & tg0 & r & -> & _).
      rewrite Htg. cbn. eauto.
  Qed.

  Lemma mstep_kind f : M_marshal f -> M_items f -> M_map f -> M_kind (S f).
  Proof.
    intros Hm Hi Hmap t v ts Hok Hg H. pose proof Hok as [Hw Hdom].
    assert (Hanyc : is_any t -> forall o, v = VAny o -> rb t v ts).
    { intros Ha o Hv. subst v. rewrite (marshal_kind_any A f t o Ha) in H.
      destruct o as [[dt dv]|]; [|inversion H; subst ts; apply RB_any_nil; assumption].
      unfold wt in Hw. rewrite (wtb_any E A t _ Ha) in Hw. destruct (domb_any E A t dt dv Ha Hdom) as [Hdd Hso].
      destruct (nullish dv) eqn:Hnl.
      { rewrite (marshal_nullish E A Hwf f dt dv ts Hw Hnl H). apply RB_any_null; assumption. }
      unfold slot_ok in Hso.
      assert (Hnu : is_union A t = false) by (unfold is_union; rewrite Hg; reflexivity).
      rewrite Hnu, Hnl in Hso. cbn [orb] in Hso. apply andb_true_iff in Hso. destruct Hso as [Hany _].
      pose proof (Hm dt dv ts (conj Hw Hdd) H) as Hrn.
      unfold any_ok in Hany. destruct (tagged_slot A dt) eqn:Htag.
      - pose proof Htag as Htag'. unfold tagged_slot in Htag'. apply andb_true_iff in Htag'. destruct Htag' as [_ Htag'].
        destruct (atlas_get A dt) as [e|] eqn:Hgd; [|discriminate].
        destruct (atlas_wf_entry E A dt e Hwf Hgd) as [He Het].
        destruct (entry_type_shape E A e He) as [_ Hnp]. rewrite Het in Hnp.
        assert (Htg : exists tg, ae_tag e = Some tg /\ match ae_kind e with EStruct _ | ETransform _ _ => True | _ => False end).
        { destruct (ae_kind e); destruct (ae_tag e) as [tg|]; try discriminate Htag'; exists tg; auto. }
        destruct Htg as (tg & Htg & Hkd).
        destruct (tagged_head f dt dv e tg ts Hgd Htg Hkd H) as (tk & r & ->).
        eapply RB_any_tagged; try eassumption. apply renders_nonptr; assumption.
      - rewrite orb_false_r in Hany. destruct (native_slot_nonptr A dt Hany) as (Hnpd & Hne & Hna & Hni).
        destruct (marshal_plain A f dt dv ts Hne Hnpd H) as (f3 & _ & Hk).
        destruct (kind_head_untagged A _ _ _ _ Hk Hna Hni) as (tk & r & ->).
        apply RB_any_native; try assumption. apply renders_nonptr; assumption. }
    rewrite marshal_kind_S in H. unfold wt in Hw.
    destruct (strip_named t) eqn:Hs; destruct v; try discriminate H; cbn [wtb] in Hw; rewrite Hs in Hw.
    - inversion H; subst. apply RB_bool; assumption.
    - inversion H; subst. unfold in_kind in Hw. destruct (ik_signed k) eqn:Hsg.
      + eapply RB_int; [exact Hg | exact Hs |]. unfold max_i64. clear -Hw Hsg. destruct k; cbn in *; try discriminate; lia.
      + eapply RB_uint; [exact Hg | exact Hs |]. clear -Hw Hsg. destruct k; cbn in *; try discriminate; lia.
    - inversion H; subst. apply RB_f32; assumption.
    - inversion H; subst. apply RB_f64; assumption.
    - inversion H; subst. apply RB_str; assumption.
    - destruct o; inversion H; subst; [apply RB_bytes | apply RB_bytes_nil]; assumption.
    - inversion H; subst. eapply RB_bytearr; eassumption.
    - destruct o as [l|].
      + apply mprepend_ok in H. destruct H as (ts' & H & ->).
        pose proof (domb_slice E A t _ _ Hs Hdom) as Hdl.
        destruct (Hi _ l ts' (okv_list E A _ l Hw Hdl) H) as (ts'' & -> & Hr).
        cbn [app]. eapply RB_slice; eassumption.
      + inversion H; subst. eapply RB_slice_nil; eassumption.
    - apply mprepend_ok in H. destruct H as (ts' & H & ->).
      apply andb_true_iff in Hw. destruct Hw as [_ Hwl].
      pose proof (domb_arr E A t _ _ _ Hs Hdom) as Hdl.
      destruct (Hi _ l ts' (okv_list E A _ l Hwl Hdl) H) as (ts'' & -> & Hr).
      cbn [app]. eapply RB_arr; eassumption.
    - eapply Hmap; try eassumption. unfold maplike. rewrite Hg. exact I.
    - eapply Hanyc; [left; exact Hs | reflexivity].
    - eapply Hanyc; [right; eexists; exact Hs | reflexivity].
  Qed.

  Lemma mstep_entry f : M_marshal f -> M_map f -> M_entry f -> M_fields f -> M_entry (S f).
  Proof.
    intros Hm Hmap Hen Hf e v ts Hg Hokv H. pose proof Hokv as [Hw Hdomv].
    destruct (atlas_wf_entry E A _ e Hwf Hg) as [He _].
    rewrite marshal_entry_S in H.
    destruct (ae_kind e) as [fields|kind wire|members|mode] eqn:Hkd.
    - (* struct map *)
      destruct (entry_wf_struct E A e fields He Hkd) as (id & Hs & Hnb & Hfw & Hnd & Hro).
      cbv zeta in H. apply mprepend_ok in H. destruct H as (ts' & H & ->).
      rewrite live_fields_eq in H.
      set (live := filter (livep v) fields) in *.
      assert (Hlive : forall fe, In fe live -> In fe fields /\ fe_ignore fe = false /\ traverse (fe_route fe) v <> None).
      { intros fe Hin. unfold live in Hin. apply filter_In in Hin. destruct Hin as [Hin Hp].
        unfold livep in Hp. apply andb_true_iff in Hp. destruct Hp as [Hp1 Hp2]. apply negb_true_iff in Hp1.
        split; [exact Hin|]. split; [exact Hp1|]. destruct (traverse (fe_route fe) v); [discriminate | discriminate Hp2]. }
      destruct (Hf (ae_type e) fields v live ts' Hokv Hfw Hlive H) as (ts'' & -> & Hr).
      cbn [app]. eapply RB_struct; try eassumption.
      + apply NoDup_filter. unfold live. apply NoDup_filter. apply names_distinct_NoDup. exact Hnd.
      + intros fe Hin Hp. unfold live. apply filter_In. auto.
      + intros _ fe Hin _. unfold live in Hin. apply filter_In in Hin. apply Hin.
      + right. reflexivity.
    - (* transform *)
      destruct (tr_fwd kind v) as [w|] eqn:Hfw; [|discriminate].
      apply wrap_transform_ok in H. destruct H as (ts1 & H1 & ->).
      destruct (entry_wf_transform E A e kind wire He Hkd) as (Hty & Hup & Hnt & Htagp).
      pose proof (tr_types_wire_nonptr E kind _ wire Hty) as Hwnp.
      pose proof (tr_fwd_dom E A Hwf e kind wire v w Hg Hkd Hokv Hfw) as Hokw.
      pose proof (renders_nonptr E A false wire w ts1 Hwnp (Hm wire w ts1 Hokw H1)) as Hrb.
      pose proof (domb_entry E A _ v Hdomv) as Hde. unfold dom_entry in Hde. rewrite Hg, Hkd in Hde.
      apply andb_true_iff in Hde. destruct Hde as [Hdm Hsu].
      assert (Hhead : ae_tag e = None \/ exists tk r, ts1 = Tok tk None :: r).
      { destruct (ae_tag e) as [tg|] eqn:Htg; [right | left; reflexivity].
        rewrite Hfw in Hsu. eapply (head_untagged E A Hwf); [eapply Htagp; reflexivity | exact Hwnp | exact Hokw | exact Hsu | exact H1]. }
      eapply RB_transform; try eassumption.
      pose proof (untag_retag (ae_tag e) ts1 [] Hhead) as Hq. rewrite !app_nil_r in Hq. rewrite Hq. exact Hrb.
    - (* keyed union *)
      destruct v; try discriminate H. destruct o as [[mt mv]|]; [|discriminate H].
      destruct (find _ members) as [[name mt0]|] eqn:Hfd; [|discriminate H].
      destruct (find_member_type _ _ _ _ Hfd) as [-> Hin].
      destruct (atlas_get A mt) as [me|] eqn:Hgm; [|discriminate H].
      apply wrap_union_ok in H. destruct H as (ts1 & H1 & ->).
      destruct (entry_wf_union E A e members He Hkd) as ([i Hs] & Hnd & _).
      pose proof (atlas_get_type A mt me Hgm) as Hmt.
      assert (Hokm : okx (ae_type me) mv).
      { rewrite Hmt. split.
        - unfold wt in Hw. cbn [wtb] in Hw. rewrite Hs in Hw. exact Hw.
        - cbn [domb] in Hdomv. rewrite Hs in Hdomv. apply andb_true_iff in Hdomv. destruct Hdomv as [_ Hd].
          apply andb_true_iff in Hd. apply Hd. }
      assert (Hgm' : atlas_get A (ae_type me) = Some me) by (rewrite Hmt; exact Hgm).
      pose proof (Hen me mv ts1 Hgm' Hokm H1) as Hrb. rewrite Hmt in Hrb.
      cbn [app]. eapply RB_union; try eassumption. right. reflexivity.
    - (* map morphism *)
      destruct (entry_wf_morphism E A e mode He Hkd) as (kt & vt & Hs). rewrite Hs in H.
      destruct v; try discriminate H.
      eapply Hmap; try eassumption. unfold maplike. rewrite Hg, Hkd. exact I.
  Qed.

  Lemma M_step f : M_all f -> M_all (S f).
  Proof.
    intros (Hm & Hb & Hk & Hi & He & Hmap & Hen & Hf).
    repeat split.
    - apply mstep_marshal; assumption.
    - apply mstep_bare; assumption.
    - apply mstep_kind; assumption.
    - apply mstep_items; assumption.
    - apply mstep_entries; assumption.
    - apply mstep_map; assumption.
    - apply mstep_entry; assumption.
    - apply mstep_fields; assumption.
  Qed.

  Lemma M_all_holds f : M_all f.
  Proof. induction f; [apply M_zero | apply M_step; assumption]. Qed.
End MarshalRenders.

(* what the marshaller emits is one of the renderings *)
Theorem marshal_renders : forall E A t v f ts,
  atlas_wf E A = true -> wt E A t v -> domb E A t v = true -> marshal A f t v = MOk ts ->
  renders E A false t v ts.
Proof.
  intros E A t v f ts Hwf Hw Hd H. destruct (M_all_holds E A Hwf f) as (Hm & _). apply Hm; [split|]; assumption.
Qed.
Print Assumptions marshal_renders.

(* ... so the token round trip (RoundTripProof.token_roundtrip) is an instance of acceptance *)
Corollary token_roundtrip_from_renderings : forall E A t v f ts,
  atlas_wf E A = true -> wt E A t v -> domb E A t v = true -> marshal A f t v = MOk ts ->
  exists f' v', unmarshal E A f' t (zero 50 E t) ts = UOk v' [] /\ req E A t v v' /\ wt E A t v'.
Proof.
  intros E A t v f ts Hwf Hw Hd H.
  pose proof (marshal_renders E A t v f ts Hwf Hw Hd H) as Hr.
  destruct (unmarshal_accepts_renderings_gen E A false t v ts Hwf Hw Hd Hr) as (v' & Hrq & Hw' & F & HF).
  exists F, v'. split; [|split; [apply reqx_false_req; exact Hrq | exact Hw']].
  specialize (HF F [] (le_n _)). rewrite app_nil_r in HF. exact HF.
Qed.
Print Assumptions token_roundtrip_from_renderings.

(* ====================================================================== *)
(* Part 5.  Rejections                                                      *)
(* ====================================================================== *)
(* Each rejection is located: the result is [UErr (S (length rest))] where [rest] is what follows
   the offending token.  The container-level statements hold after ANY rendered prefix of the
   container's content (the continuation lemmas of Part 3). *)

(* ---------- the right kind of first token ----------------------------------------------- *)

(* the first tokens a target of (stripped) kind k without atlas entry accepts *)
Definition first_ok (k : gtype) (tk : tokv) : bool :=
  match k, tk with
  | GBool, Bool _ => true
  | GStr, Str _ => true
  | GNum i, Int z => in_kind i z
  | GNum i, Uint z => in_kind i z
  | GF32, Flt _ | GF32, Int _ | GF32, Uint _ => true
  | GF64, Flt _ | GF64, Int _ | GF64, Uint _ => true
  | GBytes, Byt _ | GBytes, Null => true
  | GByteArr n, Byt s => Nat.eqb (length s) n
  | GByteArr n, Null => Nat.eqb n 0
  | GSlice _, Null | GSlice _, ArrOpen _ => true
  | GArr _ _, Null | GArr _ _, ArrOpen _ => true
  | GMap _ _, Null | GMap _ _, MapOpen _ => true
  | _, _ => false
  end.

(* the kinds this table is about: primitives, slices, arrays, maps whose key type can be read *)
Definition kind_plain (A : atlas) (k : gtype) : bool :=
  match k with
  | GBool | GNum _ | GF32 | GF64 | GStr | GBytes | GByteArr _ | GSlice _ | GArr _ _ => true
  | GMap kt _ => match key_destringer A kt with Some _ => true | None => false end
  | _ => false
  end.

Theorem reject_wrong_token_kind : forall E A f k cur tk tg r,
  kind_plain A k = true -> first_ok k tk = false ->
  unmarshal_kind E A (S (S f)) k cur (Tok tk tg :: r) = UErr (S (length r)).
Proof.
  intros E A f k cur tk tg r Hk Hf. rewrite unmarshal_kind_S.
  destruct k; try discriminate Hk; destruct tk; try discriminate Hf; cbn [uprim first_ok] in *;
    try rewrite Hf; try reflexivity.
  all: rewrite unmarshal_map_S; cbn [kind_plain] in Hk; destruct (key_destringer A k1); [reflexivity | discriminate Hk].
Qed.
Print Assumptions reject_wrong_token_kind.

(* ... and a token of the table is never rejected at its own position *)
Theorem accept_right_token_kind : forall E A f k cur tk tg r,
  kind_plain A k = true -> first_ok k tk = true ->
  unmarshal_kind E A (S f) k cur (Tok tk tg :: r) <> UErr (S (length r)).
Proof.
  intros E A f k cur tk tg r Hk Hf. rewrite unmarshal_kind_S.
  destruct (uall_holds E A f) as (_ & _ & _ & _ & Hsl & Har & _ & _ & _ & _).
  destruct k; try discriminate Hk; destruct tk; try discriminate Hf; cbn [uprim first_ok] in *;
    try rewrite Hf; try discriminate.
  - (* slice *) intros Hc. specialize (Hsl k [] r (length r) (le_n _)). rewrite Hc in Hsl. cbn in Hsl. lia.
  - (* array *) intros Hc. specialize (Har n k [] r (length r) (le_n _)). rewrite Hc in Har. cbn in Har. lia.
  - (* map *) destruct f as [|f]; [discriminate|]. rewrite unmarshal_map_S.
    cbn [kind_plain] in Hk. destruct (key_destringer A k1) as [destr|]; [|discriminate Hk]. cbv zeta.
    destruct (uall_holds E A f) as (_ & _ & _ & _ & _ & _ & _ & Hme & _).
    intros Hc. match type of Hc with unmarshal_map_entries _ _ _ ?d ?vt ?es _ = _ =>
      specialize (Hme d vt es r (length r) (le_n _)) end.
    rewrite Hc in Hme. cbn in Hme. lia.
  - (* map: null *) destruct f as [|f]; [discriminate|]. rewrite unmarshal_map_S.
    cbn [kind_plain] in Hk. destruct (key_destringer A k1); [discriminate | discriminate Hk].
Qed.
Print Assumptions accept_right_token_kind.

(* the same at the top of a value of a type without entry (through [unmarshal]) *)
Theorem reject_wrong_token_kind_top : forall E A f t cur tk tg r,
  atlas_get A t = None -> (forall t', t <> GPtr t') ->
  kind_plain A (strip_named t) = true -> first_ok (strip_named t) tk = false ->
  unmarshal E A (4 + f) t cur (Tok tk tg :: r) = UErr (S (length r)).
Proof.
  intros E A f t cur tk tg r Hg Hnp Hk Hf. cbn [Nat.add]. rewrite unmarshal_S, (peel_nonptr t Hnp).
  rewrite unmarshal_bare_S. destruct (is_unnamed_prim t) eqn:Hup.
  - rewrite (unnamed_prim_primk0 t Hup) in Hk, Hf.
    pose proof (reject_wrong_token_kind E A f t cur tk tg r Hk Hf) as H. rewrite unmarshal_kind_S in H.
    destruct t; try discriminate Hup; exact H.
  - rewrite Hg. apply reject_wrong_token_kind; assumption.
Qed.
Print Assumptions reject_wrong_token_kind_top.

(* behind pointers: Null (a nil pointer), or what the pointed-to type accepts *)
Theorem reject_wrong_token_kind_ptr : forall E A f t n base cur tk tg r,
  peel t = (S n, base) -> atlas_get A base = None ->
  kind_plain A (strip_named base) = true -> tk <> Null -> first_ok (strip_named base) tk = false ->
  unmarshal E A (4 + f) t cur (Tok tk tg :: r) = UErr (S (length r)).
Proof.
  intros E A f t n base cur tk tg r Hp Hg Hk Hn Hf. cbn [Nat.add].
  rewrite (unmarshal_S_ptr E A _ t n base _ tk tg _ Hp Hn).
  assert (Hb : unmarshal_bare E A (S (S (S f))) base (inner_cur E (S n) t cur) (Tok tk tg :: r) = UErr (S (length r))).
  { rewrite unmarshal_bare_S. destruct (is_unnamed_prim base) eqn:Hup.
    - rewrite (unnamed_prim_primk0 base Hup) in Hk, Hf.
      pose proof (reject_wrong_token_kind E A f base (inner_cur E (S n) t cur) tk tg r Hk Hf) as H.
      rewrite unmarshal_kind_S in H. destruct base; try discriminate Hup; exact H.
    - rewrite Hg. apply reject_wrong_token_kind; assumption. }
  rewrite Hb. reflexivity.
Qed.
Print Assumptions reject_wrong_token_kind_ptr.

(* struct-map targets accept Null and MapOpen; keyed unions MapOpen with length -1 or 1 *)
Theorem reject_wrong_token_struct : forall E A f e fields cur tk tg r,
  ae_kind e = EStruct fields -> tk <> Null -> (forall len, tk <> MapOpen len) ->
  unmarshal_entry E A (S f) e cur (Tok tk tg :: r) = UErr (S (length r)).
Proof.
  intros E A f e fields cur tk tg r Hk Hn Hm. rewrite unmarshal_entry_S, Hk.
  destruct tk; try reflexivity; [exfalso; eapply Hm; reflexivity | contradiction].
Qed.

Theorem reject_wrong_token_union : forall E A f e members cur tk tg r,
  ae_kind e = EUnion members -> (tk <> MapOpen (-1) /\ tk <> MapOpen 1) ->
  unmarshal_entry E A (S f) e cur (Tok tk tg :: r) = UErr (S (length r)).
Proof.
  intros E A f e members cur tk tg r Hk [H1 H2]. rewrite unmarshal_entry_S, Hk.
  destruct tk; try reflexivity.
  destruct (len =? -1) eqn:Ha; [exfalso; apply H1; f_equal; lia|].
  destruct (len =? 1) eqn:Hb; [exfalso; apply H2; f_equal; lia|]. reflexivity.
Qed.
Print Assumptions reject_wrong_token_struct.
Print Assumptions reject_wrong_token_union.

(* an untyped slot rejects close tokens and tokens with a tag no atlas entry has *)
Theorem reject_any_unknown_tag : forall E A f tk tg r,
  atlas_by_tag A tg = None -> unmarshal_any E A (S f) (Tok tk (Some tg) :: r) = UErr (S (length r)).
Proof. intros E A f tk tg r H. rewrite unmarshal_any_S, H. reflexivity. Qed.

Theorem reject_any_close : forall E A f tk r,
  vstart tk = false -> unmarshal_any E A (S f) (Tok tk None :: r) = UErr (S (length r)).
Proof. intros E A f tk r H. rewrite unmarshal_any_S. destruct tk; try discriminate H; reflexivity. Qed.
Print Assumptions reject_any_unknown_tag.
Print Assumptions reject_any_close.

Section Reject.
  Variable E : tenv.
  Variable A : atlas.
  Variable lax : bool.
  Hypothesis Hwf : atlas_wf E A = true.

  Lemma unmarshal_entry_top t e cur ts f :
    atlas_get A t = Some e -> unmarshal E A (S (S f)) t cur ts = unmarshal_entry E A f e cur ts.
  Proof.
    intros Hg. destruct (atlas_wf_entry E A t e Hwf Hg) as [He Het].
    destruct (entry_type_shape E A e He) as [_ Hnp]. rewrite Het in Hnp.
    rewrite unmarshal_S, (peel_nonptr t Hnp). apply (ubare_entry E A Hwf). exact Hg.
  Qed.

  (* ---------- struct maps: after a rendered prefix of entries -------------------------------- *)

  Lemma struct_prefix t e fields v l ts tg :
    atlas_get A t = Some e -> ae_kind e = EStruct fields -> okd E A t v ->
    rfields E A lax t fields v l ts -> NoDup (filter active l) ->
    exists cur', wt E A t cur' /\ forall len tail r,
      uconv (fun f => unmarshal_fields E A f t fields len cur' (Z.of_nat (length l)) tail) r ->
      uconv (fun f => unmarshal E A f t (zero_of E t) (Tok (MapOpen len) tg :: ts ++ tail)) r.
  Proof.
    intros Hg Hkd Hokv Hrl Hndl.
    destruct (atlas_wf_entry E A t e Hwf Hg) as [He Het].
    destruct (entry_wf_struct E A e fields He Hkd) as (id & Hs & Hnb & Hfw & Hnd & Hro). rewrite Het in *.
    pose proof (rfields_in E A lax t fields v l ts Hrl) as Hlin.
    assert (Hpfa : prefix_free (map fe_route (filter active fields)) = true).
    { unfold routes_ok in Hro. apply andb_true_iff in Hro. apply Hro. }
    assert (Hpf : prefix_free (map fe_route (filter active l)) = true).
    { apply (prefix_free_sub fe_route (filter active fields)); [exact Hpfa | exact Hndl |].
      intros fe Hfe. apply filter_In in Hfe. destruct Hfe as [Hfe Hact]. apply filter_In. split; [apply Hlin; exact Hfe | exact Hact]. }
    assert (Hwz : wt E A t (zero_of E t)) by (apply zero_of_wt; exact Hnb).
    assert (Hblz' : forall fe, In fe l -> fe_ignore fe = false -> blank_at E fe (zero_of E t)).
    { intros fe Hin Hig. apply blank_at_iff. destruct (field_facts E t fields fe Hfw (proj1 (Hlin fe Hin)) Hig) as (Hrk & _).
      apply traverse_zero. exact Hrk. }
    destruct (accept_all E A lax Hwf) as (_ & _ & _ & _ & Hacc).
    destruct (Hacc t fields v l ts Hrl Hokv Hfw Hnd Hpf (zero_of E t) 0 Hwz Hblz') as (cur' & Hu & Hwc' & _).
    exists cur'. split; [exact Hwc'|]. intros len tail r Hk.
    eapply uconv_S; [intros f; reflexivity|]. eapply uconv_S; [intros f; apply (unmarshal_entry_top t e _ _ _ Hg)|].
    eapply uconv_S.
    { intros f. rewrite unmarshal_entry_S, Hkd, Het. cbn [app]. reflexivity. }
    apply Hu. rewrite Z.add_0_l. exact Hk.
  Qed.

  (* a key that no field entry has *)
  Theorem reject_unknown_field : forall t e fields v l ts len tg k tgk rest,
    atlas_get A t = Some e -> ae_kind e = EStruct fields -> wt E A t v -> domb E A t v = true ->
    rfields E A lax t fields v l ts -> NoDup (filter active l) ->
    find (fun fe => bytes_eqb (fe_name fe) k) fields = None ->
    exists F, forall f, (F <= f)%nat ->
      unmarshal E A f t (zero 50 E t) (Tok (MapOpen len) tg :: ts ++ Tok (Str k) tgk :: rest) = UErr (S (length rest)).
  Proof.
    intros t e fields v l ts len tg k tgk rest Hg Hkd Hw Hd Hrl Hndl Hfind.
    destruct (struct_prefix t e fields v l ts tg Hg Hkd (conj Hw Hd) Hrl Hndl) as (cur' & _ & Hp).
    rewrite <- zero_of_unf. apply Hp. apply (uconv_from _ _ 1). intros f. cbn [Nat.add].
    rewrite unmarshal_fields_S, Hfind. reflexivity.
  Qed.

  (* a declared length different from the number of entries: detected at the MapClose *)
  Theorem reject_length_mismatch : forall t e fields v l ts len tg tgc rest,
    atlas_get A t = Some e -> ae_kind e = EStruct fields -> wt E A t v -> domb E A t v = true ->
    rfields E A lax t fields v l ts -> NoDup (filter active l) ->
    0 <= len -> len <> Z.of_nat (length l) ->
    exists F, forall f, (F <= f)%nat ->
      unmarshal E A f t (zero 50 E t) (Tok (MapOpen len) tg :: ts ++ Tok MapClose tgc :: rest) = UErr (S (length rest)).
  Proof.
    intros t e fields v l ts len tg tgc rest Hg Hkd Hw Hd Hrl Hndl Hl0 Hlne.
    destruct (struct_prefix t e fields v l ts tg Hg Hkd (conj Hw Hd) Hrl Hndl) as (cur' & _ & Hp).
    rewrite <- zero_of_unf. apply Hp. apply (uconv_from _ _ 1). intros f. cbn [Nat.add].
    rewrite unmarshal_fields_S.
    replace ((0 <=? len) && negb (len =? Z.of_nat (length l))) with true by (clear -Hl0 Hlne; lia). reflexivity.
  Qed.

  (* struct maps do NOT reject a repeated key: the field is unmarshalled again, INTO the value the
     first occurrence left (for a primitive type that means the last one wins), and the entry is
     counted again *)
  Theorem struct_duplicate_key_last_wins : forall t fields fe cur tok1 tok2 x1 x2 tg tg',
    wt E A t cur -> forallb (field_wf E t) fields = true -> names_distinct (map fe_name fields) = true ->
    In fe fields -> fe_ignore fe = false -> is_unnamed_prim (fe_type fe) = true ->
    (forall c rest, uprim (fe_type fe) c (tok1 :: rest) = UOk x1 rest) -> wt E A (fe_type fe) x1 ->
    (forall c rest, uprim (fe_type fe) c (tok2 :: rest) = UOk x2 rest) -> wt E A (fe_type fe) x2 ->
    exists cur2, wt E A t cur2 /\ traverse (fe_route fe) cur2 = Some x2 /\
      (forall r0 x, unrelated r0 (fe_route fe) = true -> traverse r0 cur = Some x -> traverse r0 cur2 = Some x) /\
      forall f len count rest,
        unmarshal_fields E A (4 + f) t fields len cur count
          (Tok (Str (fe_name fe)) tg :: tok1 :: Tok (Str (fe_name fe)) tg' :: tok2 :: rest) =
        unmarshal_fields E A (2 + f) t fields len cur2 (count + 1 + 1) rest.
  Proof.
    intros t fields fe cur tok1 tok2 x1 x2 tg tg' Hwc Hfw Hnd Hin Hig Hup Hu1 Hw1 Hu2 Hw2.
    destruct (field_facts E t fields fe Hfw Hin Hig) as (Hrk & Hnb & Hlen).
    assert (Hnp : forall t', fe_type fe <> GPtr t') by (intros t' Hc; rewrite Hc in Hup; discriminate Hup).
    destruct (route_get_ok E A (fe_route fe) 50 t cur (fe_type fe) Hwc Hrk Hlen) as (c1 & Hget1 & _).
    destruct (route_set_ok E A (fe_route fe) 50 t cur (fe_type fe) x1 Hwc Hrk Hw1 Hlen) as (cur1 & Hset1 & Hwc1 & Htr1).
    destruct (route_get_ok E A (fe_route fe) 50 t cur1 (fe_type fe) Hwc1 Hrk Hlen) as (c2 & Hget2 & _).
    destruct (route_set_ok E A (fe_route fe) 50 t cur1 (fe_type fe) x2 Hwc1 Hrk Hw2 Hlen) as (cur2 & Hset2 & Hwc2 & Htr2).
    assert (Hprim : forall f c tok x rest, (forall c0 r0, uprim (fe_type fe) c0 (tok :: r0) = UOk x r0) ->
              unmarshal E A (S (S f)) (fe_type fe) c (tok :: rest) = UOk x rest).
    { intros f c tok x rest Hu. rewrite unmarshal_S, (peel_nonptr _ Hnp), unmarshal_bare_S, Hup. apply Hu. }
    exists cur2. split; [exact Hwc2|]. split; [exact Htr2|]. split.
    - intros r0 x Hun Hx.
      eapply route_set_keeps; [exact Hwc1 | exact Hrk | exact Hun | exact Hset2 |].
      eapply route_set_keeps; [exact Hwc | exact Hrk | exact Hun | exact Hset1 | exact Hx].
    - intros f len count rest. cbn [Nat.add].
      rewrite unmarshal_fields_S, (find_by_name fields fe Hnd Hin), Hig, Hget1.
      rewrite (Hprim _ c1 tok1 x1 _ Hu1). cbn [ubind]. rewrite Hset1.
      rewrite unmarshal_fields_S, (find_by_name fields fe Hnd Hin), Hig, Hget2.
      rewrite (Hprim _ c2 tok2 x2 _ Hu2). cbn [ubind]. rewrite Hset2. reflexivity.
  Qed.

  (* ---------- arrays: after a rendered prefix of elements -------------------------------------- *)

  Lemma arr_prefix t n et l ts d tg :
    atlas_get A t = None -> strip_named t = GArr n et -> Forall (okd E A et) l ->
    ritems E A lax et l ts -> (length l <= n)%nat ->
    exists l', Forall2 (fun x x' => reqx E A lax et x x' /\ wt E A et x') l l' /\ forall cur tail r,
      uconv (fun f => unmarshal_array E A f n et (rev l') tail) r ->
      uconv (fun f => unmarshal E A f t cur (Tok (ArrOpen d) tg :: ts ++ tail)) r.
  Proof.
    intros Hg Hs Hok Hri Hl.
    destruct (accept_all E A lax Hwf) as (_ & _ & Hacc & _).
    destruct (Hacc et l ts Hri Hok) as (l' & Hf2 & _ & Hua).
    exists l'. split; [exact Hf2|]. intros cur tail r Hk.
    assert (Hnp : forall t', t <> GPtr t') by (intros t' ->; discriminate Hs).
    eapply uconv_S; [intros f; rewrite unmarshal_S, (peel_nonptr t Hnp); reflexivity|].
    eapply uconv_S.
    { intros f. apply ubare_kind; [exact Hg | eapply strip_not_unnamed; [exact Hs | reflexivity]]. }
    eapply uconv_S.
    { intros f. rewrite Hs, unmarshal_kind_S. cbn [app]. reflexivity. }
    apply (Hua n [] tail r); [cbn [length]; lia|]. rewrite app_nil_r. exact Hk.
  Qed.

  (* more than n elements into [n]T: rejected at the first token of the extra element *)
  Theorem reject_array_overflow : forall t n et l ts d tg cur tk tgk rest,
    atlas_get A t = None -> strip_named t = GArr n et -> Forall (okd E A et) l ->
    ritems E A lax et l ts -> length l = n -> tk <> ArrClose ->
    exists F, forall f, (F <= f)%nat ->
      unmarshal E A f t cur (Tok (ArrOpen d) tg :: ts ++ Tok tk tgk :: rest) = UErr (S (length rest)).
  Proof.
    intros t n et l ts d tg cur tk tgk rest Hg Hs Hok Hri Hl Hnc.
    destruct (arr_prefix t n et l ts d tg Hg Hs Hok Hri ltac:(lia)) as (l' & Hf2 & Hp).
    apply Hp. apply (uconv_from _ _ 1). intros f. cbn [Nat.add]. rewrite unmarshal_array_S.
    assert (Hle : Nat.leb n (length (rev l')) = true).
    { apply Nat.leb_le. rewrite rev_length, <- (Forall2_length' _ _ _ Hf2). lia. }
    destruct tk; try reflexivity; try (rewrite Hle; reflexivity). contradiction.
  Qed.

  (* fewer than n elements: not an error, the remaining elements are zero values *)
  Theorem array_short_padded : forall t n et l ts d tg cur tgc rest,
    atlas_get A t = None -> strip_named t = GArr n et -> Forall (okd E A et) l ->
    ritems E A lax et l ts -> (length l <= n)%nat ->
    exists l', Forall2 (fun x x' => reqx E A lax et x x' /\ wt E A et x') l l' /\
      exists F, forall f, (F <= f)%nat ->
        unmarshal E A f t cur (Tok (ArrOpen d) tg :: ts ++ Tok ArrClose tgc :: rest) =
        UOk (GVArr (l' ++ repeat (zero 50 E et) (n - length l))) rest.
  Proof.
    intros t n et l ts d tg cur tgc rest Hg Hs Hok Hri Hl.
    destruct (arr_prefix t n et l ts d tg Hg Hs Hok Hri Hl) as (l' & Hf2 & Hp).
    exists l'. split; [exact Hf2|]. apply Hp. apply (uconv_from _ _ 1). intros f. cbn [Nat.add].
    rewrite unmarshal_array_S, rev_involutive, rev_length, <- (Forall2_length' _ _ _ Hf2), zero_of_unf. reflexivity.
  Qed.

  (* ---------- maps: after a rendered prefix of entries ------------------------------------------ *)

  Lemma map_prefix t kt vt destr (kf : bytes -> gval) ses ts d tg :
    maplike A t -> strip_named t = GMap kt vt -> key_destringer A kt = Some destr ->
    Forall (fun p => okd E A vt (snd p)) ses -> rentries E A lax vt ses ts ->
    (forall p, In p ses -> destr (fst p) = Some (kf (fst p))) -> NoDup (map fst ses) ->
    (forall p q, In p ses -> In q ses -> fst p <> fst q -> gval_key_eqb (kf (fst q)) (kf (fst p)) = false) ->
    exists ses', Forall2 (fun p p' => fst p = fst p' /\ reqx E A lax vt (snd p) (snd p') /\ wt E A vt (snd p')) ses ses' /\
      forall tail r,
        uconv (fun f => unmarshal_map_entries E A f destr vt (map (fun p => (kf (fst p), snd p)) ses') tail) r ->
        uconv (fun f => unmarshal E A f t (zero_of E t) (Tok (MapOpen d) tg :: ts ++ tail)) r.
  Proof.
    intros Hml Hs Hdes Hok Hre Hd Hnd Hinj.
    destruct (accept_all E A lax Hwf) as (_ & _ & _ & Hacc & _).
    destruct (Hacc vt ses ts Hre Hok) as (ses' & Hf2 & Hue).
    exists ses'. split; [exact Hf2|]. intros tail r Hk.
    assert (Hnp : forall t', t <> GPtr t') by (intros t' ->; discriminate Hs).
    eapply uconv_S; [intros f; rewrite unmarshal_S, (peel_nonptr t Hnp); reflexivity|].
    eapply uconv_S; [intros f; reflexivity|].
    eapply uconv_S; [intros f; apply (ubare_map E A Hwf t kt vt _ _ _ Hml Hs)|].
    eapply uconv_S.
    { intros f. rewrite unmarshal_map_S, Hdes. cbn [app]. cbv zeta.
      replace (match zero_of E t with GVMap (Some es0) => es0 | _ => [] end) with (@nil (gval * gval)); [reflexivity|].
      pose proof (mblank_zero E 50 t) as Hb. rewrite zero_of_unf.
      destruct (zero 50 E t); try reflexivity. destruct o; [discriminate Hb | reflexivity]. }
    apply (Hue destr kf [] tail r Hd Hnd); [intros p q _ [] | exact Hinj | exact Hk].
  Qed.

  (* a repeated key: rejected at the second occurrence of the key.  The keys of the prefix are the
     strings of key values of the domain (for a string kind: any strings). *)
  Theorem reject_duplicate_map_key : forall t kt vt str ses ts d tg k tgk rest,
    maplike A t -> strip_named t = GMap kt vt -> map_stringer A kt = Some str ->
    (forall p, In p ses -> exists kv, str kv = Some (fst p) /\ key_dom A kt kv = true) ->
    Forall (fun p => okd E A vt (snd p)) ses -> rentries E A lax vt ses ts -> NoDup (map fst ses) ->
    In k (map fst ses) ->
    exists F, forall f, (F <= f)%nat ->
      unmarshal E A f t (zero 50 E t) (Tok (MapOpen d) tg :: ts ++ Tok (Str k) tgk :: rest) = UErr (S (length rest)).
  Proof.
    intros t kt vt str ses ts d tg k tgk rest Hml Hs Hstr Hkeysok Hok Hre Hnd Hin.
    destruct (stringer_facts E A kt str Hwf Hstr) as (destr & Hdes & Hfw & Hbw).
    set (kf := fun s : bytes => match destr s with Some kv => kv | None => VBadV end).
    assert (Hk0 : forall p, In p ses -> destr (fst p) = Some (kf (fst p)) /\ gval_key_eqb (kf (fst p)) (kf (fst p)) = true).
    { intros p Hp. destruct (Hkeysok p Hp) as (kv & Hkv & Hkd). destruct (Hfw kv (fst p) Hkd Hkv) as [Hd Hq].
      unfold kf. rewrite Hd. auto. }
    destruct (map_prefix t kt vt destr kf ses ts d tg Hml Hs Hdes Hok Hre) as (ses' & Hf2 & Hp).
    - intros p Hp. apply Hk0. exact Hp.
    - exact Hnd.
    - intros p q Hp Hq Hne. destruct (gval_key_eqb (kf (fst q)) (kf (fst p))) eqn:Hqq; [|reflexivity].
      apply gval_key_eqb_eq in Hqq. exfalso. apply Hne.
      destruct (Hk0 p Hp) as [Hdp _]. destruct (Hk0 q Hq) as [Hdq _].
      apply Hbw in Hdp. apply Hbw in Hdq. congruence.
    - rewrite <- zero_of_unf. apply Hp. apply (uconv_from _ _ 1). intros f. cbn [Nat.add].
      rewrite unmarshal_map_entries_S.
      assert (Hkeys : map fst ses' = map fst ses).
      { clear -Hf2. induction Hf2 as [|p p' l l' (Hq & _) _ IH]; [reflexivity|]. cbn. rewrite IH, Hq. reflexivity. }
      apply in_map_iff in Hin. destruct Hin as (p0 & <- & Hp0). destruct (Hk0 p0 Hp0) as [Hd0 Hq0]. rewrite Hd0.
      assert (Hex : existsb (fun p : gval * gval => gval_key_eqb (fst p) (kf (fst p0)))
                            (map (fun p : bytes * gval => (kf (fst p), snd p)) ses') = true).
      { assert (Hin' : In (fst p0) (map fst ses')) by (rewrite Hkeys; apply in_map; exact Hp0).
        apply in_map_iff in Hin'. destruct Hin' as (p' & Hq' & Hp').
        apply existsb_exists. exists (kf (fst p'), snd p'). split; [apply in_map_iff; exists p'; auto|].
        cbn [fst]. rewrite Hq'. exact Hq0. }
      rewrite Hex. reflexivity.
  Qed.

  (* for key types of string kind: any strings *)
  Corollary reject_duplicate_string_key : forall t kt vt ses ts d tg k tgk rest,
    maplike A t -> strip_named t = GMap kt vt -> is_string_kind kt = true ->
    Forall (fun p => okd E A vt (snd p)) ses -> rentries E A lax vt ses ts -> NoDup (map fst ses) ->
    In k (map fst ses) ->
    exists F, forall f, (F <= f)%nat ->
      unmarshal E A f t (zero 50 E t) (Tok (MapOpen d) tg :: ts ++ Tok (Str k) tgk :: rest) = UErr (S (length rest)).
  Proof.
    intros t kt vt ses ts d tg k tgk rest Hml Hs Hsk Hok Hre Hnd Hin.
    apply (reject_duplicate_map_key t kt vt str_stringer ses ts d tg k tgk rest Hml Hs); try assumption.
    - unfold map_stringer. rewrite Hsk. reflexivity.
    - intros p _. exists (GVStr (fst p)). split; [reflexivity|]. unfold key_dom. rewrite Hsk. reflexivity.
  Qed.

  (* ---------- keyed unions ------------------------------------------------------------------------ *)

  Theorem reject_union_unknown_member : forall t e members len tg1 name tg2 rest cur,
    atlas_get A t = Some e -> ae_kind e = EUnion members -> (len = -1 \/ len = 1) ->
    find (fun m => bytes_eqb (fst m) name) members = None ->
    forall f, unmarshal E A (3 + f) t cur (Tok (MapOpen len) tg1 :: Tok (Str name) tg2 :: rest) = UErr (S (length rest)).
  Proof.
    intros t e members len tg1 name tg2 rest cur Hg Hkd Hlen Hfind f. cbn [Nat.add].
    rewrite (unmarshal_entry_top t e _ _ _ Hg), unmarshal_entry_S, Hkd.
    replace ((len =? -1) || (len =? 1)) with true by (clear -Hlen; lia). rewrite Hfind. reflexivity.
  Qed.

  (* a second entry (anything but the MapClose) after the member's value *)
  Theorem reject_union_extra_entry : forall t e members name mt mv len tg1 tg2 ts tk tgk rest cur,
    atlas_get A t = Some e -> ae_kind e = EUnion members -> In (name, mt) members -> (len = -1 \/ len = 1) ->
    okd E A mt mv -> rbare E A lax mt mv ts -> tk <> MapClose ->
    exists F, forall f, (F <= f)%nat ->
      unmarshal E A f t cur (Tok (MapOpen len) tg1 :: Tok (Str name) tg2 :: ts ++ Tok tk tgk :: rest) = UErr (S (length rest)).
  Proof.
    intros t e members name mt mv len tg1 tg2 ts tk tgk rest cur Hg Hkd Hin Hlen Hokm Hrb Hnc.
    destruct (atlas_wf_entry E A t e Hwf Hg) as [He Het].
    destruct (entry_wf_union E A e members He Hkd) as (_ & Hnd & Hmw).
    rewrite forallb_forall in Hmw. specialize (Hmw _ Hin). unfold member_wf in Hmw. cbn [snd] in Hmw.
    destruct (atlas_get A mt) as [me|] eqn:Hgm; [|discriminate Hmw].
    destruct (accept_all E A lax Hwf) as (_ & Hacc & _).
    destruct (Hacc mt mv ts Hrb Hokm) as (mv' & _ & _ & Hu).
    eapply uconv_S; [intros f; reflexivity|]. eapply uconv_S; [intros f; apply (unmarshal_entry_top t e _ _ _ Hg)|].
    eapply uconv_S.
    - intros f. rewrite unmarshal_entry_S, Hkd. cbn [app].
      replace ((len =? -1) || (len =? 1)) with true by (clear -Hlen; lia).
      rewrite (find_member_name members name mt Hnd Hin), Hgm. reflexivity.
    - apply (uconv_bind _ (fun _ mv0 r3 => match r3 with
                                           | [] => UStarved
                                           | Tok MapClose _ :: r4 => UOk (VAny (Some (mt, mv0))) r4
                                           | _ => UErr (length r3)
                                           end) mv' (Tok tk tgk :: rest)).
      + eapply uconv_pred; [|apply (Hu (Tok tk tgk :: rest))]. intros f. apply (ubare_entry E A Hwf mt me _ _ _ Hgm).
      + destruct tk; try apply uconv_const. contradiction.
  Qed.
End Reject.
Print Assumptions reject_unknown_field.
Print Assumptions reject_length_mismatch.
Print Assumptions struct_duplicate_key_last_wins.
Print Assumptions reject_array_overflow.
Print Assumptions array_short_padded.
Print Assumptions reject_duplicate_map_key.
Print Assumptions reject_duplicate_string_key.
Print Assumptions reject_union_unknown_member.
Print Assumptions reject_union_extra_entry.

(* ---------- tags on typed targets ------------------------------------------------------------- *)
(* A tag on the first token of a value is ignored by every typed target EXCEPT a transform whose
   serial type is an untyped slot (kind 9): the transform drops its own tag ([untag_own]) and hands
   any other tag to the serial type's machine; an untyped slot interprets it. *)

Lemma tag_ignored_map E A f kt vt cur tk tg tg' r :
  unmarshal_map E A f kt vt cur (Tok tk tg :: r) = unmarshal_map E A f kt vt cur (Tok tk tg' :: r).
Proof.
  destruct f as [|f]; [reflexivity|]. rewrite !unmarshal_map_S.
  destruct (key_destringer A kt); destruct tk; reflexivity.
Qed.

Lemma tag_ignored_kind E A f k cur tk tg tg' r :
  k <> GAny -> (forall i, k <> GIface i) ->
  unmarshal_kind E A f k cur (Tok tk tg :: r) = unmarshal_kind E A f k cur (Tok tk tg' :: r).
Proof.
  intros Ha Hi. destruct f as [|f]; [reflexivity|]. rewrite !unmarshal_kind_S.
  destruct k; try reflexivity; try (destruct tk; reflexivity).
  - apply tag_ignored_map.
  - contradiction Ha; reflexivity.
  - exfalso. eapply Hi. reflexivity.
Qed.

Lemma tag_ignored_entry E A f e cur tk tg tg' r :
  match ae_kind e with ETransform _ _ => False | _ => True end ->
  unmarshal_entry E A f e cur (Tok tk tg :: r) = unmarshal_entry E A f e cur (Tok tk tg' :: r).
Proof.
  intros Hk. destruct f as [|f]; [reflexivity|]. rewrite !unmarshal_entry_S.
  destruct (ae_kind e); try contradiction.
  - destruct tk; reflexivity.
  - destruct tk; reflexivity.
  - destruct (strip_named (ae_type e)); try reflexivity. apply tag_ignored_map.
Qed.

(* typed targets: behind the pointers an unnamed primitive, a type with a struct-map, union or
   map-morphism entry, or a type without entry that is not an interface *)
Definition typed_target (A : atlas) (t : gtype) : bool :=
  let base := snd (peel t) in
  is_unnamed_prim base ||
  match atlas_get A base with
  | Some e => match ae_kind e with ETransform _ _ => false | _ => true end
  | None => match strip_named base with GAny | GIface _ => false | _ => true end
  end.

Theorem tag_ignored_typed_target : forall E A t f cur tk tg tg' r,
  typed_target A t = true ->
  unmarshal E A f t cur (Tok tk tg :: r) = unmarshal E A f t cur (Tok tk tg' :: r).
Proof.
  intros E A t f cur tk tg tg' r Ht. unfold typed_target in Ht.
  destruct f as [|f]; [reflexivity|]. rewrite !unmarshal_S. destruct (peel t) as [n base]. cbn [snd] in Ht.
  assert (Hb : forall c, unmarshal_bare E A f base c (Tok tk tg :: r) = unmarshal_bare E A f base c (Tok tk tg' :: r)).
  { intros c. destruct f as [|f]; [reflexivity|]. rewrite !unmarshal_bare_S.
    destruct (is_unnamed_prim base); [reflexivity|]. cbn [orb] in Ht.
    destruct (atlas_get A base) as [e|].
    - apply tag_ignored_entry. destruct (ae_kind e); try exact I. discriminate Ht.
    - apply tag_ignored_kind; [intros Hc | intros i Hc]; rewrite Hc in Ht; discriminate Ht. }
  destruct n as [|n]; [apply Hb|]. destruct tk; try reflexivity; rewrite Hb; reflexivity.
Qed.
Print Assumptions tag_ignored_typed_target.

(* ====================================================================== *)
(* Part 6.  Kernel-evaluated examples; findings                              *)
(* ====================================================================== *)

(* struct 1 { S string `omitempty`; *struct 2 {N uint8} (embedded pointer); M map[string]int32;
              L []uint8 `omitempty`; X interface{} }   with an ignored key "z"; tagged 7 *)
Definition r_E : tenv := [(1, [GStr; GPtr (GStruct 2); GMap GStr (GNum I32); GSlice (GNum U8); GAny]); (2, [GNum U8])].
Definition fe_s := FE [115] [0%nat] GStr true false.
Definition fe_n := FE [110] [1%nat; 0%nat] (GNum U8) false false.
Definition fe_m := FE [109] [2%nat] (GMap GStr (GNum I32)) false false.
Definition fe_l := FE [108] [3%nat] (GSlice (GNum U8)) true false.
Definition fe_x := FE [120] [4%nat] GAny false false.
Definition fe_z := FE [122] [] GBool false true.
Definition r_fs : list field_entry := [fe_s; fe_n; fe_m; fe_l; fe_x; fe_z].
Definition r_e : atlas_entry := AE (GStruct 1) (Some 7) (EStruct r_fs).
Definition r_A : atlas := Atlas [r_e] 0.
(* S empty (omitted), the embedded pointer nil (N absent), L empty but not nil (omitted) *)
Definition r_v : gval :=
  VStruct [GVStr []; VPtr None; GVMap (Some [(GVStr [98], VNum 2); (GVStr [97], VNum 1)]); VSlice (Some []);
           VAny (Some (GNum IInt, VNum 5))].

Example r_hypotheses :
  atlas_wf r_E r_A = true /\ wtb r_E r_A (GStruct 1) r_v = true /\ domb r_E r_A (GStruct 1) r_v = true.
Proof. vm_compute. repeat split; reflexivity. Qed.

(* what the marshaller emits ... *)
Example r_marshalled :
  marshal r_A 30 (GStruct 1) r_v =
  MOk [Tok (MapOpen 2) (Some 7);
       Tok (Str [109]) None; Tok (MapOpen 2) None; Tok (Str [97]) None; Tok (Int 1) None;
                             Tok (Str [98]) None; Tok (Int 2) None; Tok MapClose None;
       Tok (Str [120]) None; Tok (Int 5) None;
       Tok MapClose None].
Proof. vm_compute. reflexivity. Qed.

(* ... and another rendering of the same value: indefinite length with a foreign tag, the ignored key
   first, the fields in another order, tags on keys, values and close tokens, a wrong declared length on
   the inner map, the integers spelled Uint *)
Definition r_ts1 : list token :=
  [Tok (MapOpen (-1)) (Some 99);
   Tok (Str [122]) None; Tok (Bool true) None;
   Tok (Str [120]) (Some 5); Tok (Uint 5) None;
   Tok (Str [109]) None; Tok (MapOpen 7) (Some 1); Tok (Str [97]) None; Tok (Uint 1) None;
                         Tok (Str [98]) None; Tok (Int 2) (Some 8); Tok MapClose (Some 3);
   Tok MapClose (Some 4)].

Ltac nonptr := let t' := fresh in let H := fresh in intros t' H; discriminate H.

Lemma r_map_rendering lax :
  renders r_E r_A lax (GMap GStr (GNum I32)) (GVMap (Some [(GVStr [98], VNum 2); (GVStr [97], VNum 1)]))
    [Tok (MapOpen 7) (Some 1); Tok (Str [97]) None; Tok (Uint 1) None; Tok (Str [98]) None; Tok (Int 2) (Some 8); Tok MapClose (Some 3)].
Proof.
  apply R_base; [nonptr|].
  apply (RB_map r_E r_A lax (GMap GStr (GNum I32)) GStr (GNum I32) _ str_stringer [([97], VNum 1); ([98], VNum 2)] 7 (Some 1) (Some 3)
           [Tok (Str [97]) None; Tok (Uint 1) None; Tok (Str [98]) None; Tok (Int 2) (Some 8)]).
  - exact I.
  - reflexivity.
  - reflexivity.
  - intros kv [<- | [<- | []]]; discriminate.
  - apply perm_swap.
  - apply (RE_cons r_E r_A lax (GNum I32) [97] (VNum 1) [([98], VNum 2)] [Tok (Uint 1) None] [Tok (Str [98]) None; Tok (Int 2) (Some 8)]).
    + apply R_base; [nonptr|]. eapply RB_uint; [reflexivity | reflexivity | lia].
    + apply (RE_cons r_E r_A lax (GNum I32) [98] (VNum 2) [] [Tok (Int 2) (Some 8)] []).
      * apply R_base; [nonptr|]. eapply RB_int; [reflexivity | reflexivity | unfold max_i64; lia].
      * apply RE_nil.
Qed.

Example ex_rendering_strict : renders r_E r_A false (GStruct 1) r_v r_ts1.
Proof.
  apply R_base; [nonptr|].
  apply (RB_struct r_E r_A false (GStruct 1) r_e r_fs r_v [fe_z; fe_x; fe_m] (-1) (Some 99) (Some 4)
           [Tok (Str [122]) None; Tok (Bool true) None;
            Tok (Str [120]) (Some 5); Tok (Uint 5) None;
            Tok (Str [109]) None; Tok (MapOpen 7) (Some 1); Tok (Str [97]) None; Tok (Uint 1) None;
                                  Tok (Str [98]) None; Tok (Int 2) (Some 8); Tok MapClose (Some 3)]).
  - reflexivity.
  - reflexivity.
  - apply (RF_ignored r_E r_A false (GStruct 1) r_fs r_v fe_z (VAny (Some (GBool, GVBool true))) [fe_x; fe_m]
             [Tok (Bool true) None] _ None); [cbn; auto 10 | reflexivity | reflexivity | reflexivity | |].
    { apply R_base; [nonptr|]. apply RB_any_native; [reflexivity | left; reflexivity | reflexivity | reflexivity |].
      apply RB_bool; reflexivity. }
    apply (RF_field r_E r_A false (GStruct 1) r_fs r_v fe_x (VAny (Some (GNum IInt, VNum 5))) [fe_m]
             [Tok (Uint 5) None] _ (Some 5)); [cbn; auto 10 | reflexivity | reflexivity | |].
    { apply R_base; [nonptr|]. apply RB_any_native; [reflexivity | left; reflexivity | reflexivity | reflexivity |].
      eapply RB_uint; [reflexivity | reflexivity | lia]. }
    apply (RF_field r_E r_A false (GStruct 1) r_fs r_v fe_m (GVMap (Some [(GVStr [98], VNum 2); (GVStr [97], VNum 1)])) []
             [Tok (MapOpen 7) (Some 1); Tok (Str [97]) None; Tok (Uint 1) None; Tok (Str [98]) None; Tok (Int 2) (Some 8); Tok MapClose (Some 3)]
             [] None); [cbn; auto 10 | reflexivity | reflexivity | apply r_map_rendering | apply RF_nil].
  - cbn. repeat constructor; cbn; intuition discriminate.
  - intros fe Hin Hp. cbn in Hin.
    repeat (destruct Hin as [<- | Hin]; [first [discriminate Hp | cbn; auto 10] |]). contradiction.
  - intros _ fe Hin Hig. cbn in Hin.
    repeat (destruct Hin as [<- | Hin]; [first [discriminate Hig | reflexivity] |]). contradiction.
  - left. lia.
Qed.

Example ex_rendering_strict_accepted :
  unmarshal r_E r_A 30 (GStruct 1) (zero 50 r_E (GStruct 1)) r_ts1 =
  UOk (VStruct [GVStr []; VPtr None; GVMap (Some [(GVStr [97], VNum 1); (GVStr [98], VNum 2)]); VSlice None;
                VAny (Some (GNum IInt, VNum 5))]) [].
Proof. vm_compute. reflexivity. Qed.

(* the omitempty fields L (an empty, non-nil slice) and S (an empty string) rendered although empty;
   definite length 5 *)
Definition r_ts2 : list token :=
  [Tok (MapOpen 5) None;
   Tok (Str [108]) None; Tok (ArrOpen 0) None; Tok ArrClose None;
   Tok (Str [122]) None; Tok (Bool true) None;
   Tok (Str [115]) None; Tok (Str []) None;
   Tok (Str [120]) (Some 5); Tok (Int 5) None;
   Tok (Str [109]) None; Tok (MapOpen (-1)) None; Tok (Str [98]) None; Tok (Int 2) None;
                         Tok (Str [97]) None; Tok (Int 1) None; Tok MapClose None;
   Tok MapClose None].

Lemma r_map_rendering2 lax :
  renders r_E r_A lax (GMap GStr (GNum I32)) (GVMap (Some [(GVStr [98], VNum 2); (GVStr [97], VNum 1)]))
    [Tok (MapOpen (-1)) None; Tok (Str [98]) None; Tok (Int 2) None; Tok (Str [97]) None; Tok (Int 1) None; Tok MapClose None].
Proof.
  apply R_base; [nonptr|].
  apply (RB_map r_E r_A lax (GMap GStr (GNum I32)) GStr (GNum I32) _ str_stringer [([98], VNum 2); ([97], VNum 1)] (-1) None None
           [Tok (Str [98]) None; Tok (Int 2) None; Tok (Str [97]) None; Tok (Int 1) None]).
  - exact I.
  - reflexivity.
  - reflexivity.
  - intros kv [<- | [<- | []]]; discriminate.
  - apply Permutation_refl.
  - apply (RE_cons r_E r_A lax (GNum I32) [98] (VNum 2) [([97], VNum 1)] [Tok (Int 2) None] [Tok (Str [97]) None; Tok (Int 1) None]).
    + apply R_base; [nonptr|]. eapply RB_int; [reflexivity | reflexivity | unfold max_i64; lia].
    + apply (RE_cons r_E r_A lax (GNum I32) [97] (VNum 1) [] [Tok (Int 1) None] []).
      * apply R_base; [nonptr|]. eapply RB_int; [reflexivity | reflexivity | unfold max_i64; lia].
      * apply RE_nil.
Qed.

Example ex_rendering_lax : renders r_E r_A true (GStruct 1) r_v r_ts2.
Proof.
  apply R_base; [nonptr|].
  apply (RB_struct r_E r_A true (GStruct 1) r_e r_fs r_v [fe_l; fe_z; fe_s; fe_x; fe_m] 5 None None
           [Tok (Str [108]) None; Tok (ArrOpen 0) None; Tok ArrClose None;
            Tok (Str [122]) None; Tok (Bool true) None;
            Tok (Str [115]) None; Tok (Str []) None;
            Tok (Str [120]) (Some 5); Tok (Int 5) None;
            Tok (Str [109]) None; Tok (MapOpen (-1)) None; Tok (Str [98]) None; Tok (Int 2) None;
                                  Tok (Str [97]) None; Tok (Int 1) None; Tok MapClose None]).
  - reflexivity.
  - reflexivity.
  - apply (RF_field r_E r_A true (GStruct 1) r_fs r_v fe_l (VSlice (Some [])) [fe_z; fe_s; fe_x; fe_m]
             [Tok (ArrOpen 0) None; Tok ArrClose None] _ None); [cbn; auto 10 | reflexivity | reflexivity | |].
    { apply R_base; [nonptr|].
      apply (RB_slice r_E r_A true (GSlice (GNum U8)) (GNum U8) [] 0 None None []); [reflexivity | reflexivity | apply RI_nil]. }
    apply (RF_ignored r_E r_A true (GStruct 1) r_fs r_v fe_z (VAny (Some (GBool, GVBool true))) [fe_s; fe_x; fe_m]
             [Tok (Bool true) None] _ None); [cbn; auto 10 | reflexivity | reflexivity | reflexivity | |].
    { apply R_base; [nonptr|]. apply RB_any_native; [reflexivity | left; reflexivity | reflexivity | reflexivity |].
      apply RB_bool; reflexivity. }
    apply (RF_field r_E r_A true (GStruct 1) r_fs r_v fe_s (GVStr []) [fe_x; fe_m]
             [Tok (Str []) None] _ None); [cbn; auto 10 | reflexivity | reflexivity | |].
    { apply R_base; [nonptr|]. apply RB_str; reflexivity. }
    apply (RF_field r_E r_A true (GStruct 1) r_fs r_v fe_x (VAny (Some (GNum IInt, VNum 5))) [fe_m]
             [Tok (Int 5) None] _ (Some 5)); [cbn; auto 10 | reflexivity | reflexivity | |].
    { apply R_base; [nonptr|]. apply RB_any_native; [reflexivity | left; reflexivity | reflexivity | reflexivity |].
      eapply RB_int; [reflexivity | reflexivity | unfold max_i64; lia]. }
    apply (RF_field r_E r_A true (GStruct 1) r_fs r_v fe_m (GVMap (Some [(GVStr [98], VNum 2); (GVStr [97], VNum 1)])) []
             [Tok (MapOpen (-1)) None; Tok (Str [98]) None; Tok (Int 2) None; Tok (Str [97]) None; Tok (Int 1) None; Tok MapClose None]
             [] None); [cbn; auto 10 | reflexivity | reflexivity | apply r_map_rendering2 | apply RF_nil].
  - cbn. repeat constructor; cbn; intuition discriminate.
  - intros fe Hin Hp. cbn in Hin.
    repeat (destruct Hin as [<- | Hin]; [first [discriminate Hp | cbn; auto 10] |]). contradiction.
  - intros Hc. discriminate Hc.
  - right. reflexivity.
Qed.

(* it is accepted; L comes back as rendered: empty but not nil *)
Example ex_rendering_lax_accepted :
  unmarshal r_E r_A 30 (GStruct 1) (zero 50 r_E (GStruct 1)) r_ts2 = UOk r_v [].
Proof. vm_compute. reflexivity. Qed.

(* REFUTATION of the requested statement for renderings that contain an empty omitempty field:
   [req] wants an omitted field blank (nil) in the value read, here it is what was rendered.
   ([req] is not even reflexive at r_v.)  Hence the flag: [unmarshal_accepts_renderings] for
   [renders _ _ false] with [req], [unmarshal_accepts_renderings_lax] for [renders _ _ true] with
   [reqx _ _ true]. *)
Example present_empty_field_req_refuted :
  atlas_wf r_E r_A = true /\ wtb r_E r_A (GStruct 1) r_v = true /\ domb r_E r_A (GStruct 1) r_v = true /\
  renders r_E r_A true (GStruct 1) r_v r_ts2 /\
  (forall f v', unmarshal r_E r_A f (GStruct 1) (zero 50 r_E (GStruct 1)) r_ts2 = UOk v' [] -> ~ req r_E r_A (GStruct 1) r_v v').
Proof.
  split; [vm_compute; reflexivity|]. split; [vm_compute; reflexivity|]. split; [vm_compute; reflexivity|].
  split; [exact ex_rendering_lax|].
  intros f v' Hu Hr.
  assert (Hv' : v' = r_v).
  { assert (H30 : unmarshal r_E r_A (max f 30) (GStruct 1) (zero 50 r_E (GStruct 1)) r_ts2 = UOk v' []).
    { eapply unmarshal_fuel_mono; [exact Hu | discriminate | lia]. }
    assert (H30' : unmarshal r_E r_A (max f 30) (GStruct 1) (zero 50 r_E (GStruct 1)) r_ts2 = UOk r_v []).
    { eapply unmarshal_fuel_mono; [exact ex_rendering_lax_accepted | discriminate | lia]. }
    congruence. }
  subst v'. unfold r_v in Hr. inversion Hr; subst.
  - discriminate.
  - match goal with H : atlas_get r_A (GStruct 1) = Some ?e, K : ae_kind ?e = EStruct ?fl, F : forall fe, In fe ?fl -> _ |- _ =>
      vm_compute in H; inversion H; subst; cbn in K; inversion K; subst;
      destruct (F fe_l ltac:(cbn; auto 10) eq_refl) as (_ & Hb & _) end.
    specialize (Hb (VSlice (Some [])) eq_refl eq_refl). unfold blank_at in Hb. vm_compute in Hb. discriminate Hb.
  - match goal with H : atlas_get r_A (GStruct 1) = Some ?e, K : ae_kind ?e = ETransform _ _ |- _ =>
      vm_compute in H; inversion H; subst; discriminate K end.
Qed.

(* ---------- findings about the description of renderings -------------------------------------- *)

(* (1) the declared length of an array or of a plain map is not looked at, at all (the description
   said: the exact count or -1).  [renders] allows any length there. *)
Example declared_length_of_arrays_and_maps_not_checked :
  unmarshal [] (Atlas [] 0) 20 (GSlice GBool) (VSlice None) [Tok (ArrOpen 7) None; Tok (Bool true) None; Tok ArrClose None]
    = UOk (VSlice (Some [GVBool true])) [] /\
  unmarshal [] (Atlas [] 0) 20 (GMap GStr GBool) (GVMap None)
    [Tok (MapOpen 0) None; Tok (Str [97]) None; Tok (Bool true) None; Tok MapClose None]
    = UOk (GVMap (Some [(GVStr [97], GVBool true)])) [].
Proof. vm_compute. split; reflexivity. Qed.

(* (2) the value of an ignored key is NOT arbitrary: it is read by an untyped slot, which rejects a tag
   without atlas entry, and reads a value with a known tag at that type.  [renders] asks for a rendering
   of some interface{} value of the domain. *)
Example ignored_key_value_must_fit_an_untyped_slot :
  unmarshal r_E r_A 30 (GStruct 1) (zero 50 r_E (GStruct 1))
    [Tok (MapOpen (-1)) None; Tok (Str [122]) None; Tok (Bool true) (Some 12345); Tok MapClose None] = UErr 2 /\
  unmarshal r_E r_A 30 (GStruct 1) (zero 50 r_E (GStruct 1))
    [Tok (MapOpen (-1)) None; Tok (Str [122]) None; Tok (Bool true) (Some 7); Tok MapClose None] = UErr 2 /\
  unmarshal r_E r_A 30 (GStruct 1) (zero 50 r_E (GStruct 1))
    [Tok (MapOpen (-1)) None; Tok (Str [122]) None; Tok (Bool true) None; Tok MapClose None]
    = UOk (zero 50 r_E (GStruct 1)) [].
Proof. vm_compute. repeat split; reflexivity. Qed.

(* (3) tags on typed targets are ignored ([tag_ignored_typed_target]) except by a transform whose serial
   type is interface{} (s4_A of RoundTripProof.v: struct 4 {V interface{}}, kind 9, tag 60): its own tag
   and no tag give the same, the tag of another entry is interpreted, an unknown tag is an error.  A
   transform with a typed serial form (struct 3, kind 3, []byte) ignores a foreign tag. *)
Example tag_into_transform_with_untyped_serial_form :
  typed_target s4_A (GStruct 4) = false /\
  unmarshal s4_E s4_A 30 (GStruct 4) (zero 50 s4_E (GStruct 4)) [Tok (Str [118]) (Some 60)]
    = UOk (VStruct [VAny (Some (GStr, GVStr [118]))]) [] /\
  unmarshal s4_E s4_A 30 (GStruct 4) (zero 50 s4_E (GStruct 4)) [Tok (Str [118]) None]
    = UOk (VStruct [VAny (Some (GStr, GVStr [118]))]) [] /\
  unmarshal s4_E s4_A 30 (GStruct 4) (zero 50 s4_E (GStruct 4)) [Tok (Str [110; 58; 118]) (Some 50)]
    = UOk (VStruct [VAny (Some (GNamed 10 GStr, GVStr [118]))]) [] /\
  unmarshal s4_E s4_A 30 (GStruct 4) (zero 50 s4_E (GStruct 4)) [Tok (Str [118]) (Some 9)] = UErr 1 /\
  unmarshal s4_E s4_A 30 (GStruct 4) (zero 50 s4_E (GStruct 4)) [Tok (Str [118]) (Some 77)] = UErr 1 /\
  unmarshal s4_E s4_A 30 (GStruct 3) (zero 50 s4_E (GStruct 3)) [Tok (Byt [1; 2]) (Some 77)]
    = UOk (VStruct [VNum 1; VNum 2]) [].
Proof. vm_compute. repeat split; reflexivity. Qed.

(* (4) null into a struct-map target gives the zero struct; behind a pointer, a nil pointer *)
Example null_into_struct_target :
  unmarshal r_E r_A 30 (GStruct 1) (zero 50 r_E (GStruct 1)) [Tok Null (Some 3)] = UOk (zero 50 r_E (GStruct 1)) [] /\
  unmarshal r_E r_A 30 (GPtr (GStruct 1)) (VPtr None) [Tok Null (Some 3)] = UOk (VPtr None) [].
Proof. vm_compute. split; reflexivity. Qed.

(* ---------- instances of the rejections ---------------------------------------------------------- *)

Example ex_reject_unknown_field :      (* after the entry x, the key "q" *)
  unmarshal r_E r_A 30 (GStruct 1) (zero 50 r_E (GStruct 1))
    [Tok (MapOpen (-1)) None; Tok (Str [120]) None; Tok (Int 5) None; Tok (Str [113]) None; Tok (Int 1) None; Tok MapClose None]
    = UErr 3.
Proof. vm_compute. reflexivity. Qed.

Example ex_reject_length_mismatch :    (* declared 2, one entry: at the MapClose *)
  unmarshal r_E r_A 30 (GStruct 1) (zero 50 r_E (GStruct 1))
    [Tok (MapOpen 2) None; Tok (Str [120]) None; Tok (Int 5) None; Tok MapClose None; Tok Null None]
    = UErr 2.
Proof. vm_compute. reflexivity. Qed.

Example ex_struct_duplicate_key :
  (* last one wins; both are counted (a definite length must say 2) *)
  unmarshal r_E r_A 30 (GStruct 1) (zero 50 r_E (GStruct 1))
    [Tok (MapOpen (-1)) None; Tok (Str [115]) None; Tok (Str [1]) None; Tok (Str [115]) None; Tok (Str [2]) None; Tok MapClose None]
    = UOk (VStruct [GVStr [2]; VPtr None; GVMap None; VSlice None; VAny None]) [] /\
  unmarshal r_E r_A 30 (GStruct 1) (zero 50 r_E (GStruct 1))
    [Tok (MapOpen 1) None; Tok (Str [115]) None; Tok (Str [1]) None; Tok (Str [115]) None; Tok (Str [2]) None; Tok MapClose None]
    = UErr 1 /\
  (* a map-typed field is unmarshalled INTO the map of the first occurrence: the entries are merged ... *)
  unmarshal r_E r_A 30 (GStruct 1) (zero 50 r_E (GStruct 1))
    [Tok (MapOpen (-1)) None;
     Tok (Str [109]) None; Tok (MapOpen (-1)) None; Tok (Str [97]) None; Tok (Int 1) None; Tok MapClose None;
     Tok (Str [109]) None; Tok (MapOpen (-1)) None; Tok (Str [98]) None; Tok (Int 2) None; Tok MapClose None;
     Tok MapClose None]
    = UOk (VStruct [GVStr []; VPtr None; GVMap (Some [(GVStr [97], VNum 1); (GVStr [98], VNum 2)]); VSlice None; VAny None]) [] /\
  (* ... and a key of the second occurrence that the first one had is a repeated key *)
  unmarshal r_E r_A 30 (GStruct 1) (zero 50 r_E (GStruct 1))
    [Tok (MapOpen (-1)) None;
     Tok (Str [109]) None; Tok (MapOpen (-1)) None; Tok (Str [97]) None; Tok (Int 1) None; Tok MapClose None;
     Tok (Str [109]) None; Tok (MapOpen (-1)) None; Tok (Str [97]) None; Tok (Int 2) None; Tok MapClose None;
     Tok MapClose None]
    = UErr 4.
Proof. vm_compute. repeat split; reflexivity. Qed.

Example ex_reject_duplicate_map_key :
  unmarshal [] (Atlas [] 0) 20 (GMap GStr GBool) (GVMap None)
    [Tok (MapOpen (-1)) None; Tok (Str [97]) None; Tok (Bool true) None; Tok (Str [98]) None; Tok (Bool true) None;
     Tok (Str [97]) None; Tok (Bool false) None; Tok MapClose None] = UErr 3.
Proof. vm_compute. reflexivity. Qed.

Example ex_reject_array_overflow_and_padding :
  unmarshal [] (Atlas [] 0) 20 (GArr 2 GBool) (zero 50 [] (GArr 2 GBool))
    [Tok (ArrOpen (-1)) None; Tok (Bool true) None; Tok (Bool true) None; Tok (Bool true) None; Tok ArrClose None] = UErr 2 /\
  unmarshal [] (Atlas [] 0) 20 (GArr 2 GBool) (zero 50 [] (GArr 2 GBool))
    [Tok (ArrOpen (-1)) None; Tok (Bool true) None; Tok ArrClose None] = UOk (GVArr [GVBool true; GVBool false]) [].
Proof. vm_compute. split; reflexivity. Qed.

Example ex_reject_wrong_token_kind :
  unmarshal [] (Atlas [] 0) 20 GStr (GVStr []) [Tok (Int 1) None] = UErr 1 /\
  unmarshal [] (Atlas [] 0) 20 (GNum U8) (VNum 0) [Tok (Int 256) None] = UErr 1 /\
  unmarshal [] (Atlas [] 0) 20 (GNum U8) (VNum 0) [Tok (Int 255) None] = UOk (VNum 255) [] /\
  unmarshal [] (Atlas [] 0) 20 (GSlice GBool) (VSlice None) [Tok (MapOpen 0) None; Tok MapClose None] = UErr 2 /\
  unmarshal r_E r_A 30 (GStruct 1) (zero 50 r_E (GStruct 1)) [Tok (ArrOpen 0) None; Tok ArrClose None] = UErr 2 /\
  unmarshal s4_E s4_A 30 (GIface 20) (VAny None) [Tok Null None] = UErr 1.
Proof. vm_compute. repeat split; reflexivity. Qed.

Example ex_reject_union :
  (* unknown member *)
  unmarshal s4_E s4_A 30 (GIface 20) (VAny None)
    [Tok (MapOpen 1) None; Tok (Str [113]) None; Tok (Byt [1; 2]) None; Tok MapClose None] = UErr 3 /\
  (* a second entry *)
  unmarshal s4_E s4_A 30 (GIface 20) (VAny None)
    [Tok (MapOpen (-1)) None; Tok (Str [112]) None; Tok (Byt [1; 2]) None; Tok (Str [115]) None; Tok Null None; Tok MapClose None]
    = UErr 3 /\
  (* a declared length other than -1 and 1 *)
  unmarshal s4_E s4_A 30 (GIface 20) (VAny None)
    [Tok (MapOpen 2) None; Tok (Str [112]) None; Tok (Byt [1; 2]) None; Tok MapClose None] = UErr 4 /\
  (* the two accepted forms *)
  unmarshal s4_E s4_A 30 (GIface 20) (VAny None)
    [Tok (MapOpen (-1)) (Some 1); Tok (Str [112]) (Some 2); Tok (Byt [1; 2]) (Some 3); Tok MapClose (Some 4)]
    = UOk (VAny (Some (GStruct 3, VStruct [VNum 1; VNum 2]))) [].
Proof. vm_compute. repeat split; reflexivity. Qed.

(* ---------- the general rejection theorems instantiated (their hypotheses are satisfiable) ------ *)

Example reject_unknown_field_instance : forall rest,
  exists F, forall f, (F <= f)%nat ->
    unmarshal r_E r_A f (GStruct 1) (zero 50 r_E (GStruct 1))
      (Tok (MapOpen (-1)) None :: [Tok (Str [120]) None; Tok (Int 5) None] ++ Tok (Str [113]) None :: rest)
    = UErr (S (length rest)).
Proof.
  intros rest.
  apply (reject_unknown_field r_E r_A false eq_refl (GStruct 1) r_e r_fs r_v [fe_x]); try reflexivity.
  - apply (RF_field r_E r_A false (GStruct 1) r_fs r_v fe_x (VAny (Some (GNum IInt, VNum 5))) []
             [Tok (Int 5) None] [] None); [cbn; auto 10 | reflexivity | reflexivity | | apply RF_nil].
    apply R_base; [nonptr|]. apply RB_any_native; [reflexivity | left; reflexivity | reflexivity | reflexivity |].
    eapply RB_int; [reflexivity | reflexivity | unfold max_i64; lia].
  - cbn. repeat constructor. intros [].
Qed.

Example reject_duplicate_map_key_instance : forall rest,
  exists F, forall f, (F <= f)%nat ->
    unmarshal [] (Atlas [] 0) f (GMap GStr GBool) (zero 50 [] (GMap GStr GBool))
      (Tok (MapOpen (-1)) None :: [Tok (Str [97]) None; Tok (Bool true) None] ++ Tok (Str [97]) None :: rest)
    = UErr (S (length rest)).
Proof.
  intros rest.
  apply (reject_duplicate_string_key [] (Atlas [] 0) false eq_refl (GMap GStr GBool) GStr GBool [([97], GVBool true)]); try reflexivity.
  - repeat constructor.
  - apply (RE_cons [] (Atlas [] 0) false GBool [97] (GVBool true) [] [Tok (Bool true) None] [] None); [|apply RE_nil].
    apply R_base; [nonptr|]. apply RB_bool; reflexivity.
  - cbn. repeat constructor. intros [].
  - left. reflexivity.
Qed.

Example reject_array_overflow_instance : forall rest,
  exists F, forall f, (F <= f)%nat ->
    unmarshal [] (Atlas [] 0) f (GArr 1 GBool) (zero 50 [] (GArr 1 GBool))
      (Tok (ArrOpen 1) None :: [Tok (Bool true) None] ++ Tok (Bool false) None :: rest)
    = UErr (S (length rest)).
Proof.
  intros rest.
  apply (reject_array_overflow [] (Atlas [] 0) false eq_refl (GArr 1 GBool) 1%nat GBool [GVBool true]); try reflexivity.
  - repeat constructor.
  - apply (RI_cons [] (Atlas [] 0) false GBool (GVBool true) [] [Tok (Bool true) None] []); [|apply RI_nil].
    apply R_base; [nonptr|]. apply RB_bool; reflexivity.
  - discriminate.
Qed.

(* a repeated key of a transformed key type (struct 2 of s4_A, kind 6, "a:" <-> {a, ""}) *)
Example ex_reject_duplicate_transformed_key :
  unmarshal s4_E s4_A 30 (GMap (GStruct 2) (GNum IInt)) (GVMap None)
    [Tok (MapOpen (-1)) None; Tok (Str [97; 58]) None; Tok (Int 1) None; Tok (Str [97; 58]) None; Tok (Int 2) None; Tok MapClose None]
  = UErr 3.
Proof. vm_compute. reflexivity. Qed.

(* Null is a rendering of the zero struct at a struct-map target (constructor RB_struct_null) *)
Example ex_null_rendering_of_zero_struct :
  renders r_E r_A false (GStruct 1) (zero 50 r_E (GStruct 1)) [Tok Null (Some 3)].
Proof.
  apply R_base; [nonptr|].
  apply (RB_struct_null r_E r_A false (GStruct 1) r_e r_fs); [reflexivity | reflexivity |].
  replace (zero_of r_E (GStruct 1)) with (VStruct [GVStr []; VPtr None; GVMap None; VSlice None; VAny None])
    by (vm_compute; reflexivity).
  change (zero 50 r_E (GStruct 1)) with (VStruct [GVStr []; VPtr None; GVMap None; VSlice None; VAny None]).
  apply (rx_struct r_E r_A false (GStruct 1) r_e r_fs); [reflexivity | reflexivity |].
  intros fe Hin Hig. cbn in Hin.
  repeat (destruct Hin as [<- | Hin];
          [first [discriminate Hig |
                  split; [|split];
                  [ intros fv Hfv Hoe; vm_compute in Hfv;
                    first [discriminate Hfv |
                           inversion Hfv; subst;
                           first [discriminate Hoe | eexists; split; [vm_compute; reflexivity | apply rx_atom; reflexivity]]]
                  | intros fv Hfv Hoe; left; unfold blank_at; vm_compute; first [exact I | reflexivity]
                  | intros _; unfold blank_at; vm_compute; first [exact I | reflexivity] ]] |]).
  contradiction.
Qed.

(* the stage-4 example of RoundTripProof.v (transforms, a keyed union, a map morphism, tagged values
   in untyped slots): what the marshaller emits is a rendering, by [marshal_renders] *)
Example s4_marshalled_is_a_rendering : renders s4_E s4_A false (GStruct 1) s4_v s4_ts.
Proof.
  destruct s4_hypotheses as (Hwf & _ & Hw & Hd & _). destruct s4_conclusion as (Hm & _).
  exact (marshal_renders s4_E s4_A (GStruct 1) s4_v 40 s4_ts Hwf Hw Hd Hm).
Qed.
