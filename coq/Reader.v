(* Reader.v — model of shared.readerToScanner and shared.SlickReaderStream
   (shared/reader.go) over an io.Reader that delivers its data according to an
   arbitrary *read schedule*: chunk sizes, end-of-file reported together with
   the last data or separately, zero-length reads (anywhere: also after the
   last byte, the end of input being reported by a later Read), and faults.  The abstract
   stream the decoders are written against is a plain byte list.
   Behaviour modelled is the one after fix D9: ReadByte retries a (0, nil)
   read (at most [max_empty] times, then io.ErrNoProgress). *)
From Coq Require Import List ZArith Bool Lia.
Require Import Tok CborDec.
Import ListNotations.
Open Scope Z_scope.

(* ---------- the underlying io.Reader ---------------------------------------- *)

Inductive rerr := REof | RUnexpectedEof | RNoProgress | RFault.

(* one scheduled Read outcome *)
Inductive sched_entry :=
| SChunk (n : nat) (eof_with_data : bool)   (* deliver up to n bytes (0 = a (0,nil) read); report EOF together with the last data? *)
| SFault.                                   (* this Read fails with the injected error (no data) *)

Record source := Src { sdata : bytes ; ssched : list sched_entry }.

(* Read(p) with len p = k > 0: bytes delivered, error, new source *)
Definition src_read (s : source) (k : nat) : bytes * option rerr * source :=
  match sdata s with
  | [] =>
      match ssched s with
      | SFault :: rest => ([], Some RFault, Src [] rest)
      | SChunk O _ :: rest => ([], None, Src [] rest)   (* a (0, nil) read even here: the end is reported by a later Read *)
      | _ :: rest => ([], Some REof, Src [] rest)
      | [] => ([], Some REof, s)
      end
  | _ =>
      match ssched s with
      | [] => (firstn k (sdata s), None, Src (skipn k (sdata s)) [])
      | SFault :: rest => ([], Some RFault, Src (sdata s) rest)
      | SChunk n ewd :: rest =>
          let m := Nat.min n k in
          let out := firstn m (sdata s) in
          let left := skipn m (sdata s) in
          (out, (match left with [] => if ewd && negb (Nat.eqb m 0) then Some REof else None | _ => None end),
           Src left rest)
      end
  end.

(* ---------- readerToScanner -------------------------------------------------- *)

Record rts := RTS { rl : Z ; rls : Z ; rsrc : source }.   (* last byte, status 0/1/2, the reader *)

Definition last_or (d : Z) (l : bytes) : Z := last l d.

(* Read(p), len p = k > 0 *)
Definition rts_read (z : rts) (k : nat) : bytes * option rerr * rts :=
  if rls z =? 1 then
    if Nat.eqb k 1 then ([rl z], None, RTS (rl z) 2 (rsrc z))
    else
      let '(out, err, s') := src_read (rsrc z) (k - 1) in
      match out with
      | [] => ([rl z], err, RTS (rl z) 2 s')
      | _ =>
          let err' := match err with Some REof => if Nat.eqb (length out) (k - 1) then None else err | e => e end in
          (rl z :: out, err', RTS (last_or 0 out) 2 s')
      end
  else
    let '(out, err, s') := src_read (rsrc z) k in
    match out with
    | [] => ([], err, RTS (rl z) (rls z) s')
    | _ =>
        let err' := match err with Some REof => if Nat.eqb (length out) k then None else err | e => e end in
        (out, err', RTS (last_or 0 out) 2 s')
    end.

Definition max_empty : nat := 100.

(* ReadByte (fixed): retry empty reads *)
Fixpoint rts_readbyte (fuel : nat) (z : rts) : (Z + rerr) * rts :=
  match fuel with
  | O => (inr RNoProgress, z)
  | S f =>
    let '(out, err, z') := rts_read z 1 in
    match out with
    | c :: _ => (inl c, z')                 (* a byte: a simultaneous EOF is postponed *)
    | [] =>
        match err with
        | Some e => (inr e, z')
        | None => rts_readbyte f z'
        end
    end
  end.

Definition rts_unread (z : rts) : option rts :=
  if rls z =? 2 then Some (RTS (rl z) 1 (rsrc z)) else None.     (* None = the Go code panics *)

(* io.ReadAtLeast(z, buf, min = len buf = k): loop until k bytes or an error *)
Fixpoint read_at_least (fuel : nat) (z : rts) (k : nat) (got : bytes) : bytes * option rerr * rts :=
  match fuel with
  | O => (got, Some RNoProgress, z)     (* only reachable with an unbounded run of empty reads *)
  | S f =>
    if Nat.leb k (length got) then (got, None, z)
    else
      let '(out, err, z') := rts_read z (k - length got) in
      let got' := got ++ out in
      match err with
      | None => read_at_least f z' k got'
      | Some e =>
          if Nat.leb k (length got') then (got', None, z')
          else (got', Some (match e, got' with REof, _ :: _ => RUnexpectedEof | _, _ => e end), z')
      end
  end.

(* ---------- SlickReaderStream ------------------------------------------------- *)

Record slick := Slick { sz : rts ; snum : Z ; strack : bytes ; stracking : bool }.

Definition slick_init (data : bytes) (sched : list sched_entry) : slick :=
  Slick (RTS 0 0 (Src data sched)) 0 [] false.

Definition slick_readn1 (s : slick) : (Z + rerr) * slick :=
  match rts_readbyte max_empty (sz s) with
  | (inl c, z') => (inl c, Slick z' (snum s + 1) (if stracking s then strack s ++ [c] else strack s) (stracking s))
  | (inr e, z') => (inr e, Slick z' (snum s) (strack s) (stracking s))
  end.

(* Readb / Readn / Readnzc of k bytes; [fuel] bounds the number of Read calls *)
Definition slick_readb (fuel : nat) (s : slick) (k : nat) : (bytes + rerr) * slick :=
  match k with
  | O => (inl [], s)
  | _ =>
    let '(got, err, z') := read_at_least fuel (sz s) k [] in
    let s' := Slick z' (snum s + Z.of_nat (length got)) (if stracking s then strack s ++ got else strack s) (stracking s) in
    match err with None => (inl got, s') | Some e => (inr e, s') end
  end.

Definition slick_unreadn1 (s : slick) : option slick :=
  match rts_unread (sz s) with
  | None => None
  | Some z' => Some (Slick z' (snum s - 1) (if stracking s then removelast (strack s) else strack s) (stracking s))
  end.

Definition slick_track (s : slick) : slick := Slick (sz s) (snum s) [] true.
Definition slick_stoptrack (s : slick) : bytes * slick := (strack s, Slick (sz s) (snum s) (strack s) false).

(* ---------- operation sequences (what the correspondence check runs) --------- *)

Inductive rop := OpRead1 | OpReadb (k : nat) | OpUnread | OpTrack | OpStopTrack.

Inductive rout :=
| OByte (b : Z) | OBytes (bs : bytes) | OErr (e : rerr) | OUnit | OPanic.

(* run ops until the first error (decoders stop there) *)
Fixpoint run_ops (s : slick) (ops : list rop) : list rout * slick :=
  match ops with
  | [] => ([], s)
  | op :: rest =>
    match op with
    | OpRead1 =>
        match slick_readn1 s with
        | (inl c, s') => let '(o, s2) := run_ops s' rest in (OByte c :: o, s2)
        | (inr e, s') => ([OErr e], s')
        end
    | OpReadb k =>
        match slick_readb (S (length (ssched (rsrc (sz s)))) + k + 2) s k with
        | (inl bs, s') => let '(o, s2) := run_ops s' rest in (OBytes bs :: o, s2)
        | (inr e, s') => ([OErr e], s')
        end
    | OpUnread =>
        match slick_unreadn1 s with
        | Some s' => let '(o, s2) := run_ops s' rest in (OUnit :: o, s2)
        | None => ([OPanic], s)
        end
    | OpTrack => let '(o, s2) := run_ops (slick_track s) rest in (OUnit :: o, s2)
    | OpStopTrack =>
        let '(t, s') := slick_stoptrack s in
        let '(o, s2) := run_ops s' rest in (OBytes t :: o, s2)
    end
  end.

(* ---------- the abstract stream ----------------------------------------------- *)

(* state: remaining bytes, the byte that may be unread, count, tracking *)
Record astream := AStr { arest : bytes ; alast : option Z ; anum : Z ; atrack : bytes ; atracking : bool }.

Definition astream_init (data : bytes) : astream := AStr data None 0 [] false.

Fixpoint run_ops_abs (s : astream) (ops : list rop) : list rout * astream :=
  match ops with
  | [] => ([], s)
  | op :: rest =>
    match op with
    | OpRead1 =>
        match arest s with
        | [] => ([OErr REof], s)
        | c :: r =>
            let '(o, s2) := run_ops_abs (AStr r (Some c) (anum s + 1) (if atracking s then atrack s ++ [c] else atrack s) (atracking s)) rest in
            (OByte c :: o, s2)
        end
    | OpReadb k =>
        match k with
        | O => let '(o, s2) := run_ops_abs s rest in (OBytes [] :: o, s2)
        | _ =>
          if Nat.leb k (length (arest s)) then
            let got := firstn k (arest s) in
            let '(o, s2) := run_ops_abs (AStr (skipn k (arest s)) (Some (last got 0)) (anum s + Z.of_nat k)
                                              (if atracking s then atrack s ++ got else atrack s) (atracking s)) rest in
            (OBytes got :: o, s2)
          else ([OErr (match arest s with [] => REof | _ => RUnexpectedEof end)],
                AStr [] None (anum s + Z.of_nat (length (arest s)))
                     (if atracking s then atrack s ++ arest s else atrack s) (atracking s))
        end
    | OpUnread =>
        match alast s with
        | None => ([OPanic], s)
        | Some c =>
            let '(o, s2) := run_ops_abs (AStr (c :: arest s) None (anum s - 1)
                                              (if atracking s then removelast (atrack s) else atrack s) (atracking s)) rest in
            (OUnit :: o, s2)
        end
    | OpTrack => let '(o, s2) := run_ops_abs (AStr (arest s) (alast s) (anum s) [] true) rest in (OUnit :: o, s2)
    | OpStopTrack =>
        let '(o, s2) := run_ops_abs (AStr (arest s) (alast s) (anum s) (atrack s) false) rest in
        (OBytes (atrack s) :: o, s2)
    end
  end.
