(* Properties_C02.v — C02: CBOR encoding of token streams is lossless and in
   RFC 7049 shortest form.  Statements only; proofs are in CborEncProof.v /
   CborDecProof.v. *)
From Coq Require Import List ZArith.
Require Import Tok CborSpec CborEnc CborEncProof.
Import ListNotations.
Open Scope Z_scope.

(* Every in-domain value tree is accepted, completion is signalled exactly on
   the last token (enc_run stops at the first done/error, and [used] is the
   whole length), and the bytes written are the RFC 7049 reference encoding. *)
Theorem C02_encoder_writes_rfc7049 : forall n : tnode, enc_ok n ->
  exists chunks, enc_tokens (flatten n) = Finished chunks (length (flatten n))
                 /\ concat chunks = rfc_enc n.
Proof. exact cbor_encode_spec. Qed.
Print Assumptions C02_encoder_writes_rfc7049.

(* Every head the reference encoding uses is a well-formed head denoting the
   value, and no shorter head denotes it. *)
Theorem C02_heads_shortest : forall m v, 0 <= v < 2^64 -> HeadShortest m v (head m v).
Proof. exact head_shortest. Qed.
Print Assumptions C02_heads_shortest.

(* Non-vacuity: a tagged indefinite map holding 2^64-1, -2^63, a NaN and a
   nested definite array is in the domain, and the model really produces the
   bytes (evaluated by the kernel). *)
Definition c02_example : tnode :=
  Node (Some 9223372036854775807)
       (VMap (-1) [ (Node None (VStr [107]), Node None (VUint 18446744073709551615));
                    (Node None (VInt (-9223372036854775808)), Node (Some 0) (VFlt 9221120237041090561));
                    (Node None (VUint 24), Node None (VArr 2 [Node None VNull; Node None (VByt [0; 255])])) ]).
Example C02_example_in_domain : enc_ok c02_example.
Proof. unfold c02_example; simpl; unfold tag_ok, CborSpec.two63, CborSpec.two64; repeat split; try lia; exact I. Qed.
Example C02_example_bytes :
  match enc_tokens (flatten c02_example) with
  | Finished chunks used => concat chunks = rfc_enc c02_example /\ used = 11%nat
  | _ => False
  end.
Proof. vm_compute. split; reflexivity. Qed.

(* ---------- the decoding half -------------------------------------------- *)
Require Import CborDec CborParse CborDecProof CborRoundtrip.

(* Decoding the reference encoding yields the same tokens again — a
   non-negative Int comes back as Uint and an indefinite Length as -1
   ([canon]) — and consumes exactly those bytes, whatever follows them.
   Side conditions: declared lengths are exact (len_ok) and strings respect the
   decoder's 32 MiB per-item cap (rt_ok). *)
Theorem C02_roundtrip : forall n c rest, enc_ok n -> len_ok n -> rt_ok n ->
  exists a, dec_run c (rfc_enc n ++ rest) = DOk (flatten (canon n)) rest a.
Proof.
  intros n c rest H1 H2 H3.
  destruct (parse_rfc_enc_canon n c rest H1 H2 H3) as [fuel Hp].
  exact (dec_complete fuel c _ _ _ Hp).
Qed.
Print Assumptions C02_roundtrip.

Example C02_example_roundtrip :
  match dec_run false (rfc_enc c02_example ++ [1;2;3]) with
  | DOk toks rest _ => toks = flatten (canon c02_example) /\ rest = [1;2;3]
  | _ => False
  end.
Proof. vm_compute. split; reflexivity. Qed.
