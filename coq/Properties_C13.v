(* Properties_C13.v — C13: the object unmarshaller accepts exactly the token
   streams that fit the target.  Statements only; proofs in ObjProof.v (more
   are added as they land: acceptance of all renderings is the token
   round-trip theorem of C01). *)
From Coq Require Import List ZArith.
Require Import Tok TokGrammar TokGrammarProof GoVal Marshal Unmarshal ObjProof.
Import ListNotations.
Open Scope Z_scope.

(* The model has no panic outcome: every partial Go operation (Set on an
   unassignable value, index out of range, SetBytes on an array ...) is an
   explicit UErr.  Completion is signalled only when the tokens consumed form
   exactly one complete value. *)
Theorem C13_done_only_on_complete_value : forall E A f t cur ts v rest,
  unmarshal E A f t cur ts = UOk v rest ->
  exists used n, ts = used ++ rest /\ used <> [] /\ map norm_tok used = flatten n.
Proof. exact unmarshal_done_wf. Qed.
Print Assumptions C13_done_only_on_complete_value.

(* An error is attributed to one of the tokens given. *)
Theorem C13_error_position : forall E A f t cur ts k,
  unmarshal E A f t cur ts = UErr k -> (1 <= k <= length ts)%nat.
Proof. exact unmarshal_err_position. Qed.

(* The verdict depends only on the tokens up to completion / the offending token. *)
Theorem C13_frame_ok : forall E A f t cur ts v rest x,
  unmarshal E A f t cur ts = UOk v rest -> unmarshal E A f t cur (ts ++ x) = UOk v (rest ++ x).
Proof. exact unmarshal_frame_ok. Qed.
Theorem C13_frame_err : forall E A f t cur ts k x,
  unmarshal E A f t cur ts = UErr k -> unmarshal E A f t cur (ts ++ x) = UErr (k + length x).
Proof. exact unmarshal_frame_err. Qed.
Print Assumptions C13_frame_err.

(* documented rejections, evaluated by the kernel on a struct target *)
Definition c13_A := Atlas [AE (GStruct 100) None (EStruct [FE [107] [0%nat] GStr false false])] 0.
Definition c13_E : tenv := [(100, [GStr])].
Example C13_unknown_field_rejected :
  unmarshal_top c13_E c13_A (GStruct 100) [Tok (MapOpen (-1)) None; Tok (Str [120]) None; Tok (Str []) None; Tok MapClose None] = UTErr 2.
Proof. vm_compute. reflexivity. Qed.
Example C13_length_mismatch_rejected :
  unmarshal_top c13_E c13_A (GStruct 100) [Tok (MapOpen 2) None; Tok (Str [107]) None; Tok (Str []) None; Tok MapClose None] = UTErr 4.
Proof. vm_compute. reflexivity. Qed.
Example C13_duplicate_map_key_rejected :
  unmarshal_top [] (Atlas [] 0) (GMap GStr GBool)
    [Tok (MapOpen (-1)) None; Tok (Str [97]) None; Tok (Bool true) None; Tok (Str [97]) None; Tok (Bool true) None; Tok MapClose None] = UTErr 4.
Proof. vm_compute. reflexivity. Qed.
Example C13_array_overflow_rejected :
  unmarshal_top [] (Atlas [] 0) (GArr 1 GBool) [Tok (ArrOpen (-1)) None; Tok (Bool true) None; Tok (Bool true) None; Tok ArrClose None] = UTErr 3.
Proof. vm_compute. reflexivity. Qed.
