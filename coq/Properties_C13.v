(* Properties_C13.v — C13: the object unmarshaller accepts exactly the token
   streams that fit the target.  Statements only; proofs in ObjProof.v (completion, error
   position, framing) and RenderProof.v (acceptance of every rendering, the
   documented rejections). *)
From Coq Require Import List ZArith.
Require Import Tok TokGrammar TokGrammarProof GoVal Marshal Unmarshal ObjProof RoundTripProof RenderProof.
Import ListNotations.
Open Scope Z_scope.

(* The model has no panic outcome: every partial Go operation (Set on an
   unassignable value, index out of range, SetBytes on an array ...) is an
   explicit UErr.  Completion is signalled only when the tokens consumed form
   exactly one complete value. *)
Theorem C13_done_only_on_complete_value : forall E A f t cur ts v rest,
  unmarshal E A f t cur ts = UOk v rest ->
  exists used n, ts = used ++ rest /\ used <> [] /\ map norm_tok used = flatten n.
Proof. exact unmarshal_done_wf. Qed.
Print Assumptions C13_done_only_on_complete_value.

(* An error is attributed to one of the tokens given. *)
Theorem C13_error_position : forall E A f t cur ts k,
  unmarshal E A f t cur ts = UErr k -> (1 <= k <= length ts)%nat.
Proof. exact unmarshal_err_position. Qed.

(* The verdict depends only on the tokens up to completion / the offending token. *)
Theorem C13_frame_ok : forall E A f t cur ts v rest x,
  unmarshal E A f t cur ts = UOk v rest -> unmarshal E A f t cur (ts ++ x) = UOk v (rest ++ x).
Proof. exact unmarshal_frame_ok. Qed.
Theorem C13_frame_err : forall E A f t cur ts k x,
  unmarshal E A f t cur ts = UErr k -> unmarshal E A f t cur (ts ++ x) = UErr (k + length x).
Proof. exact unmarshal_frame_err. Qed.
Print Assumptions C13_frame_err.

(* ---------- acceptance: EVERY rendering of a value that fits the target ------------------------------
   [renders E A lax t v ts] (RenderProof.v): ts renders v at type t — container lengths exact or indefinite
   (any declared length for arrays, slices and plain maps: it is never checked; exact or negative for struct
   maps; -1 or 1 for unions), non-negative integers spelled Int or Uint, map entries and struct fields in any
   order, fields behind nil embedded pointers absent, ignored keys anywhere, null for nil things and for a
   zero struct, arbitrary tags on tokens into typed targets; with lax = true also omitempty fields present
   although empty. *)
Theorem C13_every_rendering_is_accepted : forall E A t v ts,
  atlas_wf E A = true -> wt E A t v -> domb E A t v = true -> renders E A false t v ts ->
  exists f' v', unmarshal E A f' t (zero 50 E t) ts = UOk v' [] /\ req E A t v v'.
Proof. exact unmarshal_accepts_renderings. Qed.
Theorem C13_every_rendering_is_accepted_lax : forall E A t v ts,
  atlas_wf E A = true -> wt E A t v -> domb E A t v = true -> renders E A true t v ts ->
  exists f' v', unmarshal E A f' t (zero 50 E t) ts = UOk v' [] /\ reqx E A true t v v' /\ wt E A t v'.
Proof. exact unmarshal_accepts_renderings_lax. Qed.
(* the relation is not too narrow: the marshaller's own output is one rendering *)
Theorem C13_marshaller_output_is_a_rendering : forall E A t v f ts,
  atlas_wf E A = true -> wt E A t v -> domb E A t v = true -> marshal A f t v = MOk ts ->
  renders E A false t v ts.
Proof. exact marshal_renders. Qed.
Print Assumptions C13_every_rendering_is_accepted.

(* ---------- rejection: what does not fit is an error on the offending token ------------------------- *)
(* a first token the target kind does not take (first_ok is the table), never the other way round *)
Theorem C13_wrong_token_kind_rejected : forall E A f k cur tk tg r,
  kind_plain A k = true -> first_ok k tk = false ->
  unmarshal_kind E A (S (S f)) k cur (Tok tk tg :: r) = UErr (S (length r)).
Proof. exact reject_wrong_token_kind. Qed.
Theorem C13_right_token_kind_not_rejected : forall E A f k cur tk tg r,
  kind_plain A k = true -> first_ok k tk = true ->
  unmarshal_kind E A (S f) k cur (Tok tk tg :: r) <> UErr (S (length r)).
Proof. exact accept_right_token_kind. Qed.
(* tags on tokens into typed targets are ignored *)
Theorem C13_tag_ignored_on_typed_target : forall E A t f cur tk tg tg' r,
  typed_target A t = true ->
  unmarshal E A f t cur (Tok tk tg :: r) = unmarshal E A f t cur (Tok tk tg' :: r).
Proof. exact tag_ignored_typed_target. Qed.
(* after ANY rendered prefix of the container's content (statements in RenderProof.v, each ending in
   "= UErr (S (length rest))", the offending token being the one before [rest]): *)
Definition C13_unknown_field_rejected := @reject_unknown_field.          (* a key no field entry has *)
Definition C13_length_mismatch_rejected := @reject_length_mismatch.      (* struct map: declared length <> entries, at the MapClose *)
Definition C13_duplicate_map_key_rejected := @reject_duplicate_map_key.  (* maps (struct maps take the last one: struct_duplicate_key_last_wins) *)
Definition C13_array_overflow_rejected := @reject_array_overflow.        (* more than n elements into [n]T *)
Definition C13_short_array_padded := @array_short_padded.                (* fewer: accepted, zero-padded *)
Definition C13_union_unknown_member_rejected := @reject_union_unknown_member.
Definition C13_union_extra_entry_rejected := @reject_union_extra_entry.
Print Assumptions C13_unknown_field_rejected.
Print Assumptions C13_duplicate_map_key_rejected.
Print Assumptions C13_union_extra_entry_rejected.

(* documented rejections, evaluated by the kernel on a struct target *)
Definition c13_A := Atlas [AE (GStruct 100) None (EStruct [FE [107] [0%nat] GStr false false])] 0.
Definition c13_E : tenv := [(100, [GStr])].
Example C13_unknown_field_rejected_example :
  unmarshal_top c13_E c13_A (GStruct 100) [Tok (MapOpen (-1)) None; Tok (Str [120]) None; Tok (Str []) None; Tok MapClose None] = UTErr 2.
Proof. vm_compute. reflexivity. Qed.
Example C13_length_mismatch_rejected_example :
  unmarshal_top c13_E c13_A (GStruct 100) [Tok (MapOpen 2) None; Tok (Str [107]) None; Tok (Str []) None; Tok MapClose None] = UTErr 4.
Proof. vm_compute. reflexivity. Qed.
Example C13_duplicate_map_key_rejected_example :
  unmarshal_top [] (Atlas [] 0) (GMap GStr GBool)
    [Tok (MapOpen (-1)) None; Tok (Str [97]) None; Tok (Bool true) None; Tok (Str [97]) None; Tok (Bool true) None; Tok MapClose None] = UTErr 4.
Proof. vm_compute. reflexivity. Qed.
Example C13_array_overflow_rejected_example :
  unmarshal_top [] (Atlas [] 0) (GArr 1 GBool) [Tok (ArrOpen (-1)) None; Tok (Bool true) None; Tok (Bool true) None; Tok ArrClose None] = UTErr 3.
Proof. vm_compute. reflexivity. Qed.
