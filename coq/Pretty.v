(* Pretty.v — control automaton of pretty.Encoder (pretty/prettyEncoder.go).
   Only acceptance (done / error / panic) is modelled; the ANSI-coloured text
   it prints is not the subject of any property. *)
From Coq Require Import List ZArith Bool Lia.
Require Import Tok CborEnc JsonEnc.
Import ListNotations.
Open Scope Z_scope.

Record penc_state := PEncSt { pcur : jphase ; pstack : list jphase }.
Definition penc_init : penc_state := PEncSt JAny [].

Definition ppush (s : penc_state) (p : jphase) : penc_state := PEncSt p (p :: pstack s).

Definition ppop (s : penc_state) : penc_state * step_res :=
  match pstack s with
  | [] => (s, RPanic)
  | [_] => (s, RDone)
  | _ :: nxt :: rest => (PEncSt nxt (nxt :: rest), RCont)
  end.

Definition penc_step (s : penc_state) (t : token) : penc_state * step_res :=
  let v := tv t in
  match pcur s with
  | JAny =>
      match v with
      | MapOpen _ => (ppush s JMapKey, RCont)
      | ArrOpen _ => (ppush s JArr, RCont)
      | MapClose | ArrClose => (s, RErr)
      | _ => (s, RDone)
      end
  | JMapKey =>
      match v with
      | MapOpen _ | ArrOpen _ | ArrClose => (s, RErr)
      | MapClose => ppop s
      | Str _ | Int _ | Uint _ => (PEncSt JMapVal (pstack s), RCont)
      | _ => (s, RErr)
      end
  | JMapVal =>
      match v with
      | MapOpen _ => (ppush s JMapKey, RCont)
      | ArrOpen _ => (ppush s JArr, RCont)
      | MapClose | ArrClose => (s, RErr)
      | _ => (PEncSt JMapKey (pstack s), RCont)
      end
  | JArr =>
      match v with
      | MapOpen _ => (ppush s JMapKey, RCont)
      | ArrOpen _ => (ppush s JArr, RCont)
      | MapClose => (s, RErr)
      | ArrClose => ppop s
      | _ => (s, RCont)
      end
  end.

(* (class, tokens used) *)
Fixpoint penc_run (s : penc_state) (ts : list token) (n : nat) : step_res * nat :=
  match ts with
  | [] => (RCont, n)     (* starved *)
  | t :: rest =>
      let '(s', r) := penc_step s t in
      match r with
      | RCont => penc_run s' rest (S n)
      | _ => (r, S n)
      end
  end.

Definition penc_tokens (ts : list token) : step_res * nat := penc_run penc_init ts 0.
