(* GoVal.v — the modelled universe of Go types and values for the object
   layer (obj/, obj/atlas), and the atlas.

   Types are descriptors; named struct types refer into a type environment
   that lists their fields (needed for zero values).  Values follow the types,
   with nil/non-nil for slices, maps, pointers and interfaces.  Integers are
   mathematical (Z) with the kind's range as a side condition; floats are
   float64 bit patterns (a float32 value is stored as the float64 it converts
   to, which is what reflect.Value.Float returns). *)
From Coq Require Import List ZArith Bool Lia.
Require Import Tok.
Import ListNotations.
Open Scope Z_scope.

Inductive ikind := I8 | I16 | I32 | I64 | IInt | U8 | U16 | U32 | U64 | UInt | UPtr.

Definition ik_signed (k : ikind) : bool :=
  match k with I8 | I16 | I32 | I64 | IInt => true | _ => false end.
Definition ik_min (k : ikind) : Z :=
  match k with I8 => -128 | I16 => -32768 | I32 => -2147483648 | I64 | IInt => -9223372036854775808 | _ => 0 end.
Definition ik_max (k : ikind) : Z :=
  match k with
  | I8 => 127 | I16 => 32767 | I32 => 2147483647 | I64 | IInt => 9223372036854775807
  | U8 => 255 | U16 => 65535 | U32 => 4294967295 | U64 | UInt | UPtr => 18446744073709551615
  end.
Definition ik_eqb (a b : ikind) : bool :=
  match a, b with
  | I8, I8 | I16, I16 | I32, I32 | I64, I64 | IInt, IInt
  | U8, U8 | U16, U16 | U32, U32 | U64, U64 | UInt, UInt | UPtr, UPtr => true
  | _, _ => false
  end.

Inductive gtype :=
| GBool | GNum (k : ikind) | GF32 | GF64 | GStr
| GBytes                    (* []byte *)
| GByteArr (n : nat)        (* [n]byte *)
| GSlice (t : gtype) | GArr (n : nat) (t : gtype)
| GMap (k v : gtype) | GPtr (t : gtype)
| GAny                      (* interface{} *)
| GStruct (id : Z)          (* a struct type; fields in the type environment *)
| GNamed (id : Z) (under : gtype)   (* a named non-struct type *)
| GIface (id : Z)           (* a named interface type (keyed unions) *)
| GBad.                     (* chan, func, complex: not serialisable *)

Fixpoint gtype_eqb (a b : gtype) : bool :=
  match a, b with
  | GBool, GBool | GF32, GF32 | GF64, GF64 | GStr, GStr | GBytes, GBytes | GAny, GAny | GBad, GBad => true
  | GNum k, GNum k' => ik_eqb k k'
  | GByteArr n, GByteArr n' => Nat.eqb n n'
  | GSlice t, GSlice t' => gtype_eqb t t'
  | GArr n t, GArr n' t' => Nat.eqb n n' && gtype_eqb t t'
  | GMap k v, GMap k' v' => gtype_eqb k k' && gtype_eqb v v'
  | GPtr t, GPtr t' => gtype_eqb t t'
  | GStruct i, GStruct i' => i =? i'
  | GNamed i u, GNamed i' u' => (i =? i') && gtype_eqb u u'
  | GIface i, GIface i' => i =? i'
  | _, _ => false
  end.

Inductive gval :=
| GVBool (b : bool)
| VNum (z : Z)
| GVFlt (bits : Z)
| GVStr (s : bytes)
| VBytes (o : option bytes)               (* None = nil slice *)
| VByteArr (s : bytes)
| VSlice (o : option (list gval))
| GVArr (l : list gval)
| GVMap (o : option (list (gval * gval)))  (* entries in arbitrary (iteration) order, distinct keys *)
| VPtr (o : option gval)
| VAny (o : option (gtype * gval))        (* dynamic type and value; also union interfaces *)
| VStruct (fields : list gval)
| VBadV.

(* the type environment: struct id -> field types (declaration order) *)
Definition tenv := list (Z * list gtype).

Fixpoint env_fields (E : tenv) (id : Z) : option (list gtype) :=
  match E with
  | [] => None
  | (i, fs) :: r => if i =? id then Some fs else env_fields r id
  end.

(* zero value (fuel bounds the nesting of struct types) *)
Fixpoint zero (fuel : nat) (E : tenv) (t : gtype) : gval :=
  match fuel with
  | O => VBadV
  | S f =>
    match t with
    | GBool => GVBool false
    | GNum _ => VNum 0
    | GF32 | GF64 => GVFlt 0
    | GStr => GVStr []
    | GBytes => VBytes None
    | GByteArr n => VByteArr (repeat 0 n)
    | GSlice _ => VSlice None
    | GArr n t' => GVArr (repeat (zero f E t') n)
    | GMap _ _ => GVMap None
    | GPtr _ => VPtr None
    | GAny | GIface _ => VAny None
    | GStruct id => match env_fields E id with Some fs => VStruct (map (zero f E) fs) | None => VBadV end
    | GNamed _ u => zero f E u
    | GBad => VBadV
    end
  end.

(* ---------- the atlas --------------------------------------------------------- *)

Record field_entry := FE {
  fe_name : bytes ;         (* serial name *)
  fe_route : list nat ;     (* reflect route: field indices, dereferencing pointers on the way *)
  fe_type : gtype ;         (* type at the end of the route *)
  fe_omit : bool ;          (* omitempty *)
  fe_ignore : bool }.       (* IgnoreKey entry *)

Inductive entry_kind :=
| EStruct (fields : list field_entry)
| ETransform (kind : Z) (wire : gtype)      (* a transform pair from the modelled family; its serial type *)
| EUnion (members : list (bytes * gtype))   (* serial name <-> member type *)
| EMapMorphism (mode : Z).                  (* 0 default, 1 strings, 2 rfc7049 *)

Record atlas_entry := AE { ae_type : gtype ; ae_tag : option Z ; ae_kind : entry_kind }.

Record atlas := Atlas { a_entries : list atlas_entry ; a_mode : Z }.

Fixpoint find_entry (es : list atlas_entry) (t : gtype) : option atlas_entry :=
  match es with
  | [] => None
  | e :: r => if gtype_eqb (ae_type e) t then Some e else find_entry r t
  end.
Definition atlas_get (A : atlas) (t : gtype) : option atlas_entry := find_entry (a_entries A) t.

Fixpoint find_tag (es : list atlas_entry) (tg : Z) : option atlas_entry :=
  match es with
  | [] => None
  | e :: r => match ae_tag e with
              | Some t => if t =? tg then Some e else find_tag r tg
              | None => find_tag r tg
              end
  end.
Definition atlas_by_tag (A : atlas) (tg : Z) : option atlas_entry := find_tag (a_entries A) tg.

(* ---------- byte-string order, key sorting ---------------------------------- *)

Fixpoint bytes_ltb (a b : bytes) : bool :=
  match a, b with
  | [], [] => false
  | [], _ :: _ => true
  | _ :: _, [] => false
  | x :: a', y :: b' => if x <? y then true else if y <? x then false else bytes_ltb a' b'
  end.

Fixpoint bytes_eqb (a b : bytes) : bool :=
  match a, b with
  | [], [] => true
  | x :: a', y :: b' => (x =? y) && bytes_eqb a' b'
  | _, _ => false
  end.

(* RFC 7049 canonical order: shorter first, then bytewise *)
Definition rfc7049_ltb (a b : bytes) : bool :=
  if Nat.ltb (length a) (length b) then true
  else if Nat.ltb (length b) (length a) then false
  else bytes_ltb a b.

Definition key_ltb (mode : Z) : bytes -> bytes -> bool :=
  if mode =? 2 then rfc7049_ltb else bytes_ltb.

(* insertion sort on (key string, payload) pairs *)
Fixpoint insert_key {A} (lt : bytes -> bytes -> bool) (x : bytes * A) (l : list (bytes * A)) : list (bytes * A) :=
  match l with
  | [] => [x]
  | y :: r => if lt (fst y) (fst x) then y :: insert_key lt x r else x :: l
  end.
Fixpoint sort_keys {A} (lt : bytes -> bytes -> bool) (l : list (bytes * A)) : list (bytes * A) :=
  match l with
  | [] => []
  | x :: r => insert_key lt x (sort_keys lt r)
  end.

(* ---------- the modelled transform family ------------------------------------ *)
(* kind 1: named string  <-> string  with prefix "n:"
   kind 2: struct{A,B string} <-> string  A ++ [0] ++ B          (A has no NUL)
   kind 3: struct{X,Y uint8}  <-> []byte{X,Y}
   kind 4: struct{P,Q int64}  <-> []int64{P,Q}
   kind 5: struct{V string}   <-> wire struct{W string}
   kind 6: struct{A,B string} <-> string  A ++ ":" ++ B  (map keys; A has no ':')
   kind 7: struct{K string; N int64} <-> wire struct{K string; N int64} (both wire fields omitempty)
   kind 8: struct{B []byte}   <-> []byte   (the functions pass the slice through)
   kind 9: struct{V interface{}} <-> interface{}  (the serial form is an untyped value) *)

Fixpoint split_at (c : Z) (s : bytes) (acc : bytes) : option (bytes * bytes) :=
  match s with
  | [] => None
  | x :: r => if x =? c then Some (rev acc, r) else split_at c r (x :: acc)
  end.

Definition tr_fwd (kind : Z) (v : gval) : option gval :=
  if kind =? 1 then match v with GVStr s => Some (GVStr (110 :: 58 :: s)) | _ => None end
  else if kind =? 2 then match v with VStruct [GVStr a; GVStr b] => Some (GVStr (a ++ 0 :: b)) | _ => None end
  else if kind =? 3 then match v with VStruct [VNum x; VNum y] => Some (VBytes (Some [x; y])) | _ => None end
  else if kind =? 4 then match v with VStruct [VNum p; VNum q] => Some (VSlice (Some [VNum p; VNum q])) | _ => None end
  else if kind =? 5 then match v with VStruct [GVStr s] => Some (VStruct [GVStr s]) | _ => None end
  else if kind =? 6 then match v with VStruct [GVStr a; GVStr b] => Some (GVStr (a ++ 58 :: b)) | _ => None end
  else if kind =? 7 then match v with VStruct [GVStr k; VNum n] => Some (VStruct [GVStr k; VNum n]) | _ => None end
  else if kind =? 8 then match v with VStruct [VBytes o] => Some (VBytes o) | _ => None end
  else if kind =? 9 then match v with VStruct [VAny o] => Some (VAny o) | _ => None end
  else None.

Definition tr_bwd (kind : Z) (v : gval) : option gval :=
  if kind =? 1 then match v with GVStr (110 :: 58 :: s) => Some (GVStr s) | _ => None end
  else if kind =? 2 then
    match v with GVStr s => match split_at 0 s [] with Some (a, b) => Some (VStruct [GVStr a; GVStr b]) | None => None end | _ => None end
  else if kind =? 3 then match v with VBytes (Some [x; y]) => Some (VStruct [VNum x; VNum y]) | _ => None end
  else if kind =? 4 then match v with VSlice (Some [VNum p; VNum q]) => Some (VStruct [VNum p; VNum q]) | _ => None end
  else if kind =? 5 then match v with VStruct [GVStr s] => Some (VStruct [GVStr s]) | _ => None end
  else if kind =? 6 then
    match v with GVStr s => match split_at 58 s [] with Some (a, b) => Some (VStruct [GVStr a; GVStr b]) | None => None end | _ => None end
  else if kind =? 7 then match v with VStruct [GVStr k; VNum n] => Some (VStruct [GVStr k; VNum n]) | _ => None end
  else if kind =? 8 then match v with VBytes o => Some (VStruct [VBytes o]) | _ => None end
  else if kind =? 9 then match v with VAny o => Some (VStruct [VAny o]) | _ => None end
  else None.
