(* Extract.v — the single extraction file.  ExtrOcamlBasic only: bool, option,
   unit, list, prod, sumbool, sumor map to OCaml's; nat, positive, N, Z stay
   the extracted inductives (no Extract Constant of our own). *)
Require Import ExtrOcamlBasic.
Require Import Tok TokGrammar CborSpec CborEnc CborDec CborParse Utf8 JsonEnc Pretty EncAccept JsonFloat JsonDec JsonParse Reader Writer ReuseFault Pump GoVal Marshal FloatConv Unmarshal Autogen.
Extraction Language OCaml.
Extraction "model.ml" Z.add Z.mul Z.div_eucl Z.of_nat Z.to_nat Z.eqb Z.ltb
   flatten unflatten enc_tokens rfc_enc dec_run parse_item
   jenc_tokens penc_tokens ctx_run key_cbor key_json json_repr valid_utf8 coerce_utf8 jdec_run jparse_item run_ops run_ops_abs slick_init astream_init cbor_write_faulty json_write_faulty history jhistory enc_init jenc_init pump_j2c pump_c2j pump_c2c pump_j2j marshal_top unmarshal_top explore explore_matches_spec autogen_entry selected.
