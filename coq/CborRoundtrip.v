(* CborRoundtrip.v — reading back the RFC 7049 reference encoding gives the
   value tree again (non-negative Int comes back as Uint, an indefinite
   container comes back with declared length -1); heads decode to the
   value the relational head spec assigns, in every (also non-shortest)
   spelling.

   NOTE.  The originally planned statement
     forall n c rest, enc_ok n -> len_ok n -> rt_ok n ->
       exists fuel, pitem fuel c (rfc_enc n ++ rest) = POk (unsign n) rest
   is false: [len_ok] allows any negative declared length for an indefinite
   container, the parser always reports -1 (see [parse_rfc_enc_cex] below).
   It is replaced by [parse_rfc_enc_canon] (result [canon n]) and its
   corollary [parse_rfc_enc_m1] (result [unsign n], under [indef_m1 n]). *)
From Coq Require Import List ZArith Bool Lia.
From Coq Require Import ZifyBool ZifyNat.
Require Import Tok CborSpec CborEnc CborEncProof CborDec CborParse.
Import ListNotations.
Open Scope Z_scope.

(* what CBOR cannot tell apart: a non-negative Int comes back as Uint *)
Fixpoint unsign (n : tnode) : tnode :=
  match n with
  | Node tg v =>
    Node tg
      match v with
      | VInt i => if 0 <=? i then VUint i else VInt i
      | VArr d items => VArr d (map unsign items)
      | VMap d es => VMap d (map (fun kv => (unsign (fst kv), unsign (snd kv))) es)
      | other => other
      end
  end.

(* side conditions of reading back: payload bytes are bytes, strings are
   within the decoder's 32 MiB per-item cap *)
Fixpoint rt_ok (n : tnode) : Prop :=
  match n with
  | Node _ v =>
    match v with
    | VStr s | VByt s => bytes_ok s /\ Z.of_nat (length s) <= item_cap
    | VArr _ items => fold_right (fun x acc => rt_ok x /\ acc) True items
    | VMap _ es => fold_right (fun kv acc => (rt_ok (fst kv) /\ rt_ok (snd kv)) /\ acc) True es
    | _ => True
    end
  end.

(* ====================================================================== *)
(* 1. Heads                                                                *)
(* ====================================================================== *)

Definition major (m : Z) : Prop :=
  m = 0 \/ m = 32 \/ m = 64 \/ m = 96 \/ m = 128 \/ m = 160 \/ m = 192 \/ m = 224.

Lemma land31 m ai : major m -> 0 <= ai < 32 -> Z.land (m + ai) 31 = ai.
Proof.
  intros Hm Hai. change 31 with (Z.ones 5). rewrite Z.land_ones by lia.
  change (2 ^ 5) with 32.
  unfold major in Hm.
  symmetry. apply (Z.mod_unique (m + ai) 32 (m / 32) ai); [lia|].
  repeat (destruct Hm as [-> | Hm]; [reflexivity|]). subst m; reflexivity.
Qed.

Lemma readn_app a rest n : n = Z.of_nat (length a) -> readn n (a ++ rest) = inl (a, rest).
Proof.
  intros ->. unfold readn.
  destruct (Z.eqb_spec (Z.of_nat (length a)) 0) as [E|E].
  - destruct a; [reflexivity|]. cbn [length] in E. lia.
  - rewrite app_length. destruct (Z.ltb_spec (Z.of_nat (length a + length rest)) (Z.of_nat (length a))); [lia|].
    rewrite Nat2Z.id. rewrite firstn_app, skipn_app, Nat.sub_diag, firstn_all, skipn_all.
    cbn [firstn skipn app]. now rewrite app_nil_r.
Qed.

(* every well-formed head, shortest or not, decodes to the value it denotes *)
Theorem head_decode : forall m ai arg v rest,
  (m = 0 \/ m = 32 \/ m = 64 \/ m = 96 \/ m = 128 \/ m = 160 \/ m = 192 \/ m = 224) ->
  HeadVal ai arg v -> dec_uint (m + ai) (arg ++ rest) = inl (v, rest).
Proof.
  intros m ai arg v rest Hm HV. unfold dec_uint.
  inversion HV as [v0 Hv | a Hl Hb | a Hl Hb | a Hl Hb | a Hl Hb]; subst;
    rewrite (land31 m _ Hm) by lia; cbv zeta.
  - destruct (Z.leb_spec v 23); [reflexivity|lia].
  - destruct arg as [|b [|? ?]]; try discriminate. cbn [app readn1 Z.leb Z.eqb Z.compare Pos.compare Pos.compare_cont Pos.eqb].
    unfold unbe. cbn [unbe_acc]. do 2 f_equal. 
  - rewrite (readn_app arg rest 2) by (rewrite Hl; reflexivity). reflexivity.
  - rewrite (readn_app arg rest 4) by (rewrite Hl; reflexivity). reflexivity.
  - rewrite (readn_app arg rest 8) by (rewrite Hl; reflexivity). reflexivity.
Qed.

(* ====================================================================== *)
(* 2. Reading back the reference encoding                                  *)
(* ====================================================================== *)

Ltac consts := unfold is_tag_byte, sigNil, sigUndef, sigFalse, sigTrue, sigF16, sigF32, sigF64,
  sigIndefBytes, sigIndefString, sigIndefArray, sigIndefMap, sigBreak,
  majUint, majNegInt, majBytes, majString, majArray, majMap, majTag, majSimple in *.

Ltac step_if :=
  match goal with
  | |- context [?x =? ?y] =>
      first [ destruct (Z.eqb_spec x y); [lia|] | destruct (Z.eqb_spec x y); [|lia] ]
  | |- context [?x <? ?y] =>
      first [ destruct (Z.ltb_spec x y); [lia|] | destruct (Z.ltb_spec x y); [|lia] ]
  | |- context [?x <=? ?y] =>
      first [ destruct (Z.leb_spec x y); [lia|] | destruct (Z.leb_spec x y); [|lia] ]
  end; cbv beta iota delta [orb andb].

(* ---------- pbody: which branch a first byte selects ---------------------- *)

Lemma pbody_nil f c tg bs : pbody (S f) c 246 tg bs = POk (Node tg VNull) bs.
Proof. reflexivity. Qed.
Lemma pbody_false f c tg bs : pbody (S f) c 244 tg bs = POk (Node tg (VBool false)) bs.
Proof. reflexivity. Qed.
Lemma pbody_true f c tg bs : pbody (S f) c 245 tg bs = POk (Node tg (VBool true)) bs.
Proof. reflexivity. Qed.
Lemma pbody_f64 f c tg bs : pbody (S f) c 251 tg bs =
  match dec_float 251 bs with inl (b, rest) => POk (Node tg (VFlt b)) rest | inr e => PErr e end.
Proof. reflexivity. Qed.

Lemma pbody_uint f c b tg bs : 0 <= b <= 27 ->
  pbody (S f) c b tg bs =
  match dec_uint b bs with inl (u, rest) => POk (Node tg (VUint u)) rest | inr e => PErr e end.
Proof. intros Hb. cbn [pbody]. consts. repeat step_if. reflexivity. Qed.

Lemma pbody_negint f c b tg bs : 32 <= b <= 32 + 27 ->
  pbody (S f) c b tg bs =
  match dec_negint b bs with inl (i, rest) => POk (Node tg (VInt i)) rest | inr e => PErr e end.
Proof. intros Hb. cbn [pbody]. consts. repeat step_if. reflexivity. Qed.

Lemma pbody_bytes f c b tg bs : 64 <= b <= 64 + 27 ->
  pbody (S f) c b tg bs = pscalar tg VByt (fst (dec_bytes b bs)).
Proof. intros Hb. cbn [pbody]. consts. repeat step_if. reflexivity. Qed.

Lemma pbody_string f c b tg bs : 96 <= b <= 96 + 27 ->
  pbody (S f) c b tg bs = pscalar tg VStr (fst (dec_bytes b bs)).
Proof. intros Hb. cbn [pbody]. consts. repeat step_if. reflexivity. Qed.

Lemma pbody_arr_def f c b tg bs : 128 <= b <= 128 + 27 ->
  pbody (S f) c b tg bs =
  match dec_len b bs with
  | inr e => PErr e
  | inl (n, r) =>
    match pitems_def f c n r with
    | POk xs rest => POk (Node tg (VArr n xs)) rest
    | PErr e => PErr e | PFuel => PFuel
    end
  end.
Proof. intros Hb. cbn [pbody]. consts. repeat step_if. reflexivity. Qed.

Lemma pbody_map_def f c b tg bs : 160 <= b <= 160 + 27 ->
  pbody (S f) c b tg bs =
  match dec_len b bs with
  | inr e => PErr e
  | inl (n, r) =>
    match ppairs_def f c n r with
    | POk es rest => POk (Node tg (VMap n es)) rest
    | PErr e => PErr e | PFuel => PFuel
    end
  end.
Proof. intros Hb. cbn [pbody]. consts. repeat step_if. reflexivity. Qed.

Lemma pbody_arr_indef f c tg bs :
  pbody (S f) c 159 tg bs =
  match pitems_indef f c bs with
  | POk xs rest => POk (Node tg (VArr (-1) xs)) rest
  | PErr e => PErr e | PFuel => PFuel
  end.
Proof. reflexivity. Qed.

Lemma pbody_map_indef f c tg bs :
  pbody (S f) c 191 tg bs =
  match ppairs_indef f c bs with
  | POk es rest => POk (Node tg (VMap (-1) es)) rest
  | PErr e => PErr e | PFuel => PFuel
  end.
Proof. reflexivity. Qed.

(* ---------- list parsers: one element ------------------------------------- *)

Lemma pitems_def_nil f c bs : pitems_def (S f) c 0 bs = POk [] bs.
Proof. reflexivity. Qed.

Lemma pitems_def_cons f c n bs x r1 xs r2 : n <> 0 ->
  pitem f c bs = POk x r1 -> pitems_def f c (n - 1) r1 = POk xs r2 ->
  pitems_def (S f) c n bs = POk (x :: xs) r2.
Proof. intros Hn H1 H2. cbn [pitems_def]. step_if. rewrite H1, H2. reflexivity. Qed.

Lemma ppairs_def_nil f c bs : ppairs_def (S f) c 0 bs = POk [] bs.
Proof. reflexivity. Qed.

Lemma ppairs_def_cons f c n bs k r1 v r2 es r3 : n <> 0 ->
  pitem f c bs = POk k r1 -> pitem f c r1 = POk v r2 -> ppairs_def f c (n - 1) r2 = POk es r3 ->
  ppairs_def (S f) c n bs = POk ((k, v) :: es) r3.
Proof. intros Hn H1 H2 H3. cbn [ppairs_def]. step_if. rewrite H1, H2, H3. reflexivity. Qed.

Lemma pitems_indef_nil f c bs : pitems_indef (S f) c (255 :: bs) = POk [] bs.
Proof. reflexivity. Qed.

Lemma pitems_indef_cons f c bs b tl x r1 xs r2 : bs = b :: tl -> b <> 255 ->
  pitem f c bs = POk x r1 -> pitems_indef f c r1 = POk xs r2 ->
  pitems_indef (S f) c bs = POk (x :: xs) r2.
Proof.
  intros E Hb H1 H2. cbn [pitems_indef]. rewrite H1, H2. subst bs. consts. step_if. reflexivity.
Qed.

Lemma ppairs_indef_nil f c bs : ppairs_indef (S f) c (255 :: bs) = POk [] bs.
Proof. reflexivity. Qed.

Lemma ppairs_indef_cons f c bs b tl k r1 b2 tl2 v r2 es r3 : bs = b :: tl -> b <> 255 ->
  pitem f c bs = POk k r1 -> r1 = b2 :: tl2 -> b2 <> 255 ->
  pitem f c r1 = POk v r2 -> ppairs_indef f c r2 = POk es r3 ->
  ppairs_indef (S f) c bs = POk ((k, v) :: es) r3.
Proof.
  intros E Hb H1 E2 Hb2 H2 H3. cbn [ppairs_indef]. rewrite H1, H2, H3. subst bs r1. consts.
  step_if. step_if. reflexivity.
Qed.

(* ---------- heads --------------------------------------------------------- *)

Lemma dec_uint_head m v rest : major m -> 0 <= v < 2^64 ->
  exists b tl, head m v ++ rest = b :: tl /\ m <= b <= m + 27 /\ dec_uint b tl = inl (v, rest).
Proof.
  intros Hm Hv. destruct (head_shortest m v Hv) as (ai & arg & E & HV & _).
  exists (m + ai), (arg ++ rest). rewrite E. split; [reflexivity|]. split.
  - inversion HV; lia.
  - apply head_decode; assumption.
Qed.

Lemma dec_len_head m v rest : major m -> 0 <= v <= maxInt ->
  exists b tl, head m v ++ rest = b :: tl /\ m <= b <= m + 27 /\ dec_len b tl = inl (v, rest).
Proof.
  intros Hm Hv. unfold maxInt in Hv.
  destruct (dec_uint_head m v rest Hm) as (b & tl & E & Hb & D); [lia|].
  exists b, tl. split; [exact E|]. split; [exact Hb|].
  unfold dec_len. rewrite D. unfold maxInt. step_if. reflexivity.
Qed.

Lemma head_first m v : 0 <= v -> exists ai tl, head m v = (m + ai) :: tl /\ 0 <= ai <= 27.
Proof.
  intros Hv. unfold head.
  destruct (Z.ltb_spec v 24); [exists v, []; split; [reflexivity|lia]|].
  destruct (v <? 2^8); [eexists; eexists; split; [reflexivity|lia]|].
  destruct (v <? 2^16); [eexists; eexists; split; [reflexivity|lia]|].
  destruct (v <? 2^32); eexists; eexists; (split; [reflexivity|lia]).
Qed.

(* ---------- pitem: tag, then body ----------------------------------------- *)

Lemma rfc_enc_split tg v : rfc_enc (Node tg v) = rfc_tag tg ++ rfc_enc (Node None v).
Proof. reflexivity. Qed.

Lemma pitem_node f c tg body rest b tl : tag_ok tg ->
  body ++ rest = b :: tl -> is_tag_byte b = false ->
  pitem (S f) c ((rfc_tag tg ++ body) ++ rest) = pbody f c b tg tl.
Proof.
  intros Htg E Hb. rewrite <- app_assoc, E. destruct tg as [t|]; cbn [rfc_tag tag_ok] in *.
  - unfold CborSpec.two63 in Htg.
    destruct (dec_len_head 192 t (b :: tl)) as (b0 & tl0 & E0 & Hb0 & D);
      [unfold major; lia | unfold maxInt; lia |].
    rewrite E0. cbn [pitem].
    assert (T : is_tag_byte b0 = true) by (consts; lia).
    rewrite T, D, Hb. reflexivity.
  - cbn [app pitem]. rewrite Hb. reflexivity.
Qed.

(* ---------- the canonical reading ----------------------------------------- *)

(* [unsign], and an indefinite container comes back with declared length -1 *)
Fixpoint canon (n : tnode) : tnode :=
  match n with
  | Node tg v =>
    Node tg
      match v with
      | VInt i => if 0 <=? i then VUint i else VInt i
      | VArr d items => VArr (if 0 <=? d then d else -1) (map canon items)
      | VMap d es => VMap (if 0 <=? d then d else -1)
                          (map (fun kv => (canon (fst kv), canon (snd kv))) es)
      | other => other
      end
  end.

(* every negative declared length is -1 *)
Fixpoint indef_m1 (n : tnode) : Prop :=
  match n with
  | Node _ v =>
    match v with
    | VArr d items => (d < 0 -> d = -1) /\ fold_right (fun x acc => indef_m1 x /\ acc) True items
    | VMap d es => (d < 0 -> d = -1) /\
        fold_right (fun kv acc => (indef_m1 (fst kv) /\ indef_m1 (snd kv)) /\ acc) True es
    | _ => True
    end
  end.

Lemma fold_and_Forall {A} (Q : A -> Prop) l :
  fold_right (fun x acc => Q x /\ acc) True l <-> Forall Q l.
Proof.
  induction l as [|x l IH]; cbn [fold_right]; split; intros H.
  - constructor.
  - exact I.
  - constructor; [apply H|apply IH, H].
  - inversion H; subst. split; [assumption|apply IH; assumption].
Qed.

Lemma canon_unsign n : indef_m1 n -> canon n = unsign n.
Proof.
  induction n as [tg v Hleaf | tg d items IH | tg d es IH] using tnode_ind'.
  - intros _. destruct v; try contradiction; reflexivity.
  - cbn [indef_m1 canon unsign]. intros [Hd Hitems].
    apply (fold_and_Forall indef_m1) in Hitems.
    f_equal. f_equal.
    + destruct (Z.leb_spec 0 d); lia.
    + apply map_ext_in. intros x Hx. rewrite Forall_forall in IH, Hitems. apply IH; auto.
  - cbn [indef_m1 canon unsign]. intros [Hd Hes].
    apply (fold_and_Forall (fun kv => indef_m1 (fst kv) /\ indef_m1 (snd kv))) in Hes.
    f_equal. f_equal.
    + destruct (Z.leb_spec 0 d); lia.
    + apply map_ext_in. intros x Hx. rewrite Forall_forall in IH, Hes.
      destruct (IH x Hx) as [I1 I2]. destruct (Hes x Hx) as [J1 J2]. rewrite I1, I2 by assumption.
      reflexivity.
Qed.

(* ---------- what is proved of each node ------------------------------------ *)

Definition Good (n : tnode) : Prop := forall c rest, exists f0, forall fuel, (f0 <= fuel)%nat ->
  pitem fuel c (rfc_enc n ++ rest) = POk (canon n) rest.

Definition nobreak (n : tnode) : Prop := exists b tl, rfc_enc n = b :: tl /\ b <> 255.

Lemma first_byte n : enc_ok n -> nobreak n.
Proof.
  destruct n as [tg v]. intros [Htg Hv]. unfold nobreak. rewrite rfc_enc_split.
  destruct tg as [t|]; cbn [rfc_tag tag_ok] in *.
  - destruct (head_first 192 t) as (ai & tl & E & Hai); [lia|]. rewrite E.
    eexists; eexists; split; [reflexivity|lia].
  - cbn [app].
    assert (Hh : forall m v tl, 0 <= v -> 0 <= m <= 224 -> exists b tl', head m v ++ tl = b :: tl' /\ b <> 255).
    { intros m v0 tl Hv0 Hm. destruct (head_first m v0 Hv0) as (ai & tl' & E & Hai). rewrite E.
      eexists; eexists; split; [reflexivity|lia]. }
    destruct v as [ | s | s | b | i | u | bits | d items | d es ]; cbn [rfc_enc rfc_tag app].
    + eexists; eexists; split; [reflexivity|lia].
    + apply Hh; unfold slen; lia.
    + apply Hh; unfold slen; lia.
    + eexists; eexists; split; [reflexivity|destruct b; lia].
    + rewrite <- (app_nil_r (if 0 <=? i then _ else _)).
      destruct (Z.leb_spec 0 i); apply Hh; lia.
    + rewrite <- (app_nil_r (head 0 u)). apply Hh; lia.
    + eexists; eexists; split; [reflexivity|lia].
    + destruct (Z.leb_spec 0 d); [apply Hh; lia|].
      eexists; eexists; split; [reflexivity|lia].
    + destruct (Z.leb_spec 0 d); [apply Hh; lia|].
      eexists; eexists; split; [reflexivity|lia].
Qed.

(* ---------- leaves ---------------------------------------------------------- *)

Lemma body_leaf v rest :
  match v with VArr _ _ | VMap _ _ => False | _ => True end ->
  enc_ok (Node None v) -> rt_ok (Node None v) ->
  exists b tl, rfc_enc (Node None v) ++ rest = b :: tl /\ is_tag_byte b = false /\
    forall f c tg, pbody (S f) c b tg tl = POk (canon (Node tg v)) rest.
Proof.
  intros Hleaf [_ Hv] Hrt.
  assert (M : forall m, m = 0 \/ m = 32 \/ m = 64 \/ m = 96 -> major m) by (unfold major; lia).
  destruct v as [ | s | s | b | i | u | bits | d items | d es ]; try contradiction;
    cbn [rfc_enc rfc_tag app canon rt_ok] in *.
  - exists 246, rest. repeat split. 
  - destruct Hrt as [_ Hcap]. unfold item_cap in Hcap. rewrite <- app_assoc.
    destruct (dec_len_head 96 (slen s) (s ++ rest)) as (b & tl & E & Hb & D);
      [apply M; lia | unfold slen, maxInt; lia |].
    exists b, tl. split; [exact E|]. split; [consts; lia|]. intros f c tg.
    rewrite pbody_string by lia. unfold dec_bytes. rewrite D. unfold item_cap, slen in *.
    step_if. cbn [fst]. rewrite readn_app by reflexivity. reflexivity.
  - destruct Hrt as [_ Hcap]. unfold item_cap in Hcap. rewrite <- app_assoc.
    destruct (dec_len_head 64 (slen s) (s ++ rest)) as (b & tl & E & Hb & D);
      [apply M; lia | unfold slen, maxInt; lia |].
    exists b, tl. split; [exact E|]. split; [consts; lia|]. intros f c tg.
    rewrite pbody_bytes by lia. unfold dec_bytes. rewrite D. unfold item_cap, slen in *.
    step_if. cbn [fst]. rewrite readn_app by reflexivity. reflexivity.
  - destruct b; [exists 245, rest | exists 244, rest]; repeat split.
  - unfold CborSpec.two63 in Hv. destruct (Z.leb_spec 0 i).
    + destruct (dec_uint_head 0 i rest) as (b & tl & E & Hb & D); [apply M; lia | lia |].
      exists b, tl. split; [exact E|]. split; [consts; lia|]. intros f c tg.
      rewrite pbody_uint by lia. rewrite D. reflexivity.
    + destruct (dec_uint_head 32 (-1 - i) rest) as (b & tl & E & Hb & D); [apply M; lia | lia |].
      exists b, tl. split; [exact E|]. split; [consts; lia|]. intros f c tg.
      rewrite pbody_negint by lia. unfold dec_negint. rewrite D. unfold maxInt. step_if.
      replace (-1 - (-1 - i)) with i by lia. reflexivity.
  - unfold CborSpec.two64 in Hv.
    destruct (dec_uint_head 0 u rest) as (b & tl & E & Hb & D); [apply M; lia | lia |].
    exists b, tl. split; [exact E|]. split; [consts; lia|]. intros f c tg.
    rewrite pbody_uint by lia. rewrite D. reflexivity.
  - exists 251, (be_ref 8 bits ++ rest). split; [reflexivity|]. split; [reflexivity|]. intros f c tg.
    rewrite pbody_f64. unfold dec_float. consts. step_if. step_if.
    rewrite (readn_app (be_ref 8 bits) rest 8) by (rewrite be_ref_length; reflexivity).
    rewrite unbe_be_ref; [reflexivity|]. exact Hv.
Qed.

(* ---------- element lists --------------------------------------------------- *)

Definition enc_pair (kv : tnode * tnode) : bytes := rfc_enc (fst kv) ++ rfc_enc (snd kv).
Definition canon_pair (kv : tnode * tnode) : tnode * tnode := (canon (fst kv), canon (snd kv)).

Lemma items_def items : Forall Good items -> forall c rest, exists f0, forall fuel, (f0 <= fuel)%nat ->
  pitems_def fuel c (Z.of_nat (length items)) (flat_map rfc_enc items ++ rest)
  = POk (map canon items) rest.
Proof.
  induction 1 as [|x xs Hx Hxs IH]; intros c rest.
  - exists 1%nat. intros [|f] Hf; [lia|]. reflexivity.
  - destruct (Hx c (flat_map rfc_enc xs ++ rest)) as [f1 H1]. destruct (IH c rest) as [f2 H2].
    exists (S (Nat.max f1 f2)). intros [|f] Hf; [lia|].
    cbn [flat_map length map]. rewrite <- app_assoc.
    eapply pitems_def_cons.
    + lia.
    + apply H1; lia.
    + replace (Z.of_nat (S (length xs)) - 1) with (Z.of_nat (length xs)) by lia. apply H2; lia.
Qed.

Lemma items_indef items : Forall Good items -> Forall nobreak items ->
  forall c rest, exists f0, forall fuel, (f0 <= fuel)%nat ->
  pitems_indef fuel c (flat_map rfc_enc items ++ 255 :: rest) = POk (map canon items) rest.
Proof.
  intros HG HN. induction items as [|x xs IH]; intros c rest.
  - exists 1%nat. intros [|f] Hf; [lia|]. reflexivity.
  - inversion HG as [|? ? Hx HGs]; inversion HN as [|? ? Nx HNs]; subst.
    destruct (Hx c (flat_map rfc_enc xs ++ 255 :: rest)) as [f1 H1].
    destruct (IH HGs HNs c rest) as [f2 H2].
    destruct Nx as (b & tl & E & Hb).
    exists (S (Nat.max f1 f2)). intros [|f] Hf; [lia|].
    cbn [flat_map map]. rewrite <- app_assoc.
    eapply pitems_indef_cons with (b := b).
    + rewrite E. reflexivity.
    + exact Hb.
    + apply H1; lia.
    + apply H2; lia.
Qed.

Lemma pairs_def es : Forall (fun kv => Good (fst kv) /\ Good (snd kv)) es ->
  forall c rest, exists f0, forall fuel, (f0 <= fuel)%nat ->
  ppairs_def fuel c (Z.of_nat (length es)) (flat_map enc_pair es ++ rest)
  = POk (map canon_pair es) rest.
Proof.
  induction 1 as [|[k v] xs [Hk Hv] Hxs IH]; intros c rest; cbn [fst snd] in *.
  - exists 1%nat. intros [|f] Hf; [lia|]. reflexivity.
  - destruct (Hk c (rfc_enc v ++ flat_map enc_pair xs ++ rest)) as [f1 H1].
    destruct (Hv c (flat_map enc_pair xs ++ rest)) as [f2 H2].
    destruct (IH c rest) as [f3 H3].
    exists (S (Nat.max f1 (Nat.max f2 f3))). intros [|f] Hf; [lia|].
    cbn [flat_map length map]. unfold enc_pair at 1, canon_pair at 1. cbn [fst snd].
    rewrite <- !app_assoc.
    eapply ppairs_def_cons.
    + lia.
    + apply H1; lia.
    + apply H2; lia.
    + replace (Z.of_nat (S (length xs)) - 1) with (Z.of_nat (length xs)) by lia. apply H3; lia.
Qed.

Lemma pairs_indef es : Forall (fun kv => Good (fst kv) /\ Good (snd kv)) es ->
  Forall (fun kv => nobreak (fst kv) /\ nobreak (snd kv)) es ->
  forall c rest, exists f0, forall fuel, (f0 <= fuel)%nat ->
  ppairs_indef fuel c (flat_map enc_pair es ++ 255 :: rest) = POk (map canon_pair es) rest.
Proof.
  intros HG HN. induction es as [|[k v] xs IH]; intros c rest.
  - exists 1%nat. intros [|f] Hf; [lia|]. reflexivity.
  - inversion HG as [|? ? [Hk Hv] HGs]; inversion HN as [|? ? [Nk Nv] HNs]; subst; cbn [fst snd] in *.
    destruct (Hk c (rfc_enc v ++ flat_map enc_pair xs ++ 255 :: rest)) as [f1 H1].
    destruct (Hv c (flat_map enc_pair xs ++ 255 :: rest)) as [f2 H2].
    destruct (IH HGs HNs c rest) as [f3 H3].
    destruct Nk as (b & tl & E & Hb). destruct Nv as (b2 & tl2 & E2 & Hb2).
    exists (S (Nat.max f1 (Nat.max f2 f3))). intros [|f] Hf; [lia|].
    cbn [flat_map map]. unfold enc_pair at 1, canon_pair at 1. cbn [fst snd].
    rewrite <- !app_assoc.
    eapply ppairs_indef_cons with (b := b) (b2 := b2).
    + rewrite E. reflexivity.
    + exact Hb.
    + apply H1; lia.
    + rewrite E2. reflexivity.
    + exact Hb2.
    + apply H2; lia.
    + apply H3; lia.
Qed.

(* ---------- the main induction --------------------------------------------- *)

Lemma rfc_enc_arr tg d items : rfc_enc (Node tg (VArr d items)) =
  rfc_tag tg ++ ((if 0 <=? d then head 128 d else [159]) ++ flat_map rfc_enc items ++
                (if 0 <=? d then [] else [255])).
Proof. reflexivity. Qed.

Lemma rfc_enc_map tg d es : rfc_enc (Node tg (VMap d es)) =
  rfc_tag tg ++ ((if 0 <=? d then head 160 d else [191]) ++ flat_map enc_pair es ++
                (if 0 <=? d then [] else [255])).
Proof. reflexivity. Qed.

Lemma canon_arr tg d items :
  canon (Node tg (VArr d items)) = Node tg (VArr (if 0 <=? d then d else -1) (map canon items)).
Proof. reflexivity. Qed.

Lemma canon_map tg d es :
  canon (Node tg (VMap d es)) = Node tg (VMap (if 0 <=? d then d else -1) (map canon_pair es)).
Proof. reflexivity. Qed.

Lemma good_all n : enc_ok n -> len_ok n -> rt_ok n -> Good n.
Proof.
  induction n as [tg v Hleaf | tg d items IH | tg d es IH] using tnode_ind'.
  - intros [Htg Hv] _ Hrt c rest.
    destruct (body_leaf v rest Hleaf) as (b & tl & E & Hb & Hp).
    { split; [exact I|exact Hv]. }
    { destruct v; exact Hrt. }
    exists 2%nat. intros [|[|f]] Hf; try lia.
    rewrite rfc_enc_split. rewrite (pitem_node _ _ _ _ _ b tl Htg E Hb). apply Hp.
  - intros [Htg [Hd Hok]] [Hlen Hlens] Hrt c rest. cbn [rt_ok] in Hrt.
    apply (fold_and_Forall enc_ok) in Hok. apply (fold_and_Forall len_ok) in Hlens.
    apply (fold_and_Forall rt_ok) in Hrt.
    assert (HG : Forall Good items).
    { rewrite Forall_forall in *. intros x Hx. apply IH; auto. }
    assert (HN : Forall nobreak items).
    { rewrite Forall_forall in *. intros x Hx. apply first_byte; auto. }
    unfold CborSpec.two63 in Hd.
    rewrite rfc_enc_arr, canon_arr. destruct (Z.leb_spec 0 d) as [Hd0|Hd0].
    + assert (Ed : d = Z.of_nat (length items)) by lia.
      destruct (items_def items HG c rest) as [f1 H1].
      exists (S (S f1)). intros [|[|f]] Hf; try lia.
      destruct (dec_len_head 128 d (flat_map rfc_enc items ++ rest)) as (b & tl & E & Hb & D);
        [unfold major; lia | unfold maxInt; lia |].
      rewrite (pitem_node _ _ _ _ _ b tl Htg).
      * rewrite pbody_arr_def by lia. rewrite D. rewrite Ed at 1. rewrite H1 by lia. reflexivity.
      * rewrite app_nil_r, <- app_assoc. exact E.
      * consts; lia.
    + destruct (items_indef items HG HN c rest) as [f1 H1].
      exists (S (S f1)). intros [|[|f]] Hf; try lia.
      rewrite (pitem_node _ _ _ _ _ 159 (flat_map rfc_enc items ++ 255 :: rest) Htg).
      * rewrite pbody_arr_indef. rewrite H1 by lia. reflexivity.
      * rewrite <- !app_assoc. reflexivity.
      * reflexivity.
  - intros [Htg [Hd Hok]] [Hlen Hlens] Hrt c rest. cbn [rt_ok] in Hrt.
    apply (fold_and_Forall (fun kv => is_keyable (fst kv) /\ enc_ok (fst kv) /\ enc_ok (snd kv))) in Hok.
    apply (fold_and_Forall (fun kv => len_ok (fst kv) /\ len_ok (snd kv))) in Hlens.
    apply (fold_and_Forall (fun kv => rt_ok (fst kv) /\ rt_ok (snd kv))) in Hrt.
    assert (HG : Forall (fun kv => Good (fst kv) /\ Good (snd kv)) es).
    { rewrite Forall_forall in *. intros x Hx.
      destruct (IH x Hx) as [I1 I2]. destruct (Hok x Hx) as (_ & O1 & O2).
      destruct (Hlens x Hx) as [L1 L2]. destruct (Hrt x Hx) as [R1 R2]. auto. }
    assert (HN : Forall (fun kv => nobreak (fst kv) /\ nobreak (snd kv)) es).
    { rewrite Forall_forall in *. intros x Hx. destruct (Hok x Hx) as (_ & O1 & O2).
      split; apply first_byte; assumption. }
    unfold CborSpec.two63 in Hd.
    rewrite rfc_enc_map, canon_map. destruct (Z.leb_spec 0 d) as [Hd0|Hd0].
    + assert (Ed : d = Z.of_nat (length es)) by lia.
      destruct (pairs_def es HG c rest) as [f1 H1].
      exists (S (S f1)). intros [|[|f]] Hf; try lia.
      destruct (dec_len_head 160 d (flat_map enc_pair es ++ rest)) as (b & tl & E & Hb & D);
        [unfold major; lia | unfold maxInt; lia |].
      rewrite (pitem_node _ _ _ _ _ b tl Htg).
      * rewrite pbody_map_def by lia. rewrite D. rewrite Ed at 1. rewrite H1 by lia. reflexivity.
      * rewrite app_nil_r, <- app_assoc. exact E.
      * consts; lia.
    + destruct (pairs_indef es HG HN c rest) as [f1 H1].
      exists (S (S f1)). intros [|[|f]] Hf; try lia.
      rewrite (pitem_node _ _ _ _ _ 191 (flat_map enc_pair es ++ 255 :: rest) Htg).
      * rewrite pbody_map_indef. rewrite H1 by lia. reflexivity.
      * rewrite <- !app_assoc. reflexivity.
      * reflexivity.
Qed.

(* ====================================================================== *)
(* 3. The theorems                                                         *)
(* ====================================================================== *)

(* fuel-independent form: every sufficiently large fuel works *)
Theorem parse_rfc_enc_fuel : forall n c rest, enc_ok n -> len_ok n -> rt_ok n ->
  exists f0, forall fuel, (f0 <= fuel)%nat ->
    pitem fuel c (rfc_enc n ++ rest) = POk (canon n) rest.
Proof. intros n c rest Hok Hlen Hrt. exact (good_all n Hok Hlen Hrt c rest). Qed.

Theorem parse_rfc_enc_canon : forall n c rest, enc_ok n -> len_ok n -> rt_ok n ->
  exists fuel, pitem fuel c (rfc_enc n ++ rest) = POk (canon n) rest.
Proof.
  intros n c rest Hok Hlen Hrt.
  destruct (parse_rfc_enc_fuel n c rest Hok Hlen Hrt) as [f0 H].
  exists f0. apply H. lia.
Qed.

Theorem parse_rfc_enc_m1 : forall n c rest, enc_ok n -> len_ok n -> rt_ok n -> indef_m1 n ->
  exists fuel, pitem fuel c (rfc_enc n ++ rest) = POk (unsign n) rest.
Proof.
  intros n c rest Hok Hlen Hrt Hm1. rewrite <- (canon_unsign n Hm1).
  apply parse_rfc_enc_canon; assumption.
Qed.

(* why [indef_m1] is needed: the statement with [unsign] and without it fails *)
Example parse_rfc_enc_cex :
  let n0 := Node None (VArr (-2) []) in
  enc_ok n0 /\ len_ok n0 /\ rt_ok n0 /\
  forall fuel c, pitem fuel c (rfc_enc n0 ++ [7]) <> POk (unsign n0) [7].
Proof.
  cbv zeta. split; [|split; [|split]].
  - cbn. unfold CborSpec.two63. lia.
  - cbn. lia.
  - exact I.
  - intros [|[|[|f]]] c; cbn; discriminate.
Qed.

Print Assumptions head_decode.
Print Assumptions parse_rfc_enc_fuel.
Print Assumptions parse_rfc_enc_canon.
Print Assumptions parse_rfc_enc_m1.
Print Assumptions parse_rfc_enc_cex.
