(* ReaderProof.v — the stream reader (Reader.v: readerToScanner +
   SlickReaderStream over a scheduled io.Reader) refines the abstract
   in-memory byte stream, for every data, every fault-free schedule whose runs
   of zero-length reads are shorter than [max_empty], and every sequence of
   reader operations. *)
From Coq Require Import List ZArith Bool Lia.
From Coq Require Import ZifyBool ZifyNat.
Require Import Tok CborDec Reader.
Import ListNotations.
Open Scope Z_scope.

Definition is_fault (e : sched_entry) : bool := match e with SFault => true | _ => false end.
Definition no_faults (sc : list sched_entry) : bool := negb (existsb is_fault sc).

(* every run of consecutive zero-length reads is shorter than [bound] *)
Fixpoint zero_runs_below (bound : nat) (cur : nat) (sc : list sched_entry) : bool :=
  match sc with
  | [] => true
  | SChunk O _ :: rest => Nat.ltb (S cur) bound && zero_runs_below bound (S cur) rest
  | _ :: rest => zero_runs_below bound 0 rest
  end.

(* ---------- schedule invariant, closed under taking tails -------------------- *)

Fixpoint zeros_prefix (sc : list sched_entry) : nat :=
  match sc with
  | SChunk O _ :: r => S (zeros_prefix r)
  | _ => O
  end.

Fixpoint sched_ok (b : nat) (sc : list sched_entry) : Prop :=
  match sc with
  | [] => True
  | e :: r => is_fault e = false /\ (zeros_prefix (e :: r) < b)%nat /\ sched_ok b r
  end.

Lemma zrb_sched_ok : forall b sc cur, (0 < b)%nat ->
  no_faults sc = true -> zero_runs_below b cur sc = true ->
  sched_ok b sc /\ (zeros_prefix sc = 0 \/ zeros_prefix sc + cur < b)%nat.
Proof.
  induction sc as [|e r IH]; intros cur Hb Hnf Hz.
  - simpl. auto.
  - unfold no_faults in Hnf. simpl in Hnf. rewrite negb_orb in Hnf.
    apply andb_true_iff in Hnf. destruct Hnf as [Hf Hnf].
    apply negb_true_iff in Hf.
    destruct e as [n ewd|]; [|discriminate].
    destruct n as [|n].
    + simpl in Hz. apply andb_true_iff in Hz. destruct Hz as [Hlt Hz].
      apply Nat.ltb_lt in Hlt.
      destruct (IH (S cur) Hb Hnf Hz) as [Hok Hzp].
      assert (Hx : (zeros_prefix (SChunk 0 ewd :: r) + cur < b)%nat) by (simpl; lia).
      split; [|right; exact Hx].
      simpl. simpl in Hx. repeat split; auto. lia.
    + simpl in Hz. destruct (IH 0%nat Hb Hnf Hz) as [Hok Hzp].
      split; [|left; reflexivity].
      simpl. repeat split; auto.
Qed.

Lemma sched_ok_zp : forall b sc, (0 < b)%nat -> sched_ok b sc -> (zeros_prefix sc < b)%nat.
Proof.
  intros b [|e r] Hb H.
  - simpl. exact Hb.
  - destruct H as (_ & H & _). exact H.
Qed.

(* ---------- small list facts -------------------------------------------------- *)

Lemma firstn_exact : forall (l r : bytes), firstn (length l) (l ++ r) = l.
Proof. induction l; intros; simpl; [reflexivity|f_equal; auto]. Qed.

Lemma skipn_exact : forall (l r : bytes), skipn (length l) (l ++ r) = r.
Proof. induction l; intros; simpl; auto. Qed.

Lemma last_app_ne : forall (l r : bytes) d, r <> [] -> last (l ++ r) d = last r d.
Proof.
  induction l as [|a l IH]; intros r d Hr; [reflexivity|].
  simpl. destruct (l ++ r) eqn:E.
  - destruct l; simpl in E; [contradiction|discriminate].
  - rewrite <- E. apply IH. exact Hr.
Qed.

(* ---------- the underlying reader -------------------------------------------- *)

Lemma src_read_spec : forall b s k out err s',
  (0 < k)%nat -> sched_ok b (ssched s) ->
  src_read s k = (out, err, s') ->
  sdata s = out ++ sdata s' /\ (length out <= k)%nat /\
  sched_ok b (ssched s') /\ (length (ssched s') <= length (ssched s))%nat /\
  (err = None \/ (err = Some REof /\ sdata s' = [])) /\
  (out = [] -> err = None -> exists e, ssched s = SChunk 0 e :: ssched s').
Proof.
  intros b [d sc] k out err s' Hk Hok H. unfold src_read in H. cbn [sdata ssched] in *.
  destruct d as [|c d].
  - destruct sc as [|[n ewd|] r].
    + inversion H; subst. cbn [sdata ssched app length].
      repeat split; auto; try lia. intros _ Hx; discriminate.
    + destruct Hok as (_ & _ & Hok). destruct n as [|n].
      * inversion H; subst. cbn [sdata ssched app length].
        repeat split; auto; try lia. intros _ _. exists ewd. reflexivity.
      * inversion H; subst. cbn [sdata ssched app length].
        repeat split; auto; try lia. intros _ Hx; discriminate.
    + destruct Hok as (Hf & _). discriminate.
  - destruct sc as [|[n ewd|] r].
    + inversion H; subst. cbn [sdata ssched length].
      split; [symmetry; apply firstn_skipn|].
      split; [rewrite firstn_length; lia|].
      repeat split; auto.
      intros Hx _. destruct k; [lia|discriminate].
    + cbv zeta in H. remember (Nat.min n k) as m eqn:Hm.
      inversion H; subst out err s'; clear H. cbn [sdata ssched length].
      destruct Hok as (_ & _ & Hok).
      split; [symmetry; apply firstn_skipn|].
      split; [rewrite firstn_length; lia|].
      split; [exact Hok|].
      split; [lia|].
      split.
      * destruct (skipn m (c :: d)); [|left; reflexivity].
        destruct (ewd && negb (m =? 0)%nat); [right|left]; auto.
      * intros Hx _. destruct m; [|discriminate].
        assert (n = 0%nat) by lia. subst n. exists ewd. reflexivity.
    + destruct Hok as (Hf & _). discriminate.
Qed.

(* ---------- readerToScanner --------------------------------------------------- *)

(* the abstract remaining bytes of a readerToScanner state *)
Definition abs (z : rts) : bytes := (if rls z =? 1 then [rl z] else []) ++ sdata (rsrc z).

Lemma rts_read_spec : forall b z k out err z',
  (0 < k)%nat -> sched_ok b (ssched (rsrc z)) ->
  rts_read z k = (out, err, z') ->
  abs z = out ++ abs z' /\ (length out <= k)%nat /\
  sched_ok b (ssched (rsrc z')) /\
  (length (ssched (rsrc z')) <= length (ssched (rsrc z)))%nat /\
  (err = None \/ (err = Some REof /\ abs z' = [])) /\
  (out = [] -> err = None -> exists e, ssched (rsrc z) = SChunk 0 e :: ssched (rsrc z')) /\
  (out = [] -> rl z' = rl z /\ rls z' = rls z) /\
  (out <> [] -> rls z' = 2 /\ rl z' = last out 0).
Proof.
  intros b [l st src] k out err z' Hk Hok H.
  unfold rts_read in H. unfold abs. cbn [rl rls rsrc] in *.
  destruct (st =? 1) eqn:E.
  - destruct (k =? 1)%nat eqn:Ek.
    + inversion H; subst out err z'; clear H. cbn [rl rls rsrc].
      change (2 =? 1) with false. cbn [app length].
      repeat split; auto; try lia; try discriminate.
    + destruct (src_read src (k - 1)) as [[o e] s1] eqn:Hs.
      apply src_read_spec with (b := b) in Hs; [|lia|assumption].
      destruct Hs as (Hd & Hl & Hok' & Hlen & He & Hz).
      destruct o as [|c o].
      * inversion H; subst out err z'; clear H. cbn [rl rls rsrc].
        change (2 =? 1) with false. cbn [app length] in *.
        rewrite Hd.
        repeat split; auto; try lia; try discriminate.
      * inversion H; subst out err z'; clear H. cbn [rl rls rsrc].
        change (2 =? 1) with false. cbn [app] in *.
        rewrite Hd.
        split; [reflexivity|].
        split; [cbn [length] in *; lia|].
        split; [exact Hok'|].
        split; [exact Hlen|].
        split.
        { destruct He as [->|[-> Hn]]; [left; reflexivity|].
          match goal with |- context [if ?x then None else _] => destruct x end; [left|right]; auto. }
        split; [intros; discriminate|].
        split; [intros; discriminate|].
        intros _. split; reflexivity.
  - destruct (src_read src k) as [[o e] s1] eqn:Hs.
    apply src_read_spec with (b := b) in Hs; [|lia|assumption].
    destruct Hs as (Hd & Hl & Hok' & Hlen & He & Hz).
    destruct o as [|c o].
    + inversion H; subst out err z'; clear H. cbn [rl rls rsrc].
      rewrite E. cbn [app length] in *.
      repeat split; auto; try lia; try (exfalso; auto; fail).
    + inversion H; subst out err z'; clear H. cbn [rl rls rsrc].
      change (2 =? 1) with false. cbn [app] in *.
      split; [exact Hd|].
      split; [exact Hl|].
      split; [exact Hok'|].
      split; [exact Hlen|].
      split.
      { destruct He as [->|[-> Hn]]; [left; reflexivity|].
        match goal with |- context [if ?x then None else _] => destruct x end; [left|right]; auto. }
      split; [intros; discriminate|].
      split; [intros; discriminate|].
      intros _. split; reflexivity.
Qed.

Lemma readbyte_spec : forall b fuel z r z',
  sched_ok b (ssched (rsrc z)) -> (zeros_prefix (ssched (rsrc z)) < fuel)%nat ->
  rts_readbyte fuel z = (r, z') ->
  match abs z with
  | [] => r = inr REof
  | c :: rest => r = inl c /\ abs z' = rest /\ rls z' = 2 /\ rl z' = c /\
                 sched_ok b (ssched (rsrc z'))
  end.
Proof.
  induction fuel as [|f IH]; intros z r z' Hok Hzp H; [lia|].
  cbn [rts_readbyte] in H.
  destruct (rts_read z 1) as [[out err] z1] eqn:Hr.
  apply rts_read_spec with (b := b) in Hr; [|lia|assumption].
  destruct Hr as (Ha & Hl & Hok1 & Hlen & He & Hz & Hsame & Hnew).
  destruct out as [|c o].
  - cbn [app] in Ha. destruct He as [->|[-> Hn]].
    + destruct (Hz eq_refl eq_refl) as [e0 Hs]. rewrite Ha. apply IH; auto.
      rewrite Hs in Hzp. cbn [zeros_prefix] in Hzp. lia.
    + inversion H; subst. rewrite Ha, Hn. reflexivity.
  - inversion H; subst r z'; clear H.
    destruct o as [|c2 o]; [|cbn [length] in Hl; lia].
    rewrite Ha. cbn [app].
    destruct Hnew as [Hx Hy]; [discriminate|].
    repeat split; auto.
Qed.

(* ---------- io.ReadAtLeast ---------------------------------------------------- *)

Lemma ral_spec : forall b fuel z k got orig res err z',
  (0 < k)%nat -> sched_ok b (ssched (rsrc z)) ->
  orig = got ++ abs z -> (length got <= k)%nat ->
  (got <> [] -> rls z = 2 /\ rl z = last got 0) ->
  (length (ssched (rsrc z)) + (k - length got) < fuel)%nat ->
  read_at_least fuel z k got = (res, err, z') ->
  ((k <= length orig)%nat ->
     res = firstn k orig /\ err = None /\ abs z' = skipn k orig /\
     rls z' = 2 /\ rl z' = last res 0 /\ sched_ok b (ssched (rsrc z'))) /\
  ((length orig < k)%nat ->
     res = orig /\ err = Some (match orig with [] => REof | _ => RUnexpectedEof end)).
Proof.
  induction fuel as [|f IH]; intros z k got orig res err z' Hk Hok Ho Hg Hinv Hm H; [lia|].
  cbn [read_at_least] in H.
  destruct (k <=? length got)%nat eqn:Ek.
  - apply Nat.leb_le in Ek. assert (Hlen : length got = k) by lia.
    inversion H; subst res err z'; clear H.
    assert (Hne : got <> []) by (destruct got; [cbn [length] in Hlen; lia|discriminate]).
    subst orig. split.
    + intros _. rewrite <- Hlen. rewrite firstn_exact, skipn_exact.
      destruct (Hinv Hne) as [Hx Hy]. repeat split; auto.
    + intros Hc. rewrite app_length in Hc. lia.
  - apply Nat.leb_gt in Ek.
    destruct (rts_read z (k - length got)) as [[out e] z1] eqn:Hr.
    apply rts_read_spec with (b := b) in Hr; [|lia|assumption].
    destruct Hr as (Ha & Hl & Hok1 & Hlen & He & Hz & Hsame & Hnew).
    assert (Ho' : orig = (got ++ out) ++ abs z1) by (rewrite <- app_assoc, <- Ha; exact Ho).
    assert (Hg' : (length (got ++ out) <= k)%nat) by (rewrite app_length; lia).
    assert (Hinv' : got ++ out <> [] -> rls z1 = 2 /\ rl z1 = last (got ++ out) 0).
    { destruct out as [|c o].
      - rewrite app_nil_r. intros Hne. destruct (Hsame eq_refl) as [-> ->]. auto.
      - intros _. rewrite last_app_ne by discriminate. apply Hnew. discriminate. }
    destruct He as [->|[-> Hn]].
    + apply (IH z1 k (got ++ out) orig res err z'); auto.
      destruct out as [|c o].
      * destruct (Hz eq_refl eq_refl) as [e0 Hs]. rewrite Hs in Hm.
        rewrite app_nil_r. cbn [length] in Hm. lia.
      * rewrite app_length. cbn [length] in *. lia.
    + rewrite Hn, app_nil_r in Ho'.
      destruct (k <=? length (got ++ out))%nat eqn:Ek2.
      * apply Nat.leb_le in Ek2. inversion H; subst res err z'; clear H.
        assert (Hlen2 : length (got ++ out) = k) by lia.
        assert (Hne : got ++ out <> []).
        { destruct (got ++ out); [cbn [length] in Hlen2; lia|discriminate]. }
        rewrite Ho'. split.
        -- intros _. rewrite <- Hlen2. rewrite firstn_all, skipn_all.
           destruct (Hinv' Hne) as [Hx Hy]. repeat split; auto.
        -- intros Hc. lia.
      * apply Nat.leb_gt in Ek2. inversion H; subst res err z'; clear H.
        rewrite Ho'. split.
        -- intros Hc. lia.
        -- intros _. split; [reflexivity|]. destruct (got ++ out); reflexivity.
Qed.

(* ---------- SlickReaderStream vs. the abstract stream ------------------------- *)

Definition R (b : nat) (s : slick) (a : astream) : Prop :=
  arest a = abs (sz s) /\
  alast a = (if rls (sz s) =? 2 then Some (rl (sz s)) else None) /\
  snum s = anum a /\ strack s = atrack a /\ stracking s = atracking a /\
  sched_ok b (ssched (rsrc (sz s))).

Lemma step_cons : forall (o : rout) (p : list rout * slick) (q : list rout * astream),
  (fst p = fst q /\ snum (snd p) = anum (snd q)) ->
  fst (let '(l, s2) := p in (o :: l, s2)) = fst (let '(l, s2) := q in (o :: l, s2)) /\
  snum (snd (let '(l, s2) := p in (o :: l, s2))) = anum (snd (let '(l, s2) := q in (o :: l, s2))).
Proof. intros o [l1 s1] [l2 s2]; simpl; intros [-> ->]; auto. Qed.

Lemma slick_readb_pos : forall fuel s k, (0 < k)%nat ->
  slick_readb fuel s k =
  let '(got, err, z') := read_at_least fuel (sz s) k [] in
  let s' := Slick z' (snum s + Z.of_nat (length got))
                  (if stracking s then strack s ++ got else strack s) (stracking s) in
  match err with None => (inl got, s') | Some e => (inr e, s') end.
Proof. intros fuel s [|k] Hk; [lia|reflexivity]. Qed.

Lemma run_ops_abs_readb : forall s k rest, (0 < k)%nat ->
  run_ops_abs s (OpReadb k :: rest) =
  if Nat.leb k (length (arest s)) then
    let got := firstn k (arest s) in
    let '(o, s2) := run_ops_abs (AStr (skipn k (arest s)) (Some (last got 0)) (anum s + Z.of_nat k)
                                      (if atracking s then atrack s ++ got else atrack s) (atracking s)) rest in
    (OBytes got :: o, s2)
  else ([OErr (match arest s with [] => REof | _ => RUnexpectedEof end)],
        AStr [] None (anum s + Z.of_nat (length (arest s)))
             (if atracking s then atrack s ++ arest s else atrack s) (atracking s)).
Proof. intros s [|k] rest Hk; [lia|reflexivity]. Qed.

Lemma max_empty_pos : (0 < max_empty)%nat.
Proof. unfold max_empty. lia. Qed.

Lemma run_ops_refines : forall ops s a, R max_empty s a ->
  fst (run_ops s ops) = fst (run_ops_abs a ops) /\
  snum (snd (run_ops s ops)) = anum (snd (run_ops_abs a ops)).
Proof.
  induction ops as [|op rest IH]; intros s a HR.
  - destruct HR as (_ & _ & Hn & _). simpl. auto.
  - destruct s as [z n t tg]. destruct a as [ar al an at_ atg].
    destruct HR as (Hr & Hl & Hn & Ht & Htg & Hok). cbn [sz snum strack stracking arest alast anum atrack atracking] in *.
    subst ar al an at_ atg.
    destruct op as [|k| | |];
      [cbn [run_ops run_ops_abs arest alast anum atrack atracking]
      |
      |cbn [run_ops run_ops_abs arest alast anum atrack atracking]..].
    + (* OpRead1 *)
      unfold slick_readn1. cbn [sz snum strack stracking].
      destruct (rts_readbyte max_empty z) as [r z1] eqn:Hb.
      apply readbyte_spec with (b := max_empty) in Hb;
        [|assumption|apply sched_ok_zp; [apply max_empty_pos|assumption]].
      revert Hb. destruct (abs z) as [|c more]; intros Hb.
      * subst r. simpl. auto.
      * destruct Hb as (-> & Hab & Hrls & Hrl & Hok1).
        apply step_cons. apply IH.
        unfold R. cbn [sz snum strack stracking arest alast anum atrack atracking].
        rewrite Hrls, Hrl. change (2 =? 2) with true. cbv iota.
        repeat split; auto.
    + (* OpReadb *)
      destruct k as [|k'].
      * cbn [run_ops run_ops_abs slick_readb]. apply step_cons. apply IH.
        unfold R. cbn [sz snum strack stracking arest alast anum atrack atracking].
        repeat split; auto.
      * remember (S k') as k eqn:Hk.
        assert (Hkpos : (0 < k)%nat) by lia.
        rewrite run_ops_abs_readb by assumption. cbn [run_ops].
        rewrite slick_readb_pos by assumption.
        cbn [sz snum strack stracking arest alast anum atrack atracking].
        destruct (read_at_least (S (length (ssched (rsrc z))) + k + 2) z k []) as [[got err] z1] eqn:Hral.
        apply ral_spec with (b := max_empty) (orig := abs z) in Hral; auto;
          [|cbn [length]; lia|intros Hx; contradiction|cbn [length]; lia].
        destruct Hral as [Hyes Hno].
        destruct (k <=? length (abs z))%nat eqn:Ek.
        -- apply Nat.leb_le in Ek.
           destruct (Hyes Ek) as (-> & -> & Hab & Hrls & Hrl & Hok1).
           cbv zeta.
           assert (Hfl : length (firstn k (abs z)) = k) by (rewrite firstn_length; lia).
           apply step_cons. apply IH.
           unfold R. cbn [sz snum strack stracking arest alast anum atrack atracking].
           rewrite Hrls, Hrl, Hfl. change (2 =? 2) with true. cbv iota.
           repeat split; auto.
        -- apply Nat.leb_gt in Ek.
           destruct (Hno Ek) as (-> & ->).
           simpl. split; reflexivity.
    + (* OpUnread *)
      unfold slick_unreadn1, rts_unread. cbn [sz snum strack stracking].
      destruct (rls z =? 2) eqn:E.
      * apply step_cons. apply IH.
        unfold R. cbn [sz snum strack stracking arest alast anum atrack atracking rl rls rsrc].
        unfold abs. cbn [rl rls rsrc].
        change (1 =? 1) with true. change (1 =? 2) with false. cbv iota.
        assert (E1 : (rls z =? 1) = false) by lia. rewrite E1.
        repeat split; auto.
      * simpl. split; reflexivity.
    + (* OpTrack *)
      apply step_cons. apply IH.
      unfold R, slick_track. cbn [sz snum strack stracking arest alast anum atrack atracking].
      repeat split; auto.
    + (* OpStopTrack *)
      unfold slick_stoptrack.
      apply step_cons. apply IH.
      unfold R. cbn [sz snum strack stracking arest alast anum atrack atracking].
      repeat split; auto.
Qed.

(* STATEMENT TO PROVE (do not change it) *)

Theorem reader_refines_stream : forall data sched ops,
  no_faults sched = true -> zero_runs_below max_empty 0 sched = true ->
  fst (run_ops (slick_init data sched) ops) = fst (run_ops_abs (astream_init data) ops) /\
  snum (snd (run_ops (slick_init data sched) ops)) = anum (snd (run_ops_abs (astream_init data) ops)).
Proof.
  intros data sched ops Hnf Hz.
  apply run_ops_refines.
  unfold R, slick_init, astream_init, abs.
  cbn [sz snum strack stracking arest alast anum atrack atracking rl rls rsrc sdata ssched].
  change (0 =? 1) with false. change (0 =? 2) with false. cbn [app].
  repeat split; auto.
  destruct (zrb_sched_ok max_empty sched 0%nat max_empty_pos Hnf Hz) as [Hok _].
  exact Hok.
Qed.

Print Assumptions reader_refines_stream.
