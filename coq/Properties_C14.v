(* Properties_C14.v — C14: encoders accept exactly the well-formed token
   sequences of their format.  Statements only; proofs in EncAccept.v and
   TokGrammarProof.v. *)
From Coq Require Import List ZArith.
Require Import Tok TokGrammar CborEnc JsonEnc Pretty EncAccept.
Import ListNotations.
Open Scope Z_scope.

(* For EVERY token sequence each encoder's verdict — which token it stops at
   and whether that is completion or an error — is the specification
   machine's verdict; the agreement relations have no panic case. *)
Theorem C14_cbor : forall ts, cbor_run_agrees (enc_tokens ts) (ctx_run key_cbor [] ts 0).
Proof. exact cbor_encoder_accepts_grammar. Qed.
Print Assumptions C14_cbor.

Theorem C14_json : forall shortest opts ts,
  Forall (fun t => json_repr (tv t) = true) ts ->
  json_run_agrees (jenc_tokens shortest opts ts) (ctx_run key_json [] ts 0).
Proof. exact json_encoder_accepts_grammar. Qed.
Print Assumptions C14_json.

Theorem C14_json_unrepresentable_token_is_error : forall shortest opts s t,
  jinv_gen (jcur s) (jstack s) -> json_repr (tv t) = false ->
  let '(_, _, r) := jenc_step shortest opts s t in r = RErr.
Proof. exact json_unrepresentable_is_error. Qed.

Theorem C14_json_never_panics : forall shortest opts s t,
  jinv_gen (jcur s) (jstack s) ->
  let '(_, _, r) := jenc_step shortest opts s t in r <> RPanic.
Proof. exact json_step_no_panic. Qed.

Theorem C14_pretty : forall ts, pretty_run_agrees (penc_tokens ts) (ctx_run key_cbor [] ts 0).
Proof. exact pretty_encoder_accepts_grammar. Qed.
Print Assumptions C14_pretty.

(* non-vacuity: a sequence every encoder completes exactly on its last token,
   and one each rejects at the stray close *)
Example C14_example_accept :
  ctx_run key_json [] [Tok (MapOpen (-1)) None; Tok (Str [107]) None; Tok (ArrOpen 0) (Some 7); Tok ArrClose None; Tok MapClose None] 0 = CRDone 5.
Proof. reflexivity. Qed.
Example C14_example_reject :
  ctx_run key_cbor [] [Tok (MapOpen (-1)) None; Tok ArrClose None] 0 = CRErr 2.
Proof. reflexivity. Qed.

(* ---------- the specification machine is the token grammar ---------------- *)
Require Import TokGrammarProof.

(* done exactly at the end of the rendering of a value tree ... *)
Theorem C14_grammar_accepts : forall key_ok n rest k,
  wf_keys key_ok n -> ctx_run key_ok [] (flatten n ++ rest) k = CRDone (k + length (flatten n)).
Proof. exact ctx_accepts_flatten. Qed.
Print Assumptions C14_grammar_accepts.

(* ... and only then: whenever done is signalled the tokens consumed are the
   rendering of a value tree (tags on close tokens are ignored) *)
Theorem C14_grammar_done_only_on_values : forall key_ok ts k used,
  ctx_run key_ok [] ts k = CRDone used ->
  exists n, wf_keys key_ok n /\ (used = k + length (flatten n))%nat /\
            map norm_tok (firstn (length (flatten n)) ts) = flatten n.
Proof. exact ctx_done_is_value. Qed.
Print Assumptions C14_grammar_done_only_on_values.

(* a sequence consumed without done or error can be completed to a value *)
Theorem C14_grammar_unrejected_is_viable : forall key_ok ts k c,
  ctx_run key_ok [] ts k = CRStarved c ->
  exists suffix n, wf_keys key_ok n /\ map norm_tok (ts ++ suffix) = flatten n.
Proof. exact ctx_starved_is_viable. Qed.

(* the error comes at the first token that cannot continue any value *)
Theorem C14_grammar_error_is_first_nonviable : forall key_ok ts k used,
  ctx_run key_ok [] ts k = CRErr used ->
  ~ exists suffix n, wf_keys key_ok n /\ map norm_tok (firstn (used - k) ts ++ suffix) = flatten n.
Proof. exact ctx_err_not_viable. Qed.
Print Assumptions C14_grammar_error_is_first_nonviable.
