(* Properties_C05.v — C05: the JSON decoder agrees with RFC 8259 (plus the
   trailing-comma leniency).  Statements are added as the proofs land. *)
From Coq Require Import List ZArith.
Require Import Tok JsonDec.
Import ListNotations.
Open Scope Z_scope.

(* sanity, evaluated by the kernel: misspelt literals, malformed numbers and
   non-string keys are rejected; the trailing comma is accepted *)
Example C05_nxyz_rejected : match jdec_run [110;120;121;122] with JDFail _ _ => True | _ => False end.
Proof. vm_compute. exact I. Qed.
Example C05_one_dot_rejected : match jdec_run [91;49;46;93] with JDFail _ _ => True | _ => False end.
Proof. vm_compute. exact I. Qed.
Example C05_int_key_rejected : match jdec_run [123;49;58;50;125] with JDFail _ _ => True | _ => False end.
Proof. vm_compute. exact I. Qed.
Example C05_trailing_comma_accepted :
  jdec_run [91;49;44;93] = JDOk [Tok (ArrOpen (-1)) None; Tok (Int 1) None; Tok ArrClose None] [].
Proof. vm_compute. reflexivity. Qed.
