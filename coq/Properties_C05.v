(* Properties_C05.v — C05: the JSON decoder agrees with RFC 8259 (plus the
   trailing-comma leniency).  [jparse_item lenient] (JsonParse.v) is the
   recursive-descent reading of the RFC 8259 grammar; [jdec_run] (JsonDec.v)
   is the decoder automaton that is compared with the Go code.  The reading
   itself is validated against Go's encoding/json on every check run.
   Statements only; proofs in JsonDecProof.v. *)
From Coq Require Import List ZArith.
Require Import JsonFloat FloatProof.
Require Import Tok CborDec CborParse JsonDec JsonParse JsonDecProof.
Import ListNotations.
Open Scope Z_scope.

(* Every text the STRICT RFC 8259 reading accepts is decoded to exactly the
   tokens of the value it denotes, leaving exactly the rest ... *)
Theorem C05_complete_strict : forall fuel bs n rest,
  jpvalue fuel false bs = POk n rest -> jdec_run bs = JDOk (flatten n) rest.
Proof. intros fuel bs n rest H. apply (jdec_complete fuel). apply strict_implies_lenient. exact H. Qed.
Print Assumptions C05_complete_strict.

(* ... the decoder accepts exactly what the lenient reading (strict + optional
   ',' before a closing bracket) accepts, with the same value ... *)
Theorem C05_complete : forall fuel bs n rest,
  jpvalue fuel true bs = POk n rest -> jdec_run bs = JDOk (flatten n) rest.
Proof. exact jdec_complete. Qed.
Theorem C05_sound : forall bs toks rest,
  jdec_run bs = JDOk toks rest -> exists n, jparse_item true bs = POk n rest /\ toks = flatten n.
Proof. exact jdec_sound. Qed.
Print Assumptions C05_sound.

(* ... and everything else is an error (misspelt literals, malformed numbers,
   non-string keys, missing separators, unterminated documents). *)
Theorem C05_rejects : forall fuel bs e,
  jpvalue fuel true bs = PErr e -> exists toks, jdec_run bs = JDFail e toks.
Proof. exact jdec_error. Qed.
Theorem C05_error_only_if_invalid : forall bs e toks,
  jdec_run bs = JDFail e toks -> jparse_item true bs = PErr e.
Proof. exact jdec_rejects. Qed.
Print Assumptions C05_error_only_if_invalid.

Theorem C05_spec_total : forall l bs, jparse_item l bs <> PFuel.
Proof. exact jparse_item_total. Qed.
Theorem C05_decoder_total : forall bs,
  (exists toks rest, jdec_run bs = JDOk toks rest) \/ (exists e toks, jdec_run bs = JDFail e toks).
Proof. exact jdec_total. Qed.
Print Assumptions C05_decoder_total.

(* sanity, evaluated by the kernel *)
Example C05_nxyz_rejected : match jdec_run [110;120;121;122] with JDFail _ _ => True | _ => False end.
Proof. vm_compute. exact I. Qed.
Example C05_one_dot_rejected : match jdec_run [91;49;46;93] with JDFail _ _ => True | _ => False end.
Proof. vm_compute. exact I. Qed.
Example C05_int_key_rejected : match jdec_run [123;49;58;50;125] with JDFail _ _ => True | _ => False end.
Proof. vm_compute. exact I. Qed.
Example C05_trailing_comma_accepted :
  jdec_run [91;49;44;93] = JDOk [Tok (ArrOpen (-1)) None; Tok (Int 1) None; Tok ArrClose None] [].
Proof. vm_compute. reflexivity. Qed.
Example C05_trailing_comma_not_strict :
  match jparse_item false [91;49;44;93] with PErr _ => True | _ => False end.
Proof. vm_compute. exact I. Qed.

(* Numbers: the decimal -> float64 conversion the decoder model uses (JsonFloat.nearest, what strconv.ParseFloat
   computes) is the correctly rounded IEEE-754 binary64 value — nearest among all finite patterns, ties to even,
   overflow exactly from the midpoint 2^1024 - 2^970 on — for every mantissa m and decimal exponent e10
   (nd = number of digits of m).  [is_rne64 num den b] is stated by cross-multiplied integer inequalities. *)
Theorem C05_decimal_to_float64_correctly_rounded : forall neg m e10 nd,
  0 <= m -> (0 < m -> 10 ^ (nd - 1) <= m < 10 ^ nd) ->
  match nearest neg m e10 nd with
  | FBits b => exists b0, b = (if neg then b0 + SIGN64 else b0) /\ 0 <= b0 < INF64 /\
                 (m = 0 -> b0 = 0) /\
                 (0 < m -> is_rne64 (dec_num m e10) (dec_den e10) b0)
  | FRange => 0 < m /\ ovf64 * dec_den e10 <= dec_num m e10
  end.
Proof. exact nearest_correct. Qed.
Theorem C05_correct_rounding_is_unique : forall num den b1 b2, 0 < den ->
  is_rne64 num den b1 -> is_rne64 num den b2 -> b1 = b2.
Proof. exact is_rne64_unique. Qed.
Print Assumptions C05_decimal_to_float64_correctly_rounded.
