(* PumpStream.v — a converter that reads document after document: ONE decoder and ONE encoder, Reset before each
   document (C10 over streams, with C17).  By Reuse.v a call on a reused decoder / encoder is the call on a fresh one
   over the remaining input, so the k-th document of a stream is pumped by the pump function applied to what the
   earlier calls left unread: [pump_many].  The theorems say that a stream of documents, each of which transcodes on
   its own, transcodes document by document to the same outputs, each call consuming exactly its own document. *)
From Coq Require Import List ZArith Bool Lia.
Require Import Tok CborEnc CborDec JsonEnc JsonDec Pump JsonNumProof TranscodeProof.
Import ListNotations.
Open Scope Z_scope.

Fixpoint pump_many (pump : bytes -> pump_res) (k : nat) (bs : bytes) : option (list bytes * bytes) :=
  match k with
  | O => Some ([], bs)
  | S k' =>
      match pump bs with
      | PumpOk out rest =>
          match pump_many pump k' rest with
          | Some (outs, r) => Some (out :: outs, r)
          | None => None
          end
      | PumpErr => None
      end
  end.

(* a pump whose verdict on a document does not depend on what follows it *)
Definition framed (pump : bytes -> pump_res) (doc out : bytes) : Prop :=
  forall ext, pump (doc ++ ext) = PumpOk out ext.

Theorem pump_many_concat : forall pump (docs : list (bytes * bytes)) tail,
  Forall (fun d => framed pump (fst d) (snd d)) docs ->
  pump_many pump (length docs) (concat (map fst docs) ++ tail) = Some (map snd docs, tail).
Proof.
  intros pump docs tail H. induction H as [|[d o] r Hd _ IH]; [reflexivity|].
  cbn [fst snd] in Hd. cbn [length map concat fst snd pump_many]. rewrite <- app_assoc.
  rewrite (Hd (concat (map fst r) ++ tail)). rewrite IH. reflexivity.
Qed.

(* CBOR sources: every document that transcodes alone (leaving nothing) is framed *)
Lemma c2j_framed sh o c doc out : pump_c2j sh o c doc = PumpOk out [] -> framed (pump_c2j sh o c) doc out.
Proof.
  unfold pump_c2j. intros H ext. destruct (dec_run c doc) as [toks rest a| | |] eqn:D; try discriminate.
  destruct (dec_run_frame _ _ _ _ _ ext D) as (a' & ->).
  destruct (jenc_tokens sh o toks) as [chunks n| | |]; try discriminate.
  destruct (Nat.eqb n (length toks)); [|discriminate]. inversion H; subst. reflexivity.
Qed.
Lemma c2c_framed c doc out : pump_c2c c doc = PumpOk out [] -> framed (pump_c2c c) doc out.
Proof.
  unfold pump_c2c. intros H ext. destruct (dec_run c doc) as [toks rest a| | |] eqn:D; try discriminate.
  destruct (dec_run_frame _ _ _ _ _ ext D) as (a' & ->).
  destruct (enc_tokens toks) as [chunks n| | |]; try discriminate.
  destruct (Nat.eqb n (length toks)); [|discriminate]. inversion H; subst. reflexivity.
Qed.

Theorem cbor_stream_to_json : forall sh o c (docs : list (bytes * bytes)) tail,
  Forall (fun d => pump_c2j sh o c (fst d) = PumpOk (snd d) []) docs ->
  pump_many (pump_c2j sh o c) (length docs) (concat (map fst docs) ++ tail) = Some (map snd docs, tail).
Proof.
  intros sh o c docs tail H. apply pump_many_concat. eapply Forall_impl; [|exact H].
  intros d Hd. apply c2j_framed. exact Hd.
Qed.
Theorem cbor_stream_to_cbor : forall c (docs : list (bytes * bytes)) tail,
  Forall (fun d => pump_c2c c (fst d) = PumpOk (snd d) []) docs ->
  pump_many (pump_c2c c) (length docs) (concat (map fst docs) ++ tail) = Some (map snd docs, tail).
Proof.
  intros c docs tail H. apply pump_many_concat. eapply Forall_impl; [|exact H].
  intros d Hd. apply c2c_framed. exact Hd.
Qed.

(* JSON sources: a document that is not a bare number is self-delimiting (a bare number needs a terminator: "1" then "2"
   is "12"), so such documents may even follow one another without a separator *)
Definition self_delimiting (doc : bytes) : Prop :=
  exists toks, jdec_run doc = JDOk toks [] /\ ~ bare_number toks.

Lemma j2c_framed doc out : self_delimiting doc -> pump_j2c doc = PumpOk out [] -> framed pump_j2c doc out.
Proof.
  intros (toks & D & Hn) H ext. unfold pump_j2c in *. rewrite D in H.
  rewrite (jdec_run_frame doc toks [] ext D) by (intros _ Hb; contradiction).
  destruct (enc_tokens toks) as [chunks n| | |]; try discriminate.
  destruct (Nat.eqb n (length toks)); [|discriminate]. inversion H; subst. reflexivity.
Qed.
Lemma j2j_framed sh o doc out : self_delimiting doc -> pump_j2j sh o doc = PumpOk out [] -> framed (pump_j2j sh o) doc out.
Proof.
  intros (toks & D & Hn) H ext. unfold pump_j2j in *. rewrite D in H.
  rewrite (jdec_run_frame doc toks [] ext D) by (intros _ Hb; contradiction).
  destruct (jenc_tokens sh o toks) as [chunks n| | |]; try discriminate.
  destruct (Nat.eqb n (length toks)); [|discriminate]. inversion H; subst. reflexivity.
Qed.

Theorem json_stream_to_cbor : forall (docs : list (bytes * bytes)) tail,
  Forall (fun d => self_delimiting (fst d) /\ pump_j2c (fst d) = PumpOk (snd d) []) docs ->
  pump_many pump_j2c (length docs) (concat (map fst docs) ++ tail) = Some (map snd docs, tail).
Proof.
  intros docs tail H. apply pump_many_concat. eapply Forall_impl; [|exact H].
  intros d (Hs & Hd). apply j2c_framed; assumption.
Qed.
Theorem json_stream_to_json : forall sh o (docs : list (bytes * bytes)) tail,
  Forall (fun d => self_delimiting (fst d) /\ pump_j2j sh o (fst d) = PumpOk (snd d) []) docs ->
  pump_many (pump_j2j sh o) (length docs) (concat (map fst docs) ++ tail) = Some (map snd docs, tail).
Proof.
  intros sh o docs tail H. apply pump_many_concat. eapply Forall_impl; [|exact H].
  intros d (Hs & Hd). apply j2j_framed; assumption.
Qed.

(* kernel-evaluated: three CBOR documents to JSON, two JSON documents to CBOR; and the bare-number caveat *)
Example cbor_stream_example :
  pump_many (pump_c2j (fun _ => ([], 0)) {| jline := None; jindent := [] |} false) 3 [1; 130; 1; 2; 97; 120; 255] =
  Some ([[49]; [91; 49; 44; 50; 93]; [34; 120; 34]], [255]).
Proof. vm_compute. reflexivity. Qed.
Example json_stream_example :
  pump_many pump_j2c 2 [91; 49; 93; 34; 120; 34; 125] = Some ([[159; 1; 255]; [97; 120]], [125]) /\
  pump_many pump_j2c 2 [49; 50] = None.
Proof. vm_compute. split; reflexivity. Qed.
