(* FloatConv.v — numeric conversions the object layer performs through reflect:
   integer -> float64 (Go's float64(i), round to nearest even) and
   float64 -> float32 -> float64 (reflect.Value.SetFloat on a float32 kind, then
   Value.Float).  Exact integer arithmetic; validated against the Go runtime
   by the correspondence runs (see DESIGN.md section 4). *)
From Coq Require Import List ZArith Bool Lia.
Require Import Tok JsonFloat CborDec.
Import ListNotations.
Open Scope Z_scope.

(* float64(i) for an integer i *)
Definition int_to_f64 (z : Z) : Z :=
  match nearest (z <? 0) (Z.abs z) 0 (ndigits_fuel 25 (Z.abs z)) with
  | FBits b => b
  | FRange => 0
  end.

(* nearest float32 (as float32 bits, sign clear) of num/den > 0 *)
Definition nearest_f32_pos (num den : Z) : Z :=
  let g := Z.log2 num - Z.log2 den in
  let e2 := if (if 0 <=? g then num <? den * 2 ^ g else num * 2 ^ (- g) <? den) then g - 1 else g in
  let e2' := Z.max e2 (-126) in
  let s := 23 - e2' in
  let q := if 0 <=? s then div_rne (num * 2 ^ s) den else div_rne num (den * 2 ^ (- s)) in
  let bits := if q <? 8388608 then q else (e2' + 126) * 8388608 + q in
  if 2139095040 <=? bits then 2139095040 else bits.       (* overflow -> +Inf *)

(* float64 bits -> float32 bits (Go's float32(x)) *)
Definition f64_to_f32 (b : Z) : Z :=
  let s := Z.shiftr b 63 in
  let e := Z.land (Z.shiftr b 52) 2047 in
  let m := Z.land b 4503599627370495 in
  let sign := Z.shiftl s 31 in
  if e =? 2047 then
    if m =? 0 then Z.lor sign 2139095040
    else Z.lor sign (Z.lor 2139095040 (Z.lor 4194304 (Z.shiftr m 29)))     (* NaN: quiet, payload truncated *)
  else if (e =? 0) && (m =? 0) then sign
  else
    let mant := if e =? 0 then m else m + 4503599627370496 in
    let ex := (if e =? 0 then 1 else e) - 1075 in                          (* value = mant * 2^ex *)
    let num := if 0 <=? ex then mant * 2 ^ ex else mant in
    let den := if 0 <=? ex then 1 else 2 ^ (- ex) in
    Z.lor sign (nearest_f32_pos num den).

(* what a float32 variable holds after SetFloat(x), read back with Float() *)
Definition round32 (b : Z) : Z := single_to_double (f64_to_f32 b).
