(* CborParse.v — the reference reading of a CBOR byte string (RFC 7049 §2,
   restricted to refmt's supported subset) as a recursive-descent function
   producing a value tree.  This is the specification the decoder automaton
   (CborDec.v) is proved equivalent to: it has no phases, no stack and no
   countdown list — just the grammar

     item   ::= [tag] body                       (one tag level)
     body   ::= uint | negint | bytes | text | float | false | true | null | undefined(opt)
              | array(n) item^n | array-indef item* break
              | map(n) (item item)^n | map-indef (item item)* break
     bytes  ::= head(2,n) byte^n | 0x5f (head(2,n) byte^n)* break      (same for text, major 3)

   Terminals (heads, floats, strings) use the flat decoding functions of
   CborDec.v; they are characterised against the relational head spec in
   CborDecProof.v. *)
From Coq Require Import List ZArith Bool Lia.
Require Import Tok CborSpec CborEnc CborDec.
Import ListNotations.
Open Scope Z_scope.

Inductive pres (A : Type) :=
| POk (a : A) (rest : bytes)
| PErr (e : derr)
| PFuel.
Arguments POk {A}. Arguments PErr {A}. Arguments PFuel {A}.

Definition is_tag_byte (mb : Z) : bool := (majTag <=? mb) && (mb <? majSimple).

Definition pscalar (tg : option Z) (f : bytes -> tval) (r : (bytes * bytes) + derr) : pres tnode :=
  match r with inl (a, rest) => POk (Node tg (f a)) rest | inr e => PErr e end.

Fixpoint pitem (fuel : nat) (coerce : bool) (bs : bytes) : pres tnode :=
  match fuel with
  | O => PFuel
  | S f =>
    match bs with
    | [] => PErr EEof
    | mb :: r =>
      if is_tag_byte mb then
        match dec_len mb r with
        | inr e => PErr e
        | inl (t, r1) =>
          match r1 with
          | [] => PErr EEof
          | mb2 :: r2 => if is_tag_byte mb2 then PErr EMalformed else pbody f coerce mb2 (Some t) r2
          end
        end
      else pbody f coerce mb None r
    end
  end
with pbody (fuel : nat) (coerce : bool) (mb : Z) (tg : option Z) (bs : bytes) : pres tnode :=
  match fuel with
  | O => PFuel
  | S f =>
    if mb =? sigNil then POk (Node tg VNull) bs
    else if mb =? sigUndef then (if coerce then POk (Node tg VNull) bs else PErr EMalformed)
    else if mb =? sigFalse then POk (Node tg (VBool false)) bs
    else if mb =? sigTrue then POk (Node tg (VBool true)) bs
    else if (mb =? sigF16) || (mb =? sigF32) || (mb =? sigF64) then
      match dec_float mb bs with inl (b, rest) => POk (Node tg (VFlt b)) rest | inr e => PErr e end
    else if mb =? sigIndefBytes then pscalar tg VByt (fst (dec_indef_string majBytes bs))
    else if mb =? sigIndefString then pscalar tg VStr (fst (dec_indef_string majString bs))
    else if mb =? sigIndefArray then
      match pitems_indef f coerce bs with
      | POk xs rest => POk (Node tg (VArr (-1) xs)) rest
      | PErr e => PErr e | PFuel => PFuel
      end
    else if mb =? sigIndefMap then
      match ppairs_indef f coerce bs with
      | POk es rest => POk (Node tg (VMap (-1) es)) rest
      | PErr e => PErr e | PFuel => PFuel
      end
    else if mb <? majNegInt then
      match dec_uint mb bs with inl (u, rest) => POk (Node tg (VUint u)) rest | inr e => PErr e end
    else if mb <? majBytes then
      match dec_negint mb bs with inl (i, rest) => POk (Node tg (VInt i)) rest | inr e => PErr e end
    else if mb <? majString then pscalar tg VByt (fst (dec_bytes mb bs))
    else if mb <? majArray then pscalar tg VStr (fst (dec_bytes mb bs))
    else if mb <? majMap then
      match dec_len mb bs with
      | inr e => PErr e
      | inl (n, r) =>
        match pitems_def f coerce n r with
        | POk xs rest => POk (Node tg (VArr n xs)) rest
        | PErr e => PErr e | PFuel => PFuel
        end
      end
    else if mb <? majTag then
      match dec_len mb bs with
      | inr e => PErr e
      | inl (n, r) =>
        match ppairs_def f coerce n r with
        | POk es rest => POk (Node tg (VMap n es)) rest
        | PErr e => PErr e | PFuel => PFuel
        end
      end
    else PErr EMalformed
  end
with pitems_indef (fuel : nat) (coerce : bool) (bs : bytes) : pres (list tnode) :=
  match fuel with
  | O => PFuel
  | S f =>
    match bs with
    | [] => PErr EEof
    | mb :: r =>
      if mb =? sigBreak then POk [] r
      else
        match pitem f coerce bs with
        | POk x r1 =>
          match pitems_indef f coerce r1 with
          | POk xs r2 => POk (x :: xs) r2
          | PErr e => PErr e | PFuel => PFuel
          end
        | PErr e => PErr e | PFuel => PFuel
        end
    end
  end
with pitems_def (fuel : nat) (coerce : bool) (n : Z) (bs : bytes) : pres (list tnode) :=
  match fuel with
  | O => PFuel
  | S f =>
    if n =? 0 then POk [] bs
    else
      match pitem f coerce bs with
      | POk x r1 =>
        match pitems_def f coerce (n - 1) r1 with
        | POk xs r2 => POk (x :: xs) r2
        | PErr e => PErr e | PFuel => PFuel
        end
      | PErr e => PErr e | PFuel => PFuel
      end
  end
with ppairs_indef (fuel : nat) (coerce : bool) (bs : bytes) : pres (list (tnode * tnode)) :=
  match fuel with
  | O => PFuel
  | S f =>
    match bs with
    | [] => PErr EEof
    | mb :: r =>
      if mb =? sigBreak then POk [] r
      else
        match pitem f coerce bs with
        | POk k r1 =>
          match r1 with
          | [] => PErr EEof
          | mb2 :: _ =>
            if mb2 =? sigBreak then PErr EMalformed
            else
              match pitem f coerce r1 with
              | POk v r2 =>
                match ppairs_indef f coerce r2 with
                | POk es r3 => POk ((k, v) :: es) r3
                | PErr e => PErr e | PFuel => PFuel
                end
              | PErr e => PErr e | PFuel => PFuel
              end
          end
        | PErr e => PErr e | PFuel => PFuel
        end
    end
  end
with ppairs_def (fuel : nat) (coerce : bool) (n : Z) (bs : bytes) : pres (list (tnode * tnode)) :=
  match fuel with
  | O => PFuel
  | S f =>
    if n =? 0 then POk [] bs
    else
      match pitem f coerce bs with
      | POk k r1 =>
        match pitem f coerce r1 with
        | POk v r2 =>
          match ppairs_def f coerce (n - 1) r2 with
          | POk es r3 => POk ((k, v) :: es) r3
          | PErr e => PErr e | PFuel => PFuel
          end
        | PErr e => PErr e | PFuel => PFuel
        end
      | PErr e => PErr e | PFuel => PFuel
      end
  end.

(* The reference reading of the first item of [bs]. Fuel 4*|bs|+4 always
   suffices (proved in CborDecProof.v: parse_fuel_enough). *)
Definition parse_item (coerce : bool) (bs : bytes) : pres tnode :=
  pitem (4 * length bs + 4) coerce bs.
