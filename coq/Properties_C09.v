(* Properties_C09.v — statements are added as the proofs land (see DESIGN.md). *)
From Coq Require Import List ZArith.
Require Import Tok GoVal Marshal Unmarshal.
Import ListNotations.
Open Scope Z_scope.

Example C09_model_runs :
  marshal_top [] (Atlas [] 0) (GSlice (GNum I8)) (VSlice (Some [VNum 1; VNum (-2)])) =
  MOk [Tok (ArrOpen 2) None; Tok (Int 1) None; Tok (Int (-2)) None; Tok ArrClose None].
Proof. vm_compute. reflexivity. Qed.
