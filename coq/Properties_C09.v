(* Properties_C09.v — C09: unmarshalling never silently changes a number.
   The statements are about [uprim] / [uany_scalar] (Unmarshal.v), the model
   of the primitive unmarshal machine, for every integer kind. *)
From Coq Require Import List ZArith Bool Lia.
Require Import Tok GoVal JsonFloat FloatConv Unmarshal FloatProof.
Import ListNotations.
Open Scope Z_scope.

(* an integer token into an integer kind: stored exactly iff it is in range ... *)
Theorem C09_int_store_exact : forall k cur z tg r,
  in_kind k z = true ->
  uprim (GNum k) cur (Tok (Int z) tg :: r) = UOk (VNum z) r /\
  uprim (GNum k) cur (Tok (Uint z) tg :: r) = UOk (VNum z) r.
Proof. intros k cur z tg r H. cbn [uprim]. rewrite H. split; reflexivity. Qed.

(* ... and an error otherwise (too wide, negative into unsigned, beyond 64 bits) *)
Theorem C09_int_out_of_range_rejected : forall k cur z tg r,
  in_kind k z = false ->
  uprim (GNum k) cur (Tok (Int z) tg :: r) = UErr (S (length r)) /\
  uprim (GNum k) cur (Tok (Uint z) tg :: r) = UErr (S (length r)).
Proof. intros k cur z tg r H. cbn [uprim length]. rewrite H. split; reflexivity. Qed.

(* in_kind is exactly the mathematical range of the Go kind *)
Theorem C09_in_kind_is_range : forall k z, in_kind k z = true <-> ik_min k <= z <= ik_max k.
Proof. intros k z. unfold in_kind. rewrite andb_true_iff, !Z.leb_le. tauto. Qed.

(* floats never go into integer kinds *)
Theorem C09_float_into_int_rejected : forall k cur b tg r,
  uprim (GNum k) cur (Tok (Flt b) tg :: r) = UErr (S (length r)).
Proof. intros. reflexivity. Qed.

(* floats into float targets: float64 exactly, float32 by rounding *)
Theorem C09_float_store : forall cur b tg r,
  uprim GF64 cur (Tok (Flt b) tg :: r) = UOk (GVFlt b) r /\
  uprim GF32 cur (Tok (Flt b) tg :: r) = UOk (GVFlt (round32 b)) r.
Proof. intros. split; reflexivity. Qed.

(* an untyped slot holds exactly the integer that was serialized: as int when it fits, else as uint64 *)
Theorem C09_untyped_store_exact : forall z,
  uany_scalar (Int z) = Some (VAny (Some (GNum IInt, VNum z))) /\
  (uany_scalar (Uint z) = Some (VAny (Some (GNum IInt, VNum z))) \/
   (max_i64 < z /\ uany_scalar (Uint z) = Some (VAny (Some (GNum U64, VNum z))))).
Proof.
  intros z. split; [reflexivity|]. unfold uany_scalar.
  destruct (Z.leb_spec z max_i64); [left; reflexivity|right; split; [assumption|reflexivity]].
Qed.
Print Assumptions C09_untyped_store_exact.

Example C09_300_into_int8_rejected :
  uprim (GNum I8) (VNum 0) [Tok (Int 300) None] = UErr 1.
Proof. reflexivity. Qed.
Example C09_max_uint64_untyped :
  uany_scalar (Uint 18446744073709551615) = Some (VAny (Some (GNum U64, VNum 18446744073709551615))).
Proof. reflexivity. Qed.

(* integers into float targets and float64 into float32 targets are the correctly rounded IEEE-754 values
   (FloatProof.v): the only changes a number undergoes are the roundings the target kind implies *)
Theorem C09_int_into_float64_correctly_rounded : forall z, Z.abs z < 2 ^ 64 ->
  exists b0, int_to_f64 z = (if z <? 0 then b0 + SIGN64 else b0) /\ 0 <= b0 < INF64 /\
             (z = 0 -> b0 = 0) /\ (z <> 0 -> is_rne64 (Z.abs z) 1 b0).
Proof. exact int_to_f64_correct_64. Qed.
Theorem C09_float32_target_idempotent : forall b, 0 <= b < 2 ^ 64 -> round32 (round32 b) = round32 b.
Proof. exact round32_idempotent. Qed.
Theorem C09_float32_values_unchanged : forall x, 0 <= x < 2 ^ 32 ->
  round32 (CborDec.single_to_double x) = CborDec.single_to_double x.
Proof. exact round32_single_to_double. Qed.
Print Assumptions C09_int_into_float64_correctly_rounded.
