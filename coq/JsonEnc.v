(* JsonEnc.v — executable model of json.Encoder (json/jsonEncoder.go,
   json/jsonEncoderTerminals.go): 4 phases, a phase stack, the [some] flag
   that drives comma placement, Line/Indent pretty-printing, the string
   escaper, integer printing and the *layout* of floats around the shortest
   decimal digits, which come from an oracle ([shortest], a Section variable:
   strconv's digit generation is not modelled, see DESIGN.md section 4).
   Output is the list of Write calls (chunks).
   Behaviour modelled is the one after the fix commits: a Bytes token is an
   error (D6), not a panic. *)
From Coq Require Import List ZArith Bool Lia.
Require Import Tok Utf8 CborEnc.
Import ListNotations.
Open Scope Z_scope.

Record jopts := JOpts { jline : option bytes ; jindent : bytes }.

Inductive jphase := JAny | JMapKey | JMapVal | JArr.

Record jenc_state := JEncSt { jcur : jphase ; jstack : list jphase ; jsome : bool }.

Definition jenc_init : jenc_state := JEncSt JAny [] false.

(* ---------- terminals ---------------------------------------------------- *)

Definition hexdigit (n : Z) : Z := if n <? 10 then 48 + n else 87 + n.  (* "0123456789abcdef" *)

(* emitString: the scan loop.  [pending] is s[start:i] in reverse. *)
Definition flush (pending : bytes) : list chunk :=
  match pending with [] => [] | _ => [rev pending] end.

Fixpoint emit_str_loop (fuel : nat) (s : bytes) (pending : bytes) : list chunk :=
  match fuel with
  | O => []
  | S f =>
    match s with
    | [] => match pending with [] => [] | _ => [rev pending] end
    | b :: r =>
      if b <? 128 then
        if (32 <=? b) && negb (b =? 92) && negb (b =? 34) then emit_str_loop f r (b :: pending)
        else
          flush pending ++
          (if (b =? 92) || (b =? 34) then [[92]; [b]]
           else if b =? 10 then [[92]; [110]]
           else if b =? 13 then [[92]; [114]]
           else if b =? 9 then [[92]; [116]]
           else [[92; 117; 48; 48]; [hexdigit (Z.shiftr b 4)]; [hexdigit (Z.land b 15)]])
          ++ emit_str_loop f r []
      else
        let '(c, size) := decode_rune s in
        if (c =? rune_error) && (size =? 1) then
          flush pending ++ [[92; 117; 102; 102; 102; 100]] ++ emit_str_loop f r []
        else if (c =? 8232) || (c =? 8233) then
          flush pending ++ [[92; 117; 50; 48; 50]; [hexdigit (Z.land c 15)]]
          ++ emit_str_loop f (skipn (Z.to_nat size) s) []
        else
          emit_str_loop f (skipn (Z.to_nat size) s) (rev (firstn (Z.to_nat size) s) ++ pending)
    end
  end.

Definition emit_string (s : bytes) : list chunk :=
  [[34]] ++ emit_str_loop (S (length s)) s [] ++ [[34]].

(* decimal digits of a non-negative number below 10^fuel *)
Fixpoint dec_digits (fuel : nat) (n : Z) (acc : bytes) : bytes :=
  match fuel with
  | O => acc
  | S f =>
    let acc' := (48 + n mod 10) :: acc in
    if n <? 10 then acc' else dec_digits f (n / 10) acc'
  end.

Definition print_uint (n : Z) : bytes := dec_digits 20 n [].
Definition print_int (n : Z) : bytes := if n <? 0 then 45 :: print_uint (- n) else print_uint n.

Section Floats.
  (* shortest f = (digits as values 0..9, dp): |f| = 0.d1d2..dn * 10^dp, the
     shortest digit string that reads back as f (strconv's %e/%f with
     precision -1); ([], 0) for zero. *)
  Variable shortest : Z -> list Z * Z.

  Definition f_sign (bits : Z) : bool := Z.testbit bits 63.
  Definition f_exp (bits : Z) : Z := Z.land (Z.shiftr bits 52) 2047.
  Definition f_isnan_or_inf (bits : Z) : bool := f_exp bits =? 2047.
  Definition f_abs (bits : Z) : Z := Z.land bits 9223372036854775807.

  (* abs < 1e-6  <->  bits(abs) < bits(1e-6);  abs >= 1e21 likewise (order of
     non-negative doubles = order of their bit patterns) *)
  Definition bits_1e_6 : Z := 4517329193108106637.
  Definition bits_1e21 : Z := 4921056587992461136.

  Definition digit_chars (ds : list Z) : bytes := map (fun d => 48 + d) ds.

  Fixpoint zeros (n : nat) : bytes := match n with O => [] | S k => 48 :: zeros k end.

  (* %f with the shortest digits *)
  Definition fmt_f (ds : list Z) (dp : Z) : bytes :=
    let nd := Z.of_nat (length ds) in
    let intpart :=
      if 0 <? dp then
        digit_chars (firstn (Z.to_nat dp) ds) ++ zeros (Z.to_nat (dp - nd))
      else [48] in
    let prec := Z.max (nd - dp) 0 in
    let frac :=
      if 0 <? prec then
        46 :: (if dp <? 0 then zeros (Z.to_nat (- dp)) ++ digit_chars ds
               else digit_chars (skipn (Z.to_nat dp) ds))
      else [] in
    intpart ++ frac.

  (* %e with the shortest digits, then the e-0d -> e-d clean-up *)
  Definition fmt_e (ds : list Z) (dp : Z) : bytes :=
    let first := match ds with d :: _ => [48 + d] | [] => [48] end in
    let more := match ds with _ :: (_ :: _) as tl => 46 :: digit_chars tl | _ => [] end in
    let ex := match ds with [] => 0 | _ => dp - 1 end in
    let aex := Z.abs ex in
    let exdigits := if aex <? 10 then [48; 48 + aex] else print_uint aex in
    let exdigits' := if (ex <? 0) && (aex <? 10) then [48 + aex] else exdigits in
    first ++ more ++ [101; (if ex <? 0 then 45 else 43)] ++ exdigits'.

  Definition emit_float (bits : Z) : option (list chunk) :=
    if f_isnan_or_inf bits then None
    else
      let a := f_abs bits in
      let '(ds, dp) := shortest bits in
      let body :=
        if negb (a =? 0) && ((a <? bits_1e_6) || (bits_1e21 <=? a)) then fmt_e ds dp else fmt_f ds dp in
      Some [ (if f_sign bits then [45] else []) ++ body ].

  (* ---------- the automaton ------------------------------------------------ *)

  Definition line_chunk (o : jopts) : chunk := match jline o with Some l => l | None => [] end.

  Fixpoint repeat_chunk (n : nat) (c : chunk) : list chunk :=
    match n with O => [] | S k => c :: repeat_chunk k c end.

  Definition jpush (s : jenc_state) (p : jphase) : jenc_state :=
    JEncSt p (p :: jstack s) false.

  (* popPhase *)
  Definition jpop (o : jopts) (s : jenc_state) : jenc_state * list chunk * step_res :=
    match jstack s with
    | [] => (s, [], RPanic)
    | [_] => (s, [line_chunk o], RDone)
    | _ :: nxt :: rest => (JEncSt nxt (nxt :: rest) true, [], RCont)
    end.

  (* entrySep *)
  Definition entry_sep (o : jopts) (s : jenc_state) : jenc_state * list chunk :=
    (JEncSt (jcur s) (jstack s) true,
     (if jsome s then [[44]] else []) ++ [line_chunk o] ++ repeat_chunk (length (jstack s)) (jindent o)).

  (* the closing bracket of a container *)
  Definition close_chunks (o : jopts) (s : jenc_state) (br : Z) : list chunk :=
    (if jsome s then line_chunk o :: repeat_chunk (length (jstack s) - 1) (jindent o) else []) ++ [[br]].

  (* flushValue: None = error (NaN/Inf float, or a Bytes token after D6) *)
  Definition flush_value (v : tokv) : option (list chunk) :=
    match v with
    | Str x => Some (emit_string x)
    | Bool b => Some [if b then [116; 114; 117; 101] else [102; 97; 108; 115; 101]]
    | Int i => Some [print_int i]
    | Uint u => Some [print_uint u]
    | Flt f => emit_float f
    | Null => Some [[110; 117; 108; 108]]
    | _ => None
    end.

  Definition jenc_step (o : jopts) (s : jenc_state) (t : token) : jenc_state * list chunk * step_res :=
    let v := tv t in
    match jcur s with
    | JAny =>
        match v with
        | MapOpen _ => (jpush s JMapKey, [[123]], RCont)
        | ArrOpen _ => (jpush s JArr, [[91]], RCont)
        | MapClose | ArrClose => (s, [], RErr)
        | _ => match flush_value v with Some c => (s, c, RDone) | None => (s, [], RErr) end
        end
    | JMapKey =>
        match v with
        | MapOpen _ | ArrOpen _ | ArrClose => (s, [], RErr)
        | MapClose =>
            let '(s', c, r) := jpop o s in (s', close_chunks o s 125 ++ c, r)
        | Str x =>
            let '(s1, sep) := entry_sep o s in
            (JEncSt JMapVal (jstack s1) (jsome s1),
             sep ++ emit_string x ++ [[58]] ++ (match jline o with Some _ => [[32]] | None => [] end), RCont)
        | _ => (s, [], RErr)
        end
    | JMapVal =>
        match v with
        | MapOpen _ => (jpush s JMapKey, [[123]], RCont)
        | ArrOpen _ => (jpush s JArr, [[91]], RCont)
        | MapClose | ArrClose => (s, [], RErr)
        | _ =>
            let s1 := JEncSt JMapKey (jstack s) (jsome s) in
            match flush_value v with Some c => (s1, c, RCont) | None => (s1, [], RErr) end
        end
    | JArr =>
        match v with
        | MapOpen _ => let '(s1, sep) := entry_sep o s in (jpush s1 JMapKey, sep ++ [[123]], RCont)
        | ArrOpen _ => let '(s1, sep) := entry_sep o s in (jpush s1 JArr, sep ++ [[91]], RCont)
        | MapClose => (s, [], RErr)
        | ArrClose =>
            let '(s', c, r) := jpop o s in (s', close_chunks o s 93 ++ c, r)
        | _ =>
            let '(s1, sep) := entry_sep o s in
            match flush_value v with Some c => (s1, sep ++ c, RCont) | None => (s1, sep, RErr) end
        end
    end.

  Inductive jrun_res :=
  | JFinished (out : list chunk) (used : nat)
  | JErrored  (out : list chunk) (used : nat)
  | JPanicked (out : list chunk) (used : nat)
  | JStarved  (out : list chunk) (st : jenc_state).

  Definition jprepend (c : list chunk) (r : jrun_res) : jrun_res :=
    match r with
    | JFinished o n => JFinished (c ++ o) n
    | JErrored o n => JErrored (c ++ o) n
    | JPanicked o n => JPanicked (c ++ o) n
    | JStarved o st => JStarved (c ++ o) st
    end.

  (* feed tokens until the first done / error, as TokenPump does; [n] counts tokens used *)
  Fixpoint jenc_run (o : jopts) (s : jenc_state) (ts : list token) (n : nat) : jrun_res :=
    match ts with
    | [] => JStarved [] s
    | t :: rest =>
        let '(s', out, r) := jenc_step o s t in
        match r with
        | RCont => jprepend out (jenc_run o s' rest (S n))
        | RDone => JFinished out (S n)
        | RErr => JErrored out (S n)
        | RPanic => JPanicked out (S n)
        end
    end.

  Definition jenc_tokens (o : jopts) (ts : list token) : jrun_res := jenc_run o jenc_init ts 0.
End Floats.
