(* JsonDecProof.v — the JSON decoder automaton (JsonDec.v) is equivalent to the
   recursive-descent reference reading (JsonParse.v, lenient variant): same
   tokens and rest on success, same error class on failure; it never runs out
   of fuel; and every strictly valid text is read the same by the lenient reading. *)
From Coq Require Import List ZArith Bool Lia.
From Coq Require Import ZifyBool ZifyNat.
Require Import Tok Utf8 CborDec CborParse JsonFloat JsonDec JsonParse.
Import ListNotations.
Open Scope Z_scope.

(* ====================================================================== *)
(* 1. Suffixes; the terminals return a suffix of their input              *)
(* ====================================================================== *)

Definition sfx (rest bs : bytes) : Prop := exists used, bs = used ++ rest.

Lemma sfx_refl bs : sfx bs bs.
Proof. exists []. reflexivity. Qed.

Lemma sfx_cons b rest bs : sfx rest bs -> sfx rest (b :: bs).
Proof. intros [u ->]. exists (b :: u). reflexivity. Qed.

Lemma sfx_trans a b c : sfx a b -> sfx b c -> sfx a c.
Proof. intros [u ->] [v ->]. exists (v ++ u). rewrite app_assoc. reflexivity. Qed.

Lemma sfx_len rest bs : sfx rest bs -> (length rest <= length bs)%nat.
Proof. intros [u ->]. rewrite app_length. lia. Qed.

Lemma readn_sfx n bs a rest : readn n bs = inl (a, rest) -> sfx rest bs.
Proof.
  unfold readn. destruct (n =? 0).
  - intros H. inversion H. apply sfx_refl.
  - destruct (Z.of_nat (length bs) <? n); [discriminate|].
    intros H. inversion H. exists (firstn (Z.to_nat n) bs).
    symmetry. apply firstn_skipn.
Qed.

Lemma skip_ws_sfx bs : sfx (skip_ws bs) bs.
Proof.
  induction bs as [|b r IH]; cbn [skip_ws].
  - apply sfx_refl.
  - destruct (is_ws b); [apply sfx_cons, IH|apply sfx_refl].
Qed.

Lemma str_scan_sfx : forall bs st acc raw rest,
  str_scan st bs acc = inl (raw, rest) -> sfx rest bs.
Proof.
  induction bs as [|c r IH]; intros st acc raw rest; cbn [str_scan].
  - discriminate.
  - destruct st;
      repeat match goal with |- context [if ?b then _ else _] => destruct b end;
      try discriminate; intros H;
      try (apply IH in H; apply sfx_cons; exact H).
    inversion H; subst. apply sfx_cons, sfx_refl.
Qed.

Lemma dec_string_sfx bs s rest : dec_string bs = inl (s, rest) -> sfx rest bs.
Proof.
  unfold dec_string.
  destruct (str_scan SNormal bs []) as [[raw rest']|e] eqn:E; [|discriminate].
  destruct (unescape (S (length raw)) raw); intros H; inversion H; subst;
    eapply str_scan_sfx; eauto.
Qed.

Lemma num_scan_sfx : forall bs s acc more rest,
  num_scan s bs acc = inl (more, rest) -> sfx rest bs.
Proof.
  induction bs as [|c r IH]; intros s acc more rest; cbn [num_scan].
  - destruct (n_accepting s); intros H; inversion H. apply sfx_refl.
  - destruct (num_step s c) as [[s'|] [|]]; intros H.
    + apply IH in H. apply sfx_cons. exact H.
    + apply IH in H. apply sfx_cons. exact H.
    + inversion H; subst. apply sfx_refl.
    + discriminate.
Qed.

Definition is_num (v : tokv) : bool :=
  match v with Int _ | Uint _ | Flt _ => true | _ => false end.

Lemma num_token_isnum text v : num_token text = inl v -> is_num v = true.
Proof.
  unfold num_token.
  remember (match text with 45 :: r => (true, r) | _ => (false, text) end) as nb eqn:Enb.
  clear Enb. destruct nb as [neg body].
  destruct (take_digits body []) as [ip r1].
  remember (match r1 with 46 :: r => take_digits r [] | _ => ([], r1) end) as fr eqn:Efr.
  clear Efr. destruct fr as [fp r2].
  destruct r1 as [|c r1'].
  - cbv beta iota zeta.
    repeat match goal with |- context [if ?b then _ else _] => destruct b end;
      intros H; inversion H; reflexivity.
  - match goal with |- context [nearest ?a ?b ?c ?d] => destruct (nearest a b c d) end.
    all: intros H; inversion H; reflexivity.
Qed.

Lemma dec_number_sfx first bs v rest :
  dec_number first bs = inl (v, rest) -> sfx rest bs /\ is_num v = true.
Proof.
  unfold dec_number. cbv zeta.
  destruct (num_scan (if first =? 45 then NNeg else if first =? 48 then N0 else N1) bs [])
    as [[more rest']|e] eqn:E; [|discriminate].
  destruct (num_token (first :: more)) as [v'|e] eqn:E2; [|discriminate].
  intros H; inversion H; subst. split.
  - eapply num_scan_sfx; eauto.
  - eapply num_token_isnum; eauto.
Qed.

Lemma dec_literal_sfx word bs rest : dec_literal word bs = inl rest -> sfx rest bs.
Proof.
  unfold dec_literal.
  destruct (readn (Z.of_nat (length word)) bs) as [[got rest']|e] eqn:E; [|discriminate].
  destruct (forallb (fun p => fst p =? snd p) (combine got word)); [|discriminate].
  intros H; inversion H; subst. eapply readn_sfx; eauto.
Qed.

(* ====================================================================== *)
(* 2. Classification of the byte that starts a value                      *)
(* ====================================================================== *)

Inductive jclass :=
| JCScalar (v : tval) (rest : bytes)
| JCErr (e : derr)
| JCArr
| JCMap.

Definition lit_cls (v : tval) (r : bytes + derr) : jclass :=
  match r with inl rest => JCScalar v rest | inr e => JCErr e end.

Definition jclassify (mb : Z) (r : bytes) : jclass :=
  if mb =? 123 then JCMap
  else if mb =? 91 then JCArr
  else if mb =? 110 then lit_cls VNull (dec_literal [117; 108; 108] r)
  else if mb =? 34 then
    match dec_string r with inl (s, rest) => JCScalar (VStr s) rest | inr e => JCErr e end
  else if mb =? 102 then lit_cls (VBool false) (dec_literal [97; 108; 115; 101] r)
  else if mb =? 116 then lit_cls (VBool true) (dec_literal [114; 117; 101] r)
  else if (mb =? 45) || is_digit mb then
    match dec_number mb r with
    | inl (Int i, rest) => JCScalar (VInt i) rest
    | inl (Uint u, rest) => JCScalar (VUint u) rest
    | inl (Flt b, rest) => JCScalar (VFlt b) rest
    | inl (_, _) => JCErr EMalformed
    | inr e => JCErr e
    end
  else JCErr EMalformed.

Lemma jpbody_S f l mb r : jpbody (S f) l mb r =
  match jclassify mb r with
  | JCScalar v rest => POk (Node None v) rest
  | JCErr e => PErr e
  | JCArr =>
      match jpelements f l false r with
      | POk xs rest => POk (Node None (VArr (-1) xs)) rest
      | PErr e => PErr e | PFuel => PFuel
      end
  | JCMap =>
      match jpmembers f l false r with
      | POk es rest => POk (Node None (VMap (-1) es)) rest
      | PErr e => PErr e | PFuel => PFuel
      end
  end.
Proof.
  cbn [jpbody]. unfold jclassify, lit_cls.
  destruct (mb =? 123); [reflexivity|].
  destruct (mb =? 91); [reflexivity|].
  destruct (mb =? 110). { destruct (dec_literal [117; 108; 108] r); reflexivity. }
  destruct (mb =? 34). { destruct (dec_string r) as [[s rest]|e]; reflexivity. }
  destruct (mb =? 102). { destruct (dec_literal [97; 108; 115; 101] r); reflexivity. }
  destruct (mb =? 116). { destruct (dec_literal [114; 117; 101] r); reflexivity. }
  destruct ((mb =? 45) || is_digit mb); [|reflexivity].
  destruct (dec_number mb r) as [[v rest]|e]; [|reflexivity].
  destruct v; reflexivity.
Qed.

Lemma jaccept_classify mb s r : jaccept_value mb s r =
  match jclassify mb r with
  | JCScalar v rest => JSubTok (Tok (leaf_tok v) None) true (set_inp s rest)
  | JCErr e => JSubErr e
  | JCArr => JSubTok (Tok (ArrOpen (-1)) None) false (jpush_frame s KArr r)
  | JCMap => JSubTok (Tok (MapOpen (-1)) None) false (jpush_frame s KMapKey r)
  end.
Proof.
  unfold jaccept_value, jclassify, lit_cls.
  destruct (mb =? 123); [reflexivity|].
  destruct (mb =? 91); [reflexivity|].
  destruct (mb =? 110). { destruct (dec_literal [117; 108; 108] r); reflexivity. }
  destruct (mb =? 34). { destruct (dec_string r) as [[s' rest]|e]; reflexivity. }
  destruct (mb =? 102). { destruct (dec_literal [97; 108; 115; 101] r); reflexivity. }
  destruct (mb =? 116). { destruct (dec_literal [114; 117; 101] r); reflexivity. }
  destruct ((mb =? 45) || is_digit mb); [|reflexivity].
  destruct (dec_number mb r) as [[v rest]|e] eqn:E; [|reflexivity].
  apply dec_number_sfx in E. destruct E as [_ E].
  destruct v; try discriminate E; reflexivity.
Qed.

Lemma jclassify_scalar mb r v rest :
  jclassify mb r = JCScalar v rest -> sfx rest r /\ is_leaf v = true.
Proof.
  unfold jclassify, lit_cls.
  destruct (mb =? 123); [discriminate|].
  destruct (mb =? 91); [discriminate|].
  destruct (mb =? 110).
  { destruct (dec_literal [117; 108; 108] r) eqn:E; intros H; inversion H; subst.
    split; [eapply dec_literal_sfx; eauto|reflexivity]. }
  destruct (mb =? 34).
  { destruct (dec_string r) as [[s' rest']|e] eqn:E; intros H; inversion H; subst.
    split; [eapply dec_string_sfx; eauto|reflexivity]. }
  destruct (mb =? 102).
  { destruct (dec_literal [97; 108; 115; 101] r) eqn:E; intros H; inversion H; subst.
    split; [eapply dec_literal_sfx; eauto|reflexivity]. }
  destruct (mb =? 116).
  { destruct (dec_literal [114; 117; 101] r) eqn:E; intros H; inversion H; subst.
    split; [eapply dec_literal_sfx; eauto|reflexivity]. }
  destruct ((mb =? 45) || is_digit mb); [|discriminate].
  destruct (dec_number mb r) as [[v' rest']|e] eqn:E; [|discriminate].
  apply dec_number_sfx in E. destruct E as [E _].
  destruct v'; intros H; inversion H; subst; split; try exact E; reflexivity.
Qed.

(* ====================================================================== *)
(* 3. What precedes an element / a member: ws, comma, closing bracket      *)
(* ====================================================================== *)

Inductive ehead :=
| EHErr (e : derr)
| EHClose (r : bytes)
| EHElem (mb : Z) (r : bytes).

(* [cb] is the closing byte of the container *)
Definition head (cb : Z) (l some : bool) (bs : bytes) : ehead :=
  match skip_ws bs with
  | [] => EHErr EEof
  | mb :: r =>
    if some then
      if mb =? cb then EHClose r
      else if mb =? 44 then
        match skip_ws r with
        | [] => EHErr EEof
        | mb2 :: r2 =>
            if mb2 =? cb then (if l then EHClose r2 else EHErr EMalformed)
            else EHElem mb2 r2
        end
      else EHErr EMalformed
    else
      if mb =? cb then EHClose r else EHElem mb r
  end.

Lemma skip_ws_cons_sfx bs mb r : skip_ws bs = mb :: r -> sfx (mb :: r) bs.
Proof. intros H. rewrite <- H. apply skip_ws_sfx. Qed.

Lemma head_close cb l some bs r : head cb l some bs = EHClose r ->
  sfx r bs /\ (length r + 1 <= length bs)%nat.
Proof.
  unfold head. destruct (skip_ws bs) as [|mb r1] eqn:E1; [discriminate|].
  apply skip_ws_cons_sfx in E1.
  assert (A : forall x, sfx (mb :: x) bs -> sfx x bs /\ (length x + 1 <= length bs)%nat).
  { intros x Hx. split.
    - eapply sfx_trans; [|exact Hx]. apply sfx_cons, sfx_refl.
    - apply sfx_len in Hx. cbn [length] in Hx. lia. }
  destruct some.
  - destruct (mb =? cb).
    { intros H; inversion H; subst. apply A. exact E1. }
    destruct (mb =? 44); [|discriminate].
    destruct (skip_ws r1) as [|mb2 r2] eqn:E2; [discriminate|].
    apply skip_ws_cons_sfx in E2.
    destruct (mb2 =? cb); [|discriminate]. destruct l; [|discriminate].
    intros H; inversion H; subst.
    destruct (A r1 E1) as [S1 L1]. pose proof (sfx_len _ _ E2) as L2. cbn [length] in L2.
    split; [|lia].
    eapply sfx_trans; [|exact S1]. eapply sfx_trans; [|exact E2]. apply sfx_cons, sfx_refl.
  - destruct (mb =? cb); [|discriminate].
    intros H; inversion H; subst. apply A. exact E1.
Qed.

Lemma head_elem cb l some bs mb r : head cb l some bs = EHElem mb r ->
  sfx (mb :: r) bs /\ (mb =? cb) = false.
Proof.
  unfold head. destruct (skip_ws bs) as [|mb1 r1] eqn:E1; [discriminate|].
  apply skip_ws_cons_sfx in E1.
  destruct some.
  - destruct (mb1 =? cb); [discriminate|].
    destruct (mb1 =? 44); [|discriminate].
    destruct (skip_ws r1) as [|mb2 r2] eqn:E2; [discriminate|].
    apply skip_ws_cons_sfx in E2.
    destruct (mb2 =? cb) eqn:E3; [destruct l; discriminate|].
    intros H; inversion H; subst. split; [|exact E3].
    eapply sfx_trans; [exact E2|]. eapply sfx_trans; [|exact E1]. apply sfx_cons, sfx_refl.
  - destruct (mb1 =? cb) eqn:E3; [discriminate|].
    intros H; inversion H; subst. split; [exact E1|exact E3].
Qed.

Lemma head_elem_len cb l some bs mb r : head cb l some bs = EHElem mb r ->
  (length r + 1 <= length bs)%nat.
Proof.
  intros H. apply head_elem in H. destruct H as [H _]. apply sfx_len in H.
  cbn [length] in H. lia.
Qed.

Lemma head_strict cb some bs :
  match head cb false some bs with
  | EHErr _ => True
  | h => head cb true some bs = h
  end.
Proof.
  unfold head. destruct (skip_ws bs) as [|mb r]; [exact I|].
  destruct some.
  - destruct (mb =? cb); [reflexivity|].
    destruct (mb =? 44); [|exact I].
    destruct (skip_ws r) as [|mb2 r2]; [exact I|].
    destruct (mb2 =? cb); [exact I|reflexivity].
  - destruct (mb =? cb); reflexivity.
Qed.

(* the key of a member, up to and including the colon *)
Inductive khead :=
| KHErr (e : derr)
| KHKey (k : bytes) (r : bytes).

Definition key_head (mb : Z) (r : bytes) : khead :=
  if mb =? 34 then
    match dec_string r with
    | inr e => KHErr e
    | inl (k, r3) =>
      match skip_ws r3 with
      | [] => KHErr EEof
      | c :: r4 => if c =? 58 then KHKey k r4 else KHErr EMalformed
      end
    end
  else KHErr EMalformed.

Lemma key_head_sfx mb r k r4 : key_head mb r = KHKey k r4 ->
  sfx r4 r /\ (length r4 + 1 <= length r)%nat.
Proof.
  unfold key_head. destruct (mb =? 34); [|discriminate].
  destruct (dec_string r) as [[k' r3]|e] eqn:E1; [|discriminate].
  destruct (skip_ws r3) as [|c r4'] eqn:E2; [discriminate|].
  destruct (c =? 58); [|discriminate]. intros H; inversion H; subst.
  apply dec_string_sfx in E1. apply skip_ws_cons_sfx in E2.
  assert (S1 : sfx (c :: r4) r) by (eapply sfx_trans; eauto).
  split.
  - eapply sfx_trans; [|exact S1]. apply sfx_cons, sfx_refl.
  - apply sfx_len in S1. cbn [length] in S1. lia.
Qed.

(* ====================================================================== *)
(* 4. Unfolding equations of the parser                                   *)
(* ====================================================================== *)

Lemma jpvalue_S f l bs : jpvalue (S f) l bs =
  match skip_ws bs with
  | [] => PErr EEof
  | mb :: r => jpbody f l mb r
  end.
Proof. reflexivity. Qed.

Lemma jpelements_S f l some bs : jpelements (S f) l some bs =
  match head 93 l some bs with
  | EHErr e => PErr e
  | EHClose r => POk [] r
  | EHElem mb r =>
      match jpbody f l mb r with
      | POk x r3 =>
        match jpelements f l true r3 with
        | POk xs r4 => POk (x :: xs) r4
        | PErr e => PErr e | PFuel => PFuel
        end
      | PErr e => PErr e | PFuel => PFuel
      end
  end.
Proof.
  cbn [jpelements]. unfold head.
  destruct (skip_ws bs) as [|mb r]; [reflexivity|].
  destruct some.
  - destruct (mb =? 93); [reflexivity|].
    destruct (mb =? 44); [|reflexivity].
    destruct (skip_ws r) as [|mb2 r2]; [reflexivity|].
    destruct (mb2 =? 93); [destruct l; reflexivity|reflexivity].
  - destruct (mb =? 93); reflexivity.
Qed.

Lemma jpmembers_S f l some bs : jpmembers (S f) l some bs =
  match head 125 l some bs with
  | EHErr e => PErr e
  | EHClose r => POk [] r
  | EHElem mb r =>
      match key_head mb r with
      | KHErr e => PErr e
      | KHKey k r4 =>
        match jpvalue f l r4 with
        | POk v r5 =>
          match jpmembers f l true r5 with
          | POk es r6 => POk ((Node None (VStr k), v) :: es) r6
          | PErr e => PErr e | PFuel => PFuel
          end
        | PErr e => PErr e | PFuel => PFuel
        end
      end
  end.
Proof.
  assert (M : forall mb2 r2,
    (if mb2 =? 34 then
       match dec_string r2 with
       | inr e => PErr e
       | inl (k, r3) =>
         match skip_ws r3 with
         | [] => PErr EEof
         | c :: r4 =>
           if c =? 58 then
             match jpvalue f l r4 with
             | POk v r5 =>
               match jpmembers f l true r5 with
               | POk es r6 => POk ((Node None (VStr k), v) :: es) r6
               | PErr e => PErr e | PFuel => PFuel
               end
             | PErr e => PErr e | PFuel => PFuel
             end
           else PErr EMalformed
         end
       end
     else PErr EMalformed) =
    match key_head mb2 r2 with
    | KHErr e => PErr e
    | KHKey k r4 =>
      match jpvalue f l r4 with
      | POk v r5 =>
        match jpmembers f l true r5 with
        | POk es r6 => POk ((Node None (VStr k), v) :: es) r6
        | PErr e => PErr e | PFuel => PFuel
        end
      | PErr e => PErr e | PFuel => PFuel
      end
    end).
  { intros mb2 r2. unfold key_head. destruct (mb2 =? 34); [|reflexivity].
    destruct (dec_string r2) as [[k r3]|e]; [|reflexivity].
    destruct (skip_ws r3) as [|c r4]; [reflexivity|].
    destruct (c =? 58); reflexivity. }
  cbn [jpmembers]. unfold head.
  destruct (skip_ws bs) as [|mb r]; [reflexivity|].
  destruct some.
  - destruct (mb =? 125); [reflexivity|].
    destruct (mb =? 44); [|reflexivity].
    destruct (skip_ws r) as [|mb2 r2]; [reflexivity|].
    destruct (mb2 =? 125); [destruct l; reflexivity|apply M].
  - destruct (mb =? 125); [reflexivity|apply M].
Qed.

(* ====================================================================== *)
(* 5. Parser results: rest is a suffix, token count bounded by bytes used  *)
(* ====================================================================== *)

Definition flatpair (kv : tnode * tnode) : list token := flatten (fst kv) ++ flatten (snd kv).

Definition wf_value (f : nat) := forall l bs n rest, jpvalue f l bs = POk n rest ->
  sfx rest bs /\ (length (flatten n) + length rest <= length bs)%nat.
Definition wf_body (f : nat) := forall l mb r n rest, jpbody f l mb r = POk n rest ->
  sfx rest r /\ (length (flatten n) + length rest <= length r + 1)%nat.
Definition wf_elems (f : nat) := forall l some bs xs rest, jpelements f l some bs = POk xs rest ->
  sfx rest bs /\ (length (flat_map flatten xs) + 1 + length rest <= length bs)%nat.
Definition wf_membs (f : nat) := forall l some bs es rest, jpmembers f l some bs = POk es rest ->
  sfx rest bs /\ (length (flat_map flatpair es) + 1 + length rest <= length bs)%nat.

Lemma flatten_arr_len tg d xs :
  length (flatten (Node tg (VArr d xs))) = S (S (length (flat_map flatten xs))).
Proof. cbn [flatten length]. rewrite app_length. cbn [length]. lia. Qed.

Lemma flatten_map_len tg d es :
  length (flatten (Node tg (VMap d es))) = S (S (length (flat_map flatpair es))).
Proof.
  cbn [flatten length]. rewrite app_length. cbn [length].
  change (fun kv : tnode * tnode => flatten (fst kv) ++ flatten (snd kv)) with flatpair. lia.
Qed.

Lemma wf_all : forall f, wf_value f /\ wf_body f /\ wf_elems f /\ wf_membs f.
Proof.
  induction f as [|f IH].
  { repeat split; repeat intro; discriminate. }
  destruct IH as (IHv & IHb & IHe & IHm).
  split; [|split; [|split]].
  - (* value *)
    intros l bs n rest H. rewrite jpvalue_S in H.
    destruct (skip_ws bs) as [|mb r] eqn:E; [discriminate|].
    apply skip_ws_cons_sfx in E. apply IHb in H. destruct H as [S1 L1].
    pose proof (sfx_len _ _ E) as L2. cbn [length] in L2.
    split; [|lia].
    eapply sfx_trans; [|exact E]. apply sfx_cons. exact S1.
  - (* body *)
    intros l mb r n rest H. rewrite jpbody_S in H.
    destruct (jclassify mb r) as [v r1|e| |] eqn:K.
    + inversion H; subst. apply jclassify_scalar in K. destruct K as [S1 Lf].
      rewrite (flatten_leaf _ _ Lf). pose proof (sfx_len _ _ S1). cbn [length].
      split; [exact S1|lia].
    + discriminate.
    + destruct (jpelements f l false r) as [xs r1|e|] eqn:E; inversion H; subst.
      apply IHe in E. destruct E as [S1 L1]. rewrite flatten_arr_len.
      split; [exact S1|lia].
    + destruct (jpmembers f l false r) as [xs r1|e|] eqn:E; inversion H; subst.
      apply IHm in E. destruct E as [S1 L1]. rewrite flatten_map_len.
      split; [exact S1|lia].
  - (* elements *)
    intros l some bs xs rest H. rewrite jpelements_S in H.
    destruct (head 93 l some bs) as [e|r|mb r] eqn:Eh.
    + discriminate.
    + inversion H; subst. apply head_close in Eh. cbn [flat_map length]. destruct Eh as [S1 L1]. split; [exact S1|lia].
    + destruct (jpbody f l mb r) as [x r3|e|] eqn:E1; try discriminate.
      destruct (jpelements f l true r3) as [xs' r4|e|] eqn:E2; inversion H; subst.
      apply IHb in E1. apply IHe in E2. destruct E1 as [S1 L1]. destruct E2 as [S2 L2].
      apply head_elem in Eh. destruct Eh as [S0 _].
      pose proof (sfx_len _ _ S0) as L0. cbn [length] in L0.
      cbn [flat_map]. rewrite app_length. split; [|lia].
      eapply sfx_trans; [exact S2|]. eapply sfx_trans; [exact S1|].
      eapply sfx_trans; [|exact S0]. apply sfx_cons, sfx_refl.
  - (* members *)
    intros l some bs es rest H. rewrite jpmembers_S in H.
    destruct (head 125 l some bs) as [e|r|mb r] eqn:Eh.
    + discriminate.
    + inversion H; subst. apply head_close in Eh. cbn [flat_map length]. destruct Eh as [S1 L1]. split; [exact S1|lia].
    + destruct (key_head mb r) as [e|k r4] eqn:Ek; [discriminate|].
      destruct (jpvalue f l r4) as [v r5|e|] eqn:E1; try discriminate.
      destruct (jpmembers f l true r5) as [es' r6|e|] eqn:E2; inversion H; subst.
      apply IHv in E1. apply IHm in E2. destruct E1 as [S1 L1]. destruct E2 as [S2 L2].
      apply head_elem in Eh. destruct Eh as [S0 _].
      pose proof (sfx_len _ _ S0) as L0. cbn [length] in L0.
      apply key_head_sfx in Ek. destruct Ek as [S3 L3].
      cbn [flat_map]. unfold flatpair at 1. cbn [fst snd flatten]. rewrite !app_length.
      cbn [length]. split; [|lia].
      eapply sfx_trans; [exact S2|]. eapply sfx_trans; [exact S1|].
      eapply sfx_trans; [exact S3|].
      eapply sfx_trans; [|exact S0]. apply sfx_cons, sfx_refl.
Qed.

Lemma jpvalue_wf f l bs n rest : jpvalue f l bs = POk n rest ->
  sfx rest bs /\ (length (flatten n) + length rest <= length bs)%nat.
Proof. apply (wf_all f). Qed.

Lemma jpbody_wf f l mb r n rest : jpbody f l mb r = POk n rest ->
  sfx rest r /\ (length (flatten n) + length rest <= length r + 1)%nat.
Proof. apply (wf_all f). Qed.

Lemma flatten_len_pos n : (1 <= length (flatten n))%nat.
Proof.
  pose proof (flatten_nonempty n). destruct (flatten n); [congruence|]. cbn [length]. lia.
Qed.

Lemma jpvalue_shorter f l bs n rest : jpvalue f l bs = POk n rest ->
  (length rest < length bs)%nat.
Proof.
  intros H. apply jpvalue_wf in H. destruct H as [_ H].
  pose proof (flatten_len_pos n). lia.
Qed.

Lemma jpbody_shorter f l mb r n rest : jpbody f l mb r = POk n rest ->
  (length rest <= length r)%nat.
Proof.
  intros H. apply jpbody_wf in H. destruct H as [_ H].
  pose proof (flatten_len_pos n). lia.
Qed.

(* ====================================================================== *)
(* 6. The parser's fuel suffices                                          *)
(* ====================================================================== *)

Definition nf_value (f : nat) := forall l bs,
  (3 * length bs + 1 <= f)%nat -> jpvalue f l bs <> PFuel.
Definition nf_body (f : nat) := forall l mb r,
  (3 * length r + 3 <= f)%nat -> jpbody f l mb r <> PFuel.
Definition nf_elems (f : nat) := forall l some bs,
  (3 * length bs + 1 <= f)%nat -> jpelements f l some bs <> PFuel.
Definition nf_membs (f : nat) := forall l some bs,
  (3 * length bs + 1 <= f)%nat -> jpmembers f l some bs <> PFuel.

Lemma nf_all : forall f, nf_value f /\ nf_body f /\ nf_elems f /\ nf_membs f.
Proof.
  induction f as [|f IH].
  { repeat split; repeat intro; lia. }
  destruct IH as (IHv & IHb & IHe & IHm).
  split; [|split; [|split]].
  - intros l bs Hf. rewrite jpvalue_S.
    destruct (skip_ws bs) as [|mb r] eqn:E; [discriminate|].
    apply skip_ws_cons_sfx in E. apply sfx_len in E. cbn [length] in E.
    apply IHb. lia.
  - intros l mb r Hf. rewrite jpbody_S.
    destruct (jclassify mb r) as [v r1|e| |] eqn:K; try discriminate.
    + destruct (jpelements f l false r) eqn:E; try discriminate.
      exfalso. revert E. apply IHe. lia.
    + destruct (jpmembers f l false r) eqn:E; try discriminate.
      exfalso. revert E. apply IHm. lia.
  - intros l some bs Hf. rewrite jpelements_S.
    destruct (head 93 l some bs) as [e|r|mb r] eqn:Eh; try discriminate.
    apply head_elem_len in Eh.
    destruct (jpbody f l mb r) as [x r3|e|] eqn:E1; try discriminate.
    + apply jpbody_shorter in E1.
      destruct (jpelements f l true r3) eqn:E2; try discriminate.
      exfalso. revert E2. apply IHe. lia.
    + exfalso. revert E1. apply IHb. lia.
  - intros l some bs Hf. rewrite jpmembers_S.
    destruct (head 125 l some bs) as [e|r|mb r] eqn:Eh; try discriminate.
    apply head_elem_len in Eh.
    destruct (key_head mb r) as [e|k r4] eqn:Ek; [discriminate|].
    apply key_head_sfx in Ek. destruct Ek as [_ Lk].
    destruct (jpvalue f l r4) as [v r5|e|] eqn:E1; try discriminate.
    + apply jpvalue_shorter in E1.
      destruct (jpmembers f l true r5) eqn:E2; try discriminate.
      exfalso. revert E2. apply IHm. lia.
    + exfalso. revert E1. apply IHv. lia.
Qed.

(* ====================================================================== *)
(* 7. Strict implies lenient                                               *)
(* ====================================================================== *)

Definition sl_value (f : nat) := forall bs n rest,
  jpvalue f false bs = POk n rest -> jpvalue f true bs = POk n rest.
Definition sl_body (f : nat) := forall mb r n rest,
  jpbody f false mb r = POk n rest -> jpbody f true mb r = POk n rest.
Definition sl_elems (f : nat) := forall some bs xs rest,
  jpelements f false some bs = POk xs rest -> jpelements f true some bs = POk xs rest.
Definition sl_membs (f : nat) := forall some bs es rest,
  jpmembers f false some bs = POk es rest -> jpmembers f true some bs = POk es rest.

Lemma sl_all : forall f, sl_value f /\ sl_body f /\ sl_elems f /\ sl_membs f.
Proof.
  induction f as [|f IH].
  { repeat split; repeat intro; discriminate. }
  destruct IH as (IHv & IHb & IHe & IHm).
  split; [|split; [|split]].
  - intros bs n rest H. rewrite jpvalue_S in *.
    destruct (skip_ws bs) as [|mb r]; [discriminate|]. apply IHb. exact H.
  - intros mb r n rest H. rewrite jpbody_S in *.
    destruct (jclassify mb r) as [v r1|e| |]; try exact H.
    + destruct (jpelements f false false r) as [xs r1|e|] eqn:E; try discriminate.
      apply IHe in E. rewrite E. exact H.
    + destruct (jpmembers f false false r) as [xs r1|e|] eqn:E; try discriminate.
      apply IHm in E. rewrite E. exact H.
  - intros some bs xs rest H. rewrite jpelements_S in *.
    pose proof (head_strict 93 some bs) as Hh.
    destruct (head 93 false some bs) as [e|r|mb r]; [discriminate| |]; rewrite Hh.
    + exact H.
    + destruct (jpbody f false mb r) as [x r3|e|] eqn:E1; try discriminate.
      apply IHb in E1. rewrite E1.
      destruct (jpelements f false true r3) as [xs' r4|e|] eqn:E2; try discriminate.
      apply IHe in E2. rewrite E2. exact H.
  - intros some bs es rest H. rewrite jpmembers_S in *.
    pose proof (head_strict 125 some bs) as Hh.
    destruct (head 125 false some bs) as [e|r|mb r]; [discriminate| |]; rewrite Hh.
    + exact H.
    + destruct (key_head mb r) as [e|k r4]; [discriminate|].
      destruct (jpvalue f false r4) as [v r5|e|] eqn:E1; try discriminate.
      apply IHv in E1. rewrite E1.
      destruct (jpmembers f false true r5) as [es' r6|e|] eqn:E2; try discriminate.
      apply IHm in E2. rewrite E2. exact H.
Qed.

(* ====================================================================== *)
(* 8. Executions of the machine                                            *)
(* ====================================================================== *)

(* [mexec s toks b s']: from [s] the machine emits [toks], one per step,
   none of the steps but possibly the last reports done; [b] tells whether
   the last one did; [s'] is the state after the last step. *)
Inductive mexec : jdec_state -> list token -> bool -> jdec_state -> Prop :=
| mexec_nil s : mexec s [] false s
| mexec_done s t s' : jdec_step s = JDTok t true s' -> mexec s [t] true s'
| mexec_cons s t s1 toks b s' :
    jdec_step s = JDTok t false s1 -> mexec s1 toks b s' -> mexec s (t :: toks) b s'.

Lemma mexec_one s t b s' : jdec_step s = JDTok t b s' -> mexec s [t] b s'.
Proof.
  destruct b; intros H.
  - eapply mexec_done; eauto.
  - eapply mexec_cons; [eauto|apply mexec_nil].
Qed.

Lemma mexec_app s t1 s1 : mexec s t1 false s1 ->
  forall t2 b s2, mexec s1 t2 b s2 -> mexec s (t1 ++ t2) b s2.
Proof.
  intros H. remember false as b0 eqn:Eb.
  induction H as [s|s t s' H|s t s1 toks b s' H H1 IH]; intros t2 b2 s2 H2.
  - exact H2.
  - discriminate.
  - cbn [app]. eapply mexec_cons; [exact H|]. apply IH; assumption.
Qed.

Lemma mexec_loop_cont s toks s' : mexec s toks false s' ->
  forall f acc, jdec_loop (length toks + f) s acc = jdec_loop f s' (rev toks ++ acc).
Proof.
  intros H. remember false as b0 eqn:Eb.
  induction H as [s|s t s' H|s t s1 toks b s' H H1 IH]; intros f acc.
  - reflexivity.
  - discriminate.
  - cbn [length Nat.add jdec_loop]. rewrite H.
    rewrite (IH Eb f (t :: acc)).
    cbn [rev]. rewrite <- app_assoc. reflexivity.
Qed.

Lemma mexec_loop_done s toks s' : mexec s toks true s' ->
  forall f acc, (length toks <= f)%nat ->
    jdec_loop f s acc = JDOk (rev acc ++ toks) (jdinp s').
Proof.
  intros H. remember true as b0 eqn:Eb.
  induction H as [s|s t s' H|s t s1 toks b s' H H1 IH]; intros f acc Hf.
  - discriminate.
  - destruct f as [|f]; [cbn [length] in Hf; lia|]. cbn [jdec_loop]. rewrite H.
    cbn [rev]. reflexivity.
  - destruct f as [|f]; [cbn [length] in Hf; lia|]. cbn [jdec_loop]. rewrite H.
    cbn [length] in Hf.
    rewrite (IH Eb f (t :: acc)); [|lia].
    cbn [rev]. rewrite <- app_assoc. reflexivity.
Qed.

(* the machine fails with [e] after at most [bound] tokens *)
Definition mfail (s : jdec_state) (e : derr) (bound : nat) : Prop :=
  exists toks s1, mexec s toks false s1 /\ jdec_step s1 = JDErr e /\
                  (length toks <= bound)%nat.

Lemma mfail_loop s e bound : mfail s e bound ->
  forall f acc, (bound < f)%nat -> exists toks', jdec_loop f s acc = JDFail e toks'.
Proof.
  intros (toks & s1 & H & E & L) f acc Hf.
  replace f with (length toks + S (f - length toks - 1))%nat by lia.
  rewrite (mexec_loop_cont _ _ _ H (S (f - length toks - 1)) acc).
  cbn [jdec_loop]. rewrite E. eauto.
Qed.

Lemma mfail_now s e b : jdec_step s = JDErr e -> mfail s e b.
Proof.
  intros H. exists [], s. split; [apply mexec_nil|]. split; [exact H|]. cbn [length]. lia.
Qed.

Lemma mfail_app s t1 s1 e b b' :
  mexec s t1 false s1 -> mfail s1 e b -> (length t1 + b <= b')%nat -> mfail s e b'.
Proof.
  intros M (toks & s2 & H & E & L) Hb.
  exists (t1 ++ toks), s2. split; [eapply mexec_app; eauto|]. split; [exact E|].
  rewrite app_length. lia.
Qed.

Lemma mfail_weaken s e b b' : mfail s e b -> (b <= b')%nat -> mfail s e b'.
Proof.
  intros (toks & s2 & H & E & L) Hb. exists toks, s2.
  split; [exact H|]. split; [exact E|]. lia.
Qed.

(* ====================================================================== *)
(* 9. Characterising step lemmas                                           *)
(* ====================================================================== *)

Definition wrapb (top : bool) (r : jsub) : jsub := if top then r else jnot_done r.
Definition isnil {A} (l : list A) : bool := match l with [] => true | _ => false end.

Lemma isnil_false_ne {A} (l : list A) : isnil l = false -> l <> [].
Proof. destruct l; [discriminate|congruence]. Qed.

Lemma step_scalar s t s' :
  jsub_step s = wrapb (isnil (jdstack s')) (JSubTok t true s') ->
  mexec s [t] (isnil (jdstack s')) s'.
Proof.
  intros H. apply mexec_one. unfold jdec_step. rewrite H.
  destruct (jdstack s') as [|q stk] eqn:E; cbn [isnil wrapb jnot_done].
  - rewrite E. reflexivity.
  - reflexivity.
Qed.

Lemma step_err s top e : jsub_step s = wrapb top (JSubErr e) -> jdec_step s = JDErr e.
Proof. intros H. unfold jdec_step. rewrite H. destruct top; reflexivity. Qed.

Lemma step_err' s e : jsub_step s = JSubErr e -> jdec_step s = JDErr e.
Proof. intros H. unfold jdec_step. rewrite H. reflexivity. Qed.

Lemma step_open s top t s' :
  jsub_step s = wrapb top (JSubTok t false s') -> jdec_step s = JDTok t false s'.
Proof. intros H. unfold jdec_step. rewrite H. destruct top; reflexivity. Qed.

Lemma step_close s t fr p stk inp :
  jsub_step s = JSubTok t true (JDecSt fr (p :: stk) inp) ->
  exists s', mexec s [t] (isnil stk) s' /\ jdinp s' = inp /\
             (stk <> [] -> s' = JDecSt p stk inp).
Proof.
  intros H. destruct stk as [|q stk].
  - exists (JDecSt fr [p] inp). split; [|split].
    + eapply mexec_done. unfold jdec_step. rewrite H. reflexivity.
    + reflexivity.
    + congruence.
  - exists (JDecSt p (q :: stk) inp). split; [|split].
    + eapply mexec_cons; [|apply mexec_nil]. unfold jdec_step. rewrite H. reflexivity.
    + reflexivity.
    + reflexivity.
Qed.

(* the two positions where a whole value (with leading whitespace) is expected:
   the top level and after a member's colon; the second state is the one the
   value's first byte is handed to jaccept_value with *)
Inductive vctx : jdec_state -> jdec_state -> Prop :=
| vctx_top bs : vctx (JDecSt (JFrame KAny false) [] bs) (JDecSt (JFrame KAny false) [] bs)
| vctx_mapval p stk bs :
    vctx (JDecSt (JFrame KMapVal false) (p :: stk) bs) (JDecSt (JFrame KMapKey true) (p :: stk) bs).

Lemma jsub_step_vctx s s0 : vctx s s0 ->
  jsub_step s =
  match skip_ws (jdinp s) with
  | [] => JSubErr EEof
  | mb :: r => wrapb (isnil (jdstack s0)) (jaccept_value mb s0 r)
  end.
Proof.
  intros H. destruct H; unfold jsub_step;
    cbn [jdframe jdinp jk jfsome jdstack isnil wrapb with_frame];
    destruct (skip_ws bs); reflexivity.
Qed.

Lemma jsub_step_arr some stk bs :
  jsub_step (JDecSt (JFrame KArr some) stk bs) =
  match head 93 true some bs with
  | EHErr e => JSubErr e
  | EHClose r => JSubTok (Tok ArrClose None) true (JDecSt (JFrame KArr some) stk r)
  | EHElem mb r => jnot_done (jaccept_value mb (JDecSt (JFrame KArr true) stk bs) r)
  end.
Proof.
  unfold jsub_step, head. cbn [jdframe jdinp jk jfsome].
  destruct (skip_ws bs) as [|mb r]; [reflexivity|].
  destruct some.
  - destruct (mb =? 93); [reflexivity|].
    destruct (mb =? 44); [|reflexivity].
    destruct (skip_ws r) as [|mb2 r2]; [reflexivity|].
    destruct (mb2 =? 93); reflexivity.
  - destruct (mb =? 93); reflexivity.
Qed.

Lemma jsub_step_key some stk bs :
  jsub_step (JDecSt (JFrame KMapKey some) stk bs) =
  match head 125 true some bs with
  | EHErr e => JSubErr e
  | EHClose r => JSubTok (Tok MapClose None) true (JDecSt (JFrame KMapKey some) stk r)
  | EHElem mb r =>
      match key_head mb r with
      | KHErr e => JSubErr e
      | KHKey k r4 => JSubTok (Tok (Str k) None) false (JDecSt (JFrame KMapVal false) stk r4)
      end
  end.
Proof.
  assert (K : forall mb2 r2,
    (if mb2 =? 34 then
       match dec_string r2 with
       | inr e => JSubErr e
       | inl (str, r3) =>
         match skip_ws r3 with
         | [] => JSubErr EEof
         | c :: r4 =>
           if c =? 58 then JSubTok (Tok (Str str) None) false
                             (JDecSt (JFrame KMapVal false)
                                     (jdstack (JDecSt (JFrame KMapKey some) stk bs)) r4)
           else JSubErr EMalformed
         end
       end
     else JSubErr EMalformed) =
    match key_head mb2 r2 with
    | KHErr e => JSubErr e
    | KHKey k r4 => JSubTok (Tok (Str k) None) false (JDecSt (JFrame KMapVal false) stk r4)
    end).
  { intros mb2 r2. unfold key_head.
    destruct (mb2 =? 34); [|reflexivity].
    destruct (dec_string r2) as [[k r3]|e]; [|reflexivity].
    destruct (skip_ws r3) as [|c r4]; [reflexivity|].
    destruct (c =? 58); reflexivity. }
  unfold jsub_step, head. cbn [jdframe jdinp jk jfsome].
  destruct (skip_ws bs) as [|mb r]; [reflexivity|].
  destruct some.
  - destruct (mb =? 125); [reflexivity|].
    destruct (mb =? 44); [|reflexivity].
    destruct (skip_ws r) as [|mb2 r2]; [reflexivity|].
    destruct (mb2 =? 125); [reflexivity|]. apply K.
  - destruct (mb =? 125); [reflexivity|]. apply K.
Qed.

(* ====================================================================== *)
(* 10. The simulation                                                      *)
(* ====================================================================== *)

Definition item_sim (s : jdec_state) (bound : nat) (after : bytes -> jdec_state)
           (top : bool) (r : pres tnode) : Prop :=
  match r with
  | POk n rest =>
      exists s', mexec s (flatten n) top s' /\ jdinp s' = rest /\
                 (top = false -> s' = after rest)
  | PErr e => mfail s e bound
  | PFuel => True
  end.

Definition seq_sim {A} (fl : A -> list token) (cl : token) (s : jdec_state)
           (bound : nat) (p : jframe) (stk : list jframe)
           (r : pres (list A)) : Prop :=
  match r with
  | POk xs rest =>
      exists s', mexec s (flat_map fl xs ++ [cl]) (isnil stk) s' /\ jdinp s' = rest /\
                 (stk <> [] -> s' = JDecSt p stk rest)
  | PErr e => mfail s e bound
  | PFuel => True
  end.

Lemma item_sim_weaken s b b' after top r :
  item_sim s b after top r -> (b <= b')%nat -> item_sim s b' after top r.
Proof.
  intros H Hb. destruct r as [n rest|e|]; cbn [item_sim] in *.
  - exact H.
  - eapply mfail_weaken; eauto.
  - exact I.
Qed.

Lemma seq_cons {A} (fl : A -> list token) cl s s1 b b1 p stk x (r : pres (list A)) :
  mexec s (fl x) false s1 -> seq_sim fl cl s1 b1 p stk r ->
  (length (fl x) + b1 <= b)%nat ->
  seq_sim fl cl s b p stk
    (match r with POk xs r2 => POk (x :: xs) r2 | PErr e => PErr e | PFuel => PFuel end).
Proof.
  intros M R Hb. destruct r as [xs r2|e|]; cbn [seq_sim] in *.
  - destruct R as [s' [M2 [D Ha]]]. exists s'. split; [|split; assumption].
    cbn [flat_map]. rewrite <- app_assoc. eapply mexec_app; eauto.
  - eapply mfail_app; eauto.
  - exact I.
Qed.

Definition sim_value (f : nat) := forall s s0, vctx s s0 ->
  item_sim s (length (jdinp s)) (set_inp s0) (isnil (jdstack s0)) (jpvalue f true (jdinp s)).
Definition sim_body (f : nat) := forall mb r s s0,
  jsub_step s = wrapb (isnil (jdstack s0)) (jaccept_value mb s0 r) ->
  item_sim s (length r + 1) (set_inp s0) (isnil (jdstack s0)) (jpbody f true mb r).
Definition sim_elems (f : nat) := forall some p stk bs,
  seq_sim flatten (Tok ArrClose None) (JDecSt (JFrame KArr some) (p :: stk) bs)
          (length bs) p stk (jpelements f true some bs).
Definition sim_membs (f : nat) := forall some p stk bs,
  seq_sim flatpair (Tok MapClose None) (JDecSt (JFrame KMapKey some) (p :: stk) bs)
          (length bs) p stk (jpmembers f true some bs).

Lemma sim_value_step f : sim_body f -> sim_value (S f).
Proof.
  intros IHb s s0 Hc. rewrite jpvalue_S.
  pose proof (jsub_step_vctx s s0 Hc) as Hs.
  destruct (skip_ws (jdinp s)) as [|mb r] eqn:E.
  - cbn [item_sim]. apply mfail_now. apply step_err'. exact Hs.
  - apply skip_ws_cons_sfx in E. apply sfx_len in E. cbn [length] in E.
    eapply item_sim_weaken; [apply IHb; exact Hs|lia].
Qed.

Lemma sim_body_step f : sim_elems f -> sim_membs f -> sim_body (S f).
Proof.
  intros IHe IHm mb r s s0 Hs. rewrite jpbody_S.
  rewrite jaccept_classify in Hs.
  destruct (jclassify mb r) as [v r1|e| |] eqn:K.
  - cbn [item_sim]. exists (set_inp s0 r1).
    apply jclassify_scalar in K. destruct K as [_ Lf]. rewrite (flatten_leaf _ _ Lf).
    split; [|split].
    + apply (step_scalar s _ (set_inp s0 r1)). exact Hs.
    + reflexivity.
    + reflexivity.
  - cbn [item_sim]. eapply mfail_now. eapply step_err. exact Hs.
  - apply step_open in Hs. unfold jpush_frame in Hs.
    specialize (IHe false (jdframe s0) (jdstack s0) r).
    destruct (jpelements f true false r) as [xs rest|e|]; cbn [seq_sim item_sim] in *.
    + destruct IHe as [s' [M [D A]]]. exists s'. split; [|split].
      * cbn [flatten]. eapply mexec_cons; [exact Hs|exact M].
      * exact D.
      * intros T. apply A. apply isnil_false_ne. exact T.
    + eapply mfail_app; [eapply mexec_cons; [exact Hs|apply mexec_nil]|exact IHe|].
      cbn [length]. lia.
    + exact I.
  - apply step_open in Hs. unfold jpush_frame in Hs.
    specialize (IHm false (jdframe s0) (jdstack s0) r).
    destruct (jpmembers f true false r) as [xs rest|e|]; cbn [seq_sim item_sim] in *.
    + destruct IHm as [s' [M [D A]]]. exists s'. split; [|split].
      * cbn [flatten]. eapply mexec_cons; [exact Hs|exact M].
      * exact D.
      * intros T. apply A. apply isnil_false_ne. exact T.
    + eapply mfail_app; [eapply mexec_cons; [exact Hs|apply mexec_nil]|exact IHm|].
      cbn [length]. lia.
    + exact I.
Qed.

Lemma sim_elems_step f : sim_body f -> sim_elems f -> sim_elems (S f).
Proof.
  intros IHb IHe some p stk bs. rewrite jpelements_S.
  pose proof (jsub_step_arr some (p :: stk) bs) as Hs.
  destruct (head 93 true some bs) as [e|r|mb r] eqn:Eh.
  - cbn [seq_sim]. apply mfail_now. apply step_err'. exact Hs.
  - cbn [seq_sim flat_map app]. eapply step_close. exact Hs.
  - pose proof (IHb mb r _ (JDecSt (JFrame KArr true) (p :: stk) bs) Hs) as R.
    cbn [jdstack isnil] in R.
    apply head_elem_len in Eh.
    destruct (jpbody f true mb r) as [x r3|e|] eqn:E1; cbn [item_sim] in R.
    + destruct R as [s1 [M [D A]]]. specialize (A eq_refl). subst s1.
      cbn [set_inp jdframe jdstack] in M.
      apply jpbody_wf in E1. destruct E1 as [_ L1].
      eapply seq_cons; [exact M|apply IHe|lia].
    + cbn [seq_sim]. eapply mfail_weaken; [exact R|lia].
    + exact I.
Qed.

Lemma sim_membs_step f : sim_value f -> sim_membs f -> sim_membs (S f).
Proof.
  intros IHv IHm some p stk bs. rewrite jpmembers_S.
  pose proof (jsub_step_key some (p :: stk) bs) as Hs.
  destruct (head 125 true some bs) as [e|r|mb r] eqn:Eh.
  - cbn [seq_sim]. apply mfail_now. apply step_err'. exact Hs.
  - cbn [seq_sim flat_map app]. eapply step_close. exact Hs.
  - apply head_elem_len in Eh.
    destruct (key_head mb r) as [e|k r4] eqn:Ek.
    { cbn [seq_sim]. apply mfail_now. apply step_err'. exact Hs. }
    apply key_head_sfx in Ek. destruct Ek as [_ Lk].
    assert (M0 : mexec (JDecSt (JFrame KMapKey some) (p :: stk) bs) [Tok (Str k) None] false
                       (JDecSt (JFrame KMapVal false) (p :: stk) r4)).
    { apply mexec_one. unfold jdec_step. rewrite Hs. reflexivity. }
    pose proof (IHv _ _ (vctx_mapval p stk r4)) as R.
    cbn [jdstack jdinp isnil] in R.
    destruct (jpvalue f true r4) as [v r5|e|] eqn:E1; cbn [item_sim] in R.
    + destruct R as [s2 [M [D A]]]. specialize (A eq_refl). subst s2.
      cbn [set_inp jdframe jdstack] in M.
      apply jpvalue_wf in E1. destruct E1 as [_ L1].
      eapply (seq_cons flatpair) with (x := (Node None (VStr k), v)); [|apply IHm|].
      * unfold flatpair. cbn [fst snd flatten]. eapply mexec_app; eauto.
      * unfold flatpair. cbn [fst snd flatten]. rewrite app_length. cbn [length]. lia.
    + cbn [seq_sim]. eapply mfail_app; [exact M0|exact R|]. cbn [length]. lia.
    + exact I.
Qed.

Lemma sim_all : forall f, sim_value f /\ sim_body f /\ sim_elems f /\ sim_membs f.
Proof.
  induction f as [|f IH].
  { repeat split; repeat intro; exact I. }
  destruct IH as (IHv & IHb & IHe & IHm).
  split; [|split; [|split]].
  - apply sim_value_step; assumption.
  - apply sim_body_step; assumption.
  - apply sim_elems_step; assumption.
  - apply sim_membs_step; assumption.
Qed.

Lemma run_sim fuel bs :
  item_sim (jdec_init bs) (length bs) (set_inp (jdec_init bs)) true (jpvalue fuel true bs).
Proof.
  destruct (sim_all fuel) as [Hv _].
  apply (Hv (jdec_init bs) (jdec_init bs)). constructor.
Qed.

(* ====================================================================== *)
(* STATEMENTS TO PROVE (do not change them)                                *)
(* ====================================================================== *)

Theorem jdec_complete : forall fuel bs n rest,
  jpvalue fuel true bs = POk n rest -> jdec_run bs = JDOk (flatten n) rest.
Proof.
  intros fuel bs n rest H.
  pose proof (run_sim fuel bs) as R. rewrite H in R. cbn [item_sim] in R.
  destruct R as [s' [M [D _]]].
  apply jpvalue_wf in H. destruct H as [_ L].
  unfold jdec_run.
  rewrite (mexec_loop_done _ _ _ M (length bs + 2)%nat []); [|lia].
  cbn [rev app]. rewrite D. reflexivity.
Qed.

Theorem jdec_error : forall fuel bs e,
  jpvalue fuel true bs = PErr e -> exists toks, jdec_run bs = JDFail e toks.
Proof.
  intros fuel bs e H.
  pose proof (run_sim fuel bs) as R. rewrite H in R. cbn [item_sim] in R.
  unfold jdec_run. eapply mfail_loop; [exact R|lia].
Qed.

Theorem jparse_item_total : forall lenient bs, jparse_item lenient bs <> PFuel.
Proof.
  intros l bs. unfold jparse_item. apply (nf_all (4 * length bs + 4)). lia.
Qed.

Theorem jdec_sound : forall bs toks rest,
  jdec_run bs = JDOk toks rest -> exists n, jparse_item true bs = POk n rest /\ toks = flatten n.
Proof.
  intros bs toks rest H.
  destruct (jparse_item true bs) as [n r|e|] eqn:E.
  - unfold jparse_item in E. apply jdec_complete in E.
    rewrite H in E. inversion E; subst. exists n. split; reflexivity.
  - unfold jparse_item in E. apply jdec_error in E. destruct E as [t' E].
    rewrite H in E. discriminate.
  - exfalso. revert E. apply jparse_item_total.
Qed.

Theorem jdec_rejects : forall bs e toks,
  jdec_run bs = JDFail e toks -> jparse_item true bs = PErr e.
Proof.
  intros bs e toks H.
  destruct (jparse_item true bs) as [n r|e'|] eqn:E.
  - unfold jparse_item in E. apply jdec_complete in E.
    rewrite H in E. discriminate.
  - unfold jparse_item in E. apply jdec_error in E. destruct E as [t' E].
    rewrite H in E. inversion E; subst. reflexivity.
  - exfalso. revert E. apply jparse_item_total.
Qed.

Theorem jdec_total : forall bs,
  (exists toks rest, jdec_run bs = JDOk toks rest) \/ (exists e toks, jdec_run bs = JDFail e toks).
Proof.
  intros bs.
  destruct (jparse_item true bs) as [n r|e|] eqn:E.
  - left. unfold jparse_item in E. apply jdec_complete in E. eauto.
  - right. unfold jparse_item in E. apply jdec_error in E. destruct E as [t' E]. eauto.
  - exfalso. revert E. apply jparse_item_total.
Qed.

Theorem jdec_consumes_prefix : forall bs toks rest,
  jdec_run bs = JDOk toks rest -> exists used, bs = used ++ rest /\ used <> [].
Proof.
  intros bs toks rest H.
  apply jdec_sound in H. destruct H as [n [E _]]. unfold jparse_item in E.
  pose proof (jpvalue_shorter _ _ _ _ _ E) as Ls.
  apply jpvalue_wf in E. destruct E as [[used Hu] _].
  exists used. split; [exact Hu|].
  intros ->. cbn [app] in Hu. subst. lia.
Qed.

(* the leniency only adds texts: what the strict RFC 8259 reading accepts, the
   lenient reading accepts with the same value and rest *)
Theorem strict_implies_lenient : forall fuel bs n rest,
  jpvalue fuel false bs = POk n rest -> jpvalue fuel true bs = POk n rest.
Proof.
  intros fuel. apply (sl_all fuel).
Qed.

Print Assumptions jdec_complete.
Print Assumptions jdec_error.
Print Assumptions jparse_item_total.
Print Assumptions jdec_sound.
Print Assumptions jdec_rejects.
Print Assumptions jdec_total.
Print Assumptions jdec_consumes_prefix.
Print Assumptions strict_implies_lenient.
