(* Pump.v — shared.TokenPump joining a decoder to an encoder (shared/pump.go):
   one token per iteration; the run succeeds iff the source finishes one item
   and the sink finishes on that same token; any error of either side is the
   pump's error. *)
From Coq Require Import List ZArith Bool Lia.
Require Import Tok CborEnc CborDec JsonEnc JsonDec.
Import ListNotations.
Open Scope Z_scope.

Inductive pump_res :=
| PumpOk (out : bytes) (rest : bytes)     (* bytes written; unread input *)
| PumpErr.

(* JSON text -> CBOR *)
Definition pump_j2c (bs : bytes) : pump_res :=
  match jdec_run bs with
  | JDOk toks rest =>
      match enc_tokens toks with
      | Finished chunks n => if Nat.eqb n (length toks) then PumpOk (concat chunks) rest else PumpErr
      | _ => PumpErr
      end
  | _ => PumpErr
  end.

(* CBOR -> JSON text *)
Definition pump_c2j (sh : Z -> list Z * Z) (o : jopts) (coerce : bool) (bs : bytes) : pump_res :=
  match dec_run coerce bs with
  | DOk toks rest _ =>
      match jenc_tokens sh o toks with
      | JFinished chunks n => if Nat.eqb n (length toks) then PumpOk (concat chunks) rest else PumpErr
      | _ => PumpErr
      end
  | _ => PumpErr
  end.

(* same-format pumps (re-encoding) *)
Definition pump_c2c (coerce : bool) (bs : bytes) : pump_res :=
  match dec_run coerce bs with
  | DOk toks rest _ =>
      match enc_tokens toks with
      | Finished chunks n => if Nat.eqb n (length toks) then PumpOk (concat chunks) rest else PumpErr
      | _ => PumpErr
      end
  | _ => PumpErr
  end.

Definition pump_j2j (sh : Z -> list Z * Z) (o : jopts) (bs : bytes) : pump_res :=
  match jdec_run bs with
  | JDOk toks rest =>
      match jenc_tokens sh o toks with
      | JFinished chunks n => if Nat.eqb n (length toks) then PumpOk (concat chunks) rest else PumpErr
      | _ => PumpErr
      end
  | _ => PumpErr
  end.
