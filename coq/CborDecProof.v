(* CborDecProof.v — the decoder automaton (CborDec.v) is equivalent to the
   recursive-descent reference reading (CborParse.v): same tokens and rest on
   success, same error class on failure; it never panics or runs out of fuel. *)
From Coq Require Import List ZArith Bool Lia.
From Coq Require Import ZifyBool ZifyNat.
Require Import Tok CborSpec CborEnc CborDec CborParse.
Import ListNotations.
Open Scope Z_scope.

(* ====================================================================== *)
(* 1. Suffixes                                                             *)
(* ====================================================================== *)

Definition sfx (rest bs : bytes) : Prop := exists used, bs = used ++ rest.

Lemma sfx_refl bs : sfx bs bs.
Proof. exists []. reflexivity. Qed.

Lemma sfx_cons b rest bs : sfx rest bs -> sfx rest (b :: bs).
Proof. intros [u ->]. exists (b :: u). reflexivity. Qed.

Lemma sfx_trans a b c : sfx a b -> sfx b c -> sfx a c.
Proof. intros [u ->] [v ->]. exists (v ++ u). rewrite app_assoc. reflexivity. Qed.

Lemma sfx_len rest bs : sfx rest bs -> (length rest <= length bs)%nat.
Proof. intros [u ->]. rewrite app_length. lia. Qed.

Lemma readn_sfx n bs a rest : readn n bs = inl (a, rest) -> sfx rest bs.
Proof.
  unfold readn. destruct (n =? 0).
  - intros H. inversion H. apply sfx_refl.
  - destruct (Z.of_nat (length bs) <? n); [discriminate|].
    intros H. inversion H. exists (firstn (Z.to_nat n) bs).
    symmetry. apply firstn_skipn.
Qed.

Lemma dec_uint_sfx mb bs u rest : dec_uint mb bs = inl (u, rest) -> sfx rest bs.
Proof.
  unfold dec_uint.
  destruct (Z.land mb 31 <=? 23).
  { intros H. inversion H. apply sfx_refl. }
  destruct (Z.land mb 31 =? 24).
  { destruct bs as [|b r]; cbn [readn1]; intros H; inversion H.
    apply sfx_cons, sfx_refl. }
  destruct (Z.land mb 31 =? 25).
  { destruct (readn 2 bs) as [[a r]|e] eqn:E; intros H; inversion H. subst.
    eapply readn_sfx; eauto. }
  destruct (Z.land mb 31 =? 26).
  { destruct (readn 4 bs) as [[a r]|e] eqn:E; intros H; inversion H. subst.
    eapply readn_sfx; eauto. }
  destruct (Z.land mb 31 =? 27).
  { destruct (readn 8 bs) as [[a r]|e] eqn:E; intros H; inversion H. subst.
    eapply readn_sfx; eauto. }
  discriminate.
Qed.

Lemma dec_len_sfx mb bs u rest : dec_len mb bs = inl (u, rest) -> sfx rest bs.
Proof.
  unfold dec_len. destruct (dec_uint mb bs) as [[x r]|e] eqn:E; [|discriminate].
  destruct (maxInt <? x); [discriminate|]. intros H; inversion H; subst.
  eapply dec_uint_sfx; eauto.
Qed.

Lemma dec_negint_sfx mb bs u rest : dec_negint mb bs = inl (u, rest) -> sfx rest bs.
Proof.
  unfold dec_negint. destruct (dec_uint mb bs) as [[x r]|e] eqn:E; [|discriminate].
  destruct (maxInt <? x); [discriminate|]. intros H; inversion H; subst.
  eapply dec_uint_sfx; eauto.
Qed.

Lemma dec_float_sfx mb bs u rest : dec_float mb bs = inl (u, rest) -> sfx rest bs.
Proof.
  unfold dec_float.
  destruct (mb =? sigF16).
  { destruct (readn 2 bs) as [[a r]|e] eqn:E; intros H; inversion H. subst.
    eapply readn_sfx; eauto. }
  destruct (mb =? sigF32).
  { destruct (readn 4 bs) as [[a r]|e] eqn:E; intros H; inversion H. subst.
    eapply readn_sfx; eauto. }
  destruct (readn 8 bs) as [[a r]|e] eqn:E; intros H; inversion H. subst.
  eapply readn_sfx; eauto.
Qed.

Lemma dec_bytes_sfx mb bs a rest : fst (dec_bytes mb bs) = inl (a, rest) -> sfx rest bs.
Proof.
  unfold dec_bytes. destruct (dec_len mb bs) as [[n r]|e] eqn:E; [|discriminate].
  destruct (item_cap <? n); [discriminate|]. cbn [fst]. intros H.
  eapply sfx_trans; [eapply readn_sfx; eauto | eapply dec_len_sfx; eauto].
Qed.

Lemma dec_chunks_sfx fuel : forall want acc cap alloc bs a rest,
  fst (dec_chunks fuel want acc cap alloc bs) = inl (a, rest) -> sfx rest bs.
Proof.
  induction fuel as [|f IH]; intros want acc cap alloc bs a rest; cbn [dec_chunks].
  - discriminate.
  - destruct bs as [|mb r]; cbn [readn1]; [discriminate|].
    destruct (mb =? sigBreak).
    { cbn [fst]. intros H; inversion H; subst. apply sfx_cons, sfx_refl. }
    destruct (negb (mb - Z.land mb 31 =? want)); [discriminate|].
    destruct (dec_len mb r) as [[n r2]|e] eqn:E; [|discriminate].
    destruct (item_cap <? n); [discriminate|].
    destruct (cap <? Z.of_nat (length acc) + n).
    + destruct (readn n r2) as [[c0 r3]|e] eqn:E2; [|discriminate].
      intros H. apply IH in H. apply sfx_cons.
      eapply sfx_trans; [exact H|]. eapply sfx_trans; [eapply readn_sfx; eauto|].
      eapply dec_len_sfx; eauto.
    + destruct (readn n r2) as [[c0 r3]|e] eqn:E2; [|discriminate].
      intros H. apply IH in H. apply sfx_cons.
      eapply sfx_trans; [exact H|]. eapply sfx_trans; [eapply readn_sfx; eauto|].
      eapply dec_len_sfx; eauto.
Qed.

Lemma dec_indef_string_sfx want bs a rest :
  fst (dec_indef_string want bs) = inl (a, rest) -> sfx rest bs.
Proof. unfold dec_indef_string. apply dec_chunks_sfx. Qed.

(* ====================================================================== *)
(* 2. Classification of the byte that starts a body                       *)
(* ====================================================================== *)

Inductive bclass :=
| BScalar (v : tval) (rest : bytes) (a : Z)
| BErr (e : derr)
| BArrI
| BMapI
| BArrD (n : Z) (rest : bytes)
| BMapD (n : Z) (rest : bytes).

Definition cls_res (f : bytes -> tval) (ra : ((bytes * bytes) + derr) * Z) : bclass :=
  match fst ra with inl (x, rest) => BScalar (f x) rest (snd ra) | inr e => BErr e end.
Definition cls_z (f : Z -> tval) (r : (Z * bytes) + derr) : bclass :=
  match r with inl (x, rest) => BScalar (f x) rest 0 | inr e => BErr e end.

Definition classify (c : bool) (mb : Z) (bs : bytes) : bclass :=
  if mb =? sigNil then BScalar VNull bs 0
  else if mb =? sigUndef then (if c then BScalar VNull bs 0 else BErr EMalformed)
  else if mb =? sigFalse then BScalar (VBool false) bs 0
  else if mb =? sigTrue then BScalar (VBool true) bs 0
  else if (mb =? sigF16) || (mb =? sigF32) || (mb =? sigF64) then cls_z VFlt (dec_float mb bs)
  else if mb =? sigIndefBytes then cls_res VByt (dec_indef_string majBytes bs)
  else if mb =? sigIndefString then cls_res VStr (dec_indef_string majString bs)
  else if mb =? sigIndefArray then BArrI
  else if mb =? sigIndefMap then BMapI
  else if mb <? majNegInt then cls_z VUint (dec_uint mb bs)
  else if mb <? majBytes then cls_z VInt (dec_negint mb bs)
  else if mb <? majString then cls_res VByt (dec_bytes mb bs)
  else if mb <? majArray then cls_res VStr (dec_bytes mb bs)
  else if mb <? majMap then
    match dec_len mb bs with inl (n, rest) => BArrD n rest | inr e => BErr e end
  else if mb <? majTag then
    match dec_len mb bs with inl (n, rest) => BMapD n rest | inr e => BErr e end
  else BErr EMalformed.

(* what the parser does with a class *)
Definition pinterp (f : nat) (c : bool) (tg : option Z) (bs : bytes) (k : bclass) : pres tnode :=
  match k with
  | BScalar v rest _ => POk (Node tg v) rest
  | BErr e => PErr e
  | BArrI =>
      match pitems_indef f c bs with
      | POk xs rest => POk (Node tg (VArr (-1) xs)) rest
      | PErr e => PErr e | PFuel => PFuel
      end
  | BMapI =>
      match ppairs_indef f c bs with
      | POk es rest => POk (Node tg (VMap (-1) es)) rest
      | PErr e => PErr e | PFuel => PFuel
      end
  | BArrD n r =>
      match pitems_def f c n r with
      | POk xs rest => POk (Node tg (VArr n xs)) rest
      | PErr e => PErr e | PFuel => PFuel
      end
  | BMapD n r =>
      match ppairs_def f c n r with
      | POk es rest => POk (Node tg (VMap n es)) rest
      | PErr e => PErr e | PFuel => PFuel
      end
  end.

(* what the machine does with a class *)
Definition minterp (tg : option Z) (s : dec_state) (k : bclass) : sub_res :=
  match k with
  | BScalar v rest a => SubTok (Tok (leaf_tok v) tg) true (with_inp s rest) a
  | BErr e => SubErr e s
  | BArrI => SubTok (Tok (ArrOpen (-1)) tg) false (dec_push s DArrIndef) 8
  | BMapI => SubTok (Tok (MapOpen (-1)) tg) false (dec_push s DMapIndefKey) 8
  | BArrD n rest =>
      SubTok (Tok (ArrOpen n) tg) false
             (dec_push (DecSt (dph s) (dstack s) (n :: dleft s) rest) DArrDef) 16
  | BMapD n rest =>
      SubTok (Tok (MapOpen n) tg) false
             (dec_push (DecSt (dph s) (dstack s) (n :: dleft s) rest) DMapDefKey) 16
  end.

Lemma pbody_S f c mb tg bs :
  pbody (S f) c mb tg bs = pinterp f c tg bs (classify c mb bs).
Proof.
  cbn [pbody]. unfold classify.
  destruct (mb =? sigNil); [reflexivity|].
  destruct (mb =? sigUndef); [destruct c; reflexivity|].
  destruct (mb =? sigFalse); [reflexivity|].
  destruct (mb =? sigTrue); [reflexivity|].
  destruct ((mb =? sigF16) || (mb =? sigF32) || (mb =? sigF64)).
  { unfold cls_z. destruct (dec_float mb bs) as [[x r]|e]; reflexivity. }
  destruct (mb =? sigIndefBytes).
  { unfold cls_res, pscalar. destruct (fst (dec_indef_string majBytes bs)) as [[x r]|e]; reflexivity. }
  destruct (mb =? sigIndefString).
  { unfold cls_res, pscalar. destruct (fst (dec_indef_string majString bs)) as [[x r]|e]; reflexivity. }
  destruct (mb =? sigIndefArray); [reflexivity|].
  destruct (mb =? sigIndefMap); [reflexivity|].
  destruct (mb <? majNegInt).
  { unfold cls_z. destruct (dec_uint mb bs) as [[x r]|e]; reflexivity. }
  destruct (mb <? majBytes).
  { unfold cls_z. destruct (dec_negint mb bs) as [[x r]|e]; reflexivity. }
  destruct (mb <? majString).
  { unfold cls_res, pscalar. destruct (fst (dec_bytes mb bs)) as [[x r]|e]; reflexivity. }
  destruct (mb <? majArray).
  { unfold cls_res, pscalar. destruct (fst (dec_bytes mb bs)) as [[x r]|e]; reflexivity. }
  destruct (mb <? majMap).
  { destruct (dec_len mb bs) as [[x r]|e]; reflexivity. }
  destruct (mb <? majTag).
  { destruct (dec_len mb bs) as [[x r]|e]; reflexivity. }
  reflexivity.
Qed.

Lemma accept_untagged_classify c mb tg s :
  accept_untagged c mb tg s = minterp tg s (classify c mb (dinp s)).
Proof.
  unfold accept_untagged, classify.
  destruct (mb =? sigNil); [reflexivity|].
  destruct (mb =? sigUndef); [destruct c; reflexivity|].
  destruct (mb =? sigFalse); [reflexivity|].
  destruct (mb =? sigTrue); [reflexivity|].
  destruct ((mb =? sigF16) || (mb =? sigF32) || (mb =? sigF64)).
  { unfold cls_z. destruct (dec_float mb (dinp s)) as [[x r]|e]; reflexivity. }
  destruct (mb =? sigIndefBytes).
  { unfold cls_res. destruct (dec_indef_string majBytes (dinp s)) as [[[x r]|e] a]; reflexivity. }
  destruct (mb =? sigIndefString).
  { unfold cls_res. destruct (dec_indef_string majString (dinp s)) as [[[x r]|e] a]; reflexivity. }
  destruct (mb =? sigIndefArray); [reflexivity|].
  destruct (mb =? sigIndefMap); [reflexivity|].
  destruct (mb <? majNegInt).
  { unfold cls_z. destruct (dec_uint mb (dinp s)) as [[x r]|e]; reflexivity. }
  destruct (mb <? majBytes).
  { unfold cls_z. destruct (dec_negint mb (dinp s)) as [[x r]|e]; reflexivity. }
  destruct (mb <? majString).
  { unfold cls_res. destruct (dec_bytes mb (dinp s)) as [[[x r]|e] a]; reflexivity. }
  destruct (mb <? majArray).
  { unfold cls_res. destruct (dec_bytes mb (dinp s)) as [[[x r]|e] a]; reflexivity. }
  destruct (mb <? majMap).
  { destruct (dec_len mb (dinp s)) as [[x r]|e]; reflexivity. }
  destruct (mb <? majTag).
  { destruct (dec_len mb (dinp s)) as [[x r]|e]; reflexivity. }
  reflexivity.
Qed.

Lemma cls_z_scalar f r v rest a :
  cls_z f r = BScalar v rest a -> exists x, r = inl (x, rest) /\ v = f x.
Proof.
  unfold cls_z. destruct r as [[x r']|e]; intros H; inversion H. eauto.
Qed.

Lemma cls_res_scalar f ra v rest a :
  cls_res f ra = BScalar v rest a -> exists x, fst ra = inl (x, rest) /\ v = f x.
Proof.
  unfold cls_res. destruct (fst ra) as [[x r']|e]; intros H; inversion H. eauto.
Qed.

Lemma classify_scalar c mb bs v rest a :
  classify c mb bs = BScalar v rest a -> sfx rest bs /\ is_leaf v = true.
Proof.
  unfold classify.
  destruct (mb =? sigNil). { intros H; inversion H; split; [apply sfx_refl|reflexivity]. }
  destruct (mb =? sigUndef).
  { destruct c; intros H; inversion H; split; [apply sfx_refl|reflexivity]. }
  destruct (mb =? sigFalse). { intros H; inversion H; split; [apply sfx_refl|reflexivity]. }
  destruct (mb =? sigTrue). { intros H; inversion H; split; [apply sfx_refl|reflexivity]. }
  destruct ((mb =? sigF16) || (mb =? sigF32) || (mb =? sigF64)).
  { intros H. apply cls_z_scalar in H. destruct H as [x [H ->]].
    split; [eapply dec_float_sfx; eauto|reflexivity]. }
  destruct (mb =? sigIndefBytes).
  { intros H. apply cls_res_scalar in H. destruct H as [x [H ->]].
    split; [eapply dec_indef_string_sfx; eauto|reflexivity]. }
  destruct (mb =? sigIndefString).
  { intros H. apply cls_res_scalar in H. destruct H as [x [H ->]].
    split; [eapply dec_indef_string_sfx; eauto|reflexivity]. }
  destruct (mb =? sigIndefArray); [discriminate|].
  destruct (mb =? sigIndefMap); [discriminate|].
  destruct (mb <? majNegInt).
  { intros H. apply cls_z_scalar in H. destruct H as [x [H ->]].
    split; [eapply dec_uint_sfx; eauto|reflexivity]. }
  destruct (mb <? majBytes).
  { intros H. apply cls_z_scalar in H. destruct H as [x [H ->]].
    split; [eapply dec_negint_sfx; eauto|reflexivity]. }
  destruct (mb <? majString).
  { intros H. apply cls_res_scalar in H. destruct H as [x [H ->]].
    split; [eapply dec_bytes_sfx; eauto|reflexivity]. }
  destruct (mb <? majArray).
  { intros H. apply cls_res_scalar in H. destruct H as [x [H ->]].
    split; [eapply dec_bytes_sfx; eauto|reflexivity]. }
  destruct (mb <? majMap).
  { destruct (dec_len mb bs) as [[x r]|e]; discriminate. }
  destruct (mb <? majTag).
  { destruct (dec_len mb bs) as [[x r]|e]; discriminate. }
  discriminate.
Qed.

Lemma classify_def c mb bs n rest :
  classify c mb bs = BArrD n rest \/ classify c mb bs = BMapD n rest -> sfx rest bs.
Proof.
  unfold classify.
  destruct (mb =? sigNil). { intros [H|H]; discriminate. }
  destruct (mb =? sigUndef). { destruct c; intros [H|H]; discriminate. }
  destruct (mb =? sigFalse). { intros [H|H]; discriminate. }
  destruct (mb =? sigTrue). { intros [H|H]; discriminate. }
  destruct ((mb =? sigF16) || (mb =? sigF32) || (mb =? sigF64)).
  { unfold cls_z. destruct (dec_float mb bs) as [[x r]|e]; intros [H|H]; discriminate. }
  destruct (mb =? sigIndefBytes).
  { unfold cls_res. destruct (fst (dec_indef_string majBytes bs)) as [[x r]|e]; intros [H|H]; discriminate. }
  destruct (mb =? sigIndefString).
  { unfold cls_res. destruct (fst (dec_indef_string majString bs)) as [[x r]|e]; intros [H|H]; discriminate. }
  destruct (mb =? sigIndefArray). { intros [H|H]; discriminate. }
  destruct (mb =? sigIndefMap). { intros [H|H]; discriminate. }
  destruct (mb <? majNegInt).
  { unfold cls_z. destruct (dec_uint mb bs) as [[x r]|e]; intros [H|H]; discriminate. }
  destruct (mb <? majBytes).
  { unfold cls_z. destruct (dec_negint mb bs) as [[x r]|e]; intros [H|H]; discriminate. }
  destruct (mb <? majString).
  { unfold cls_res. destruct (fst (dec_bytes mb bs)) as [[x r]|e]; intros [H|H]; discriminate. }
  destruct (mb <? majArray).
  { unfold cls_res. destruct (fst (dec_bytes mb bs)) as [[x r]|e]; intros [H|H]; discriminate. }
  destruct (mb <? majMap).
  { destruct (dec_len mb bs) as [[x r]|e] eqn:E; intros [H|H]; inversion H; subst.
    eapply dec_len_sfx; eauto. }
  destruct (mb <? majTag).
  { destruct (dec_len mb bs) as [[x r]|e] eqn:E; intros [H|H]; inversion H; subst.
    eapply dec_len_sfx; eauto. }
  intros [H|H]; discriminate.
Qed.

(* ====================================================================== *)
(* 3. Unfolding equations of the parser                                   *)
(* ====================================================================== *)

Lemma pitem_S f c bs : pitem (S f) c bs =
  match bs with
  | [] => PErr EEof
  | mb :: r =>
    if is_tag_byte mb then
      match dec_len mb r with
      | inr e => PErr e
      | inl (t, r1) =>
        match r1 with
        | [] => PErr EEof
        | mb2 :: r2 => if is_tag_byte mb2 then PErr EMalformed else pbody f c mb2 (Some t) r2
        end
      end
    else pbody f c mb None r
  end.
Proof. reflexivity. Qed.

Lemma pitems_indef_S f c bs : pitems_indef (S f) c bs =
  match bs with
  | [] => PErr EEof
  | mb :: r =>
    if mb =? sigBreak then POk [] r
    else
      match pitem f c bs with
      | POk x r1 =>
        match pitems_indef f c r1 with
        | POk xs r2 => POk (x :: xs) r2
        | PErr e => PErr e | PFuel => PFuel
        end
      | PErr e => PErr e | PFuel => PFuel
      end
  end.
Proof. reflexivity. Qed.

Lemma pitems_def_S f c n bs : pitems_def (S f) c n bs =
  if n =? 0 then POk [] bs
  else
    match pitem f c bs with
    | POk x r1 =>
      match pitems_def f c (n - 1) r1 with
      | POk xs r2 => POk (x :: xs) r2
      | PErr e => PErr e | PFuel => PFuel
      end
    | PErr e => PErr e | PFuel => PFuel
    end.
Proof. reflexivity. Qed.

Lemma ppairs_indef_S f c bs : ppairs_indef (S f) c bs =
  match bs with
  | [] => PErr EEof
  | mb :: r =>
    if mb =? sigBreak then POk [] r
    else
      match pitem f c bs with
      | POk k r1 =>
        match r1 with
        | [] => PErr EEof
        | mb2 :: _ =>
          if mb2 =? sigBreak then PErr EMalformed
          else
            match pitem f c r1 with
            | POk v r2 =>
              match ppairs_indef f c r2 with
              | POk es r3 => POk ((k, v) :: es) r3
              | PErr e => PErr e | PFuel => PFuel
              end
            | PErr e => PErr e | PFuel => PFuel
            end
        end
      | PErr e => PErr e | PFuel => PFuel
      end
  end.
Proof. reflexivity. Qed.

Lemma ppairs_def_S f c n bs : ppairs_def (S f) c n bs =
  if n =? 0 then POk [] bs
  else
    match pitem f c bs with
    | POk k r1 =>
      match pitem f c r1 with
      | POk v r2 =>
        match ppairs_def f c (n - 1) r2 with
        | POk es r3 => POk ((k, v) :: es) r3
        | PErr e => PErr e | PFuel => PFuel
        end
      | PErr e => PErr e | PFuel => PFuel
      end
    | PErr e => PErr e | PFuel => PFuel
    end.
Proof. reflexivity. Qed.

(* ====================================================================== *)
(* 4. Parser results: rest is a suffix, token count bounded by bytes used  *)
(* ====================================================================== *)

Definition flatpair (kv : tnode * tnode) : list token := flatten (fst kv) ++ flatten (snd kv).

Definition wf_item (f : nat) := forall c bs n rest, pitem f c bs = POk n rest ->
  sfx rest bs /\ (length (flatten n) + 2 * length rest <= 2 * length bs)%nat.
Definition wf_body (f : nat) := forall c mb tg bs n rest, pbody f c mb tg bs = POk n rest ->
  sfx rest bs /\ (length (flatten n) + 2 * length rest <= 2 * length bs + 2)%nat.
Definition wf_ai (f : nat) := forall c bs xs rest, pitems_indef f c bs = POk xs rest ->
  sfx rest bs /\ (length (flat_map flatten xs) + 2 + 2 * length rest <= 2 * length bs)%nat.
Definition wf_ad (f : nat) := forall c n bs xs rest, pitems_def f c n bs = POk xs rest ->
  sfx rest bs /\ (length (flat_map flatten xs) + 2 * length rest <= 2 * length bs)%nat.
Definition wf_mi (f : nat) := forall c bs xs rest, ppairs_indef f c bs = POk xs rest ->
  sfx rest bs /\ (length (flat_map flatpair xs) + 2 + 2 * length rest <= 2 * length bs)%nat.
Definition wf_md (f : nat) := forall c n bs xs rest, ppairs_def f c n bs = POk xs rest ->
  sfx rest bs /\ (length (flat_map flatpair xs) + 2 * length rest <= 2 * length bs)%nat.

Lemma flatten_arr_len tg d xs :
  length (flatten (Node tg (VArr d xs))) = S (S (length (flat_map flatten xs))).
Proof. cbn [flatten length]. rewrite app_length. cbn [length]. lia. Qed.

Lemma flatten_map_len tg d es :
  length (flatten (Node tg (VMap d es))) = S (S (length (flat_map flatpair es))).
Proof.
  cbn [flatten length]. rewrite app_length. cbn [length].
  change (fun kv : tnode * tnode => flatten (fst kv) ++ flatten (snd kv)) with flatpair. lia.
Qed.

Lemma wf_all : forall f, wf_item f /\ wf_body f /\ wf_ai f /\ wf_ad f /\ wf_mi f /\ wf_md f.
Proof.
  induction f as [|f IH].
  { repeat split; repeat intro; discriminate. }
  destruct IH as (IHi & IHb & IHai & IHad & IHmi & IHmd).
  split; [|split; [|split; [|split; [|split]]]].
  - (* item *)
    intros c bs n rest H. rewrite pitem_S in H.
    destruct bs as [|mb r]; [discriminate|].
    destruct (is_tag_byte mb).
    + destruct (dec_len mb r) as [[t r1]|e] eqn:E; [|discriminate].
      destruct r1 as [|mb2 r2]; [discriminate|].
      destruct (is_tag_byte mb2); [discriminate|].
      apply IHb in H. destruct H as [S1 L1]. apply dec_len_sfx in E.
      pose proof (sfx_len _ _ E) as L2. cbn [length] in *.
      split; [|lia].
      apply sfx_cons. eapply sfx_trans; [|exact E]. apply sfx_cons. exact S1.
    + apply IHb in H. destruct H as [S1 L1]. cbn [length].
      split; [apply sfx_cons; exact S1|lia].
  - (* body *)
    intros c mb tg bs n rest H. rewrite pbody_S in H.
    destruct (classify c mb bs) as [v r a|e| | |d r|d r] eqn:K; cbn [pinterp] in H.
    + inversion H; subst. apply classify_scalar in K. destruct K as [S1 Lf].
      rewrite (flatten_leaf _ _ Lf). pose proof (sfx_len _ _ S1). cbn [length].
      split; [exact S1|lia].
    + discriminate.
    + destruct (pitems_indef f c bs) as [xs r1|e|] eqn:E; inversion H; subst.
      apply IHai in E. destruct E as [S1 L1]. rewrite flatten_arr_len.
      split; [exact S1|lia].
    + destruct (ppairs_indef f c bs) as [xs r1|e|] eqn:E; inversion H; subst.
      apply IHmi in E. destruct E as [S1 L1]. rewrite flatten_map_len.
      split; [exact S1|lia].
    + destruct (pitems_def f c d r) as [xs r1|e|] eqn:E; inversion H; subst.
      apply IHad in E. destruct E as [S1 L1]. rewrite flatten_arr_len.
      assert (S2 : sfx r bs) by (eapply classify_def; left; exact K).
      pose proof (sfx_len _ _ S2).
      split; [eapply sfx_trans; eauto|lia].
    + destruct (ppairs_def f c d r) as [xs r1|e|] eqn:E; inversion H; subst.
      apply IHmd in E. destruct E as [S1 L1]. rewrite flatten_map_len.
      assert (S2 : sfx r bs) by (eapply classify_def; right; exact K).
      pose proof (sfx_len _ _ S2).
      split; [eapply sfx_trans; eauto|lia].
  - (* indefinite array items *)
    intros c bs xs rest H. rewrite pitems_indef_S in H.
    destruct bs as [|mb r]; [discriminate|].
    destruct (mb =? sigBreak).
    { inversion H; subst. cbn [flat_map length].
      split; [apply sfx_cons, sfx_refl|lia]. }
    destruct (pitem f c (mb :: r)) as [x r1|e|] eqn:E1; try discriminate.
    destruct (pitems_indef f c r1) as [xs' r2|e|] eqn:E2; inversion H; subst.
    apply IHi in E1. apply IHai in E2. destruct E1 as [S1 L1]. destruct E2 as [S2 L2].
    cbn [flat_map]. rewrite app_length.
    split; [eapply sfx_trans; eauto|lia].
  - (* definite array items *)
    intros c n bs xs rest H. rewrite pitems_def_S in H.
    destruct (n =? 0).
    { inversion H; subst. cbn [flat_map length]. split; [apply sfx_refl|lia]. }
    destruct (pitem f c bs) as [x r1|e|] eqn:E1; try discriminate.
    destruct (pitems_def f c (n - 1) r1) as [xs' r2|e|] eqn:E2; inversion H; subst.
    apply IHi in E1. apply IHad in E2. destruct E1 as [S1 L1]. destruct E2 as [S2 L2].
    cbn [flat_map]. rewrite app_length.
    split; [eapply sfx_trans; eauto|lia].
  - (* indefinite map pairs *)
    intros c bs xs rest H. rewrite ppairs_indef_S in H.
    destruct bs as [|mb r]; [discriminate|].
    destruct (mb =? sigBreak).
    { inversion H; subst. cbn [flat_map length].
      split; [apply sfx_cons, sfx_refl|lia]. }
    destruct (pitem f c (mb :: r)) as [k r1|e|] eqn:E1; try discriminate.
    destruct r1 as [|mb2 r1']; [discriminate|].
    destruct (mb2 =? sigBreak); [discriminate|].
    destruct (pitem f c (mb2 :: r1')) as [v r2|e|] eqn:E2; try discriminate.
    destruct (ppairs_indef f c r2) as [es r3|e|] eqn:E3; inversion H; subst.
    apply IHi in E1. apply IHi in E2. apply IHmi in E3.
    destruct E1 as [S1 L1]. destruct E2 as [S2 L2]. destruct E3 as [S3 L3].
    cbn [flat_map]. unfold flatpair at 1. cbn [fst snd]. rewrite !app_length.
    split; [eapply sfx_trans; [|exact S1]; eapply sfx_trans; eauto|lia].
  - (* definite map pairs *)
    intros c n bs xs rest H. rewrite ppairs_def_S in H.
    destruct (n =? 0).
    { inversion H; subst. cbn [flat_map length]. split; [apply sfx_refl|lia]. }
    destruct (pitem f c bs) as [k r1|e|] eqn:E1; try discriminate.
    destruct (pitem f c r1) as [v r2|e|] eqn:E2; try discriminate.
    destruct (ppairs_def f c (n - 1) r2) as [es r3|e|] eqn:E3; inversion H; subst.
    apply IHi in E1. apply IHi in E2. apply IHmd in E3.
    destruct E1 as [S1 L1]. destruct E2 as [S2 L2]. destruct E3 as [S3 L3].
    cbn [flat_map]. unfold flatpair at 1. cbn [fst snd]. rewrite !app_length.
    split; [eapply sfx_trans; [|exact S1]; eapply sfx_trans; eauto|lia].
Qed.

Lemma pitem_wf f c bs n rest : pitem f c bs = POk n rest ->
  sfx rest bs /\ (length (flatten n) + 2 * length rest <= 2 * length bs)%nat.
Proof. apply (wf_all f). Qed.

Lemma pitem_shorter f c bs n rest : pitem f c bs = POk n rest ->
  (length rest < length bs)%nat.
Proof.
  intros H. apply pitem_wf in H. destruct H as [_ H].
  pose proof (flatten_nonempty n). destruct (flatten n); [congruence|]. cbn [length] in H. lia.
Qed.

(* ====================================================================== *)
(* 5. The parser's fuel suffices                                          *)
(* ====================================================================== *)

Definition nf_item (f : nat) := forall c bs,
  (3 * length bs + 1 <= f)%nat -> pitem f c bs <> PFuel.
Definition nf_body (f : nat) := forall c mb tg bs,
  (3 * length bs + 3 <= f)%nat -> pbody f c mb tg bs <> PFuel.
Definition nf_ai (f : nat) := forall c bs,
  (3 * length bs + 2 <= f)%nat -> pitems_indef f c bs <> PFuel.
Definition nf_ad (f : nat) := forall c n bs,
  (3 * length bs + 2 <= f)%nat -> pitems_def f c n bs <> PFuel.
Definition nf_mi (f : nat) := forall c bs,
  (3 * length bs + 2 <= f)%nat -> ppairs_indef f c bs <> PFuel.
Definition nf_md (f : nat) := forall c n bs,
  (3 * length bs + 2 <= f)%nat -> ppairs_def f c n bs <> PFuel.

Lemma nf_all : forall f, nf_item f /\ nf_body f /\ nf_ai f /\ nf_ad f /\ nf_mi f /\ nf_md f.
Proof.
  induction f as [|f IH].
  { repeat split; repeat intro; lia. }
  destruct IH as (IHi & IHb & IHai & IHad & IHmi & IHmd).
  split; [|split; [|split; [|split; [|split]]]].
  - intros c bs Hf. rewrite pitem_S.
    destruct bs as [|mb r]; [discriminate|]. cbn [length] in Hf.
    destruct (is_tag_byte mb).
    + destruct (dec_len mb r) as [[t r1]|e] eqn:E; [|discriminate].
      destruct r1 as [|mb2 r2]; [discriminate|].
      destruct (is_tag_byte mb2); [discriminate|].
      apply dec_len_sfx in E. apply sfx_len in E. cbn [length] in E.
      apply IHb. lia.
    + apply IHb. lia.
  - intros c mb tg bs Hf. rewrite pbody_S.
    destruct (classify c mb bs) as [v r a|e| | |d r|d r] eqn:K; cbn [pinterp]; try discriminate.
    + destruct (pitems_indef f c bs) eqn:E; try discriminate.
      exfalso. revert E. apply IHai. lia.
    + destruct (ppairs_indef f c bs) eqn:E; try discriminate.
      exfalso. revert E. apply IHmi. lia.
    + assert (S2 : sfx r bs) by (eapply classify_def; left; exact K).
      apply sfx_len in S2.
      destruct (pitems_def f c d r) eqn:E; try discriminate.
      exfalso. revert E. apply IHad. lia.
    + assert (S2 : sfx r bs) by (eapply classify_def; right; exact K).
      apply sfx_len in S2.
      destruct (ppairs_def f c d r) eqn:E; try discriminate.
      exfalso. revert E. apply IHmd. lia.
  - intros c bs Hf. rewrite pitems_indef_S.
    destruct bs as [|mb r]; [discriminate|].
    destruct (mb =? sigBreak); [discriminate|].
    destruct (pitem f c (mb :: r)) as [x r1|e|] eqn:E1; try discriminate.
    + apply pitem_shorter in E1.
      destruct (pitems_indef f c r1) eqn:E2; try discriminate.
      exfalso. revert E2. apply IHai. lia.
    + exfalso. revert E1. apply IHi. lia.
  - intros c n bs Hf. rewrite pitems_def_S.
    destruct (n =? 0); [discriminate|].
    destruct (pitem f c bs) as [x r1|e|] eqn:E1; try discriminate.
    + apply pitem_shorter in E1.
      destruct (pitems_def f c (n - 1) r1) eqn:E2; try discriminate.
      exfalso. revert E2. apply IHad. lia.
    + exfalso. revert E1. apply IHi. lia.
  - intros c bs Hf. rewrite ppairs_indef_S.
    destruct bs as [|mb r]; [discriminate|].
    destruct (mb =? sigBreak); [discriminate|].
    destruct (pitem f c (mb :: r)) as [k r1|e|] eqn:E1; try discriminate.
    + apply pitem_shorter in E1.
      destruct r1 as [|mb2 r1']; [discriminate|].
      destruct (mb2 =? sigBreak); [discriminate|].
      destruct (pitem f c (mb2 :: r1')) as [v r2|e|] eqn:E2; try discriminate.
      * apply pitem_shorter in E2.
        destruct (ppairs_indef f c r2) eqn:E3; try discriminate.
        exfalso. revert E3. apply IHmi. lia.
      * exfalso. revert E2. apply IHi. lia.
    + exfalso. revert E1. apply IHi. lia.
  - intros c n bs Hf. rewrite ppairs_def_S.
    destruct (n =? 0); [discriminate|].
    destruct (pitem f c bs) as [k r1|e|] eqn:E1; try discriminate.
    + apply pitem_shorter in E1.
      destruct (pitem f c r1) as [v r2|e|] eqn:E2; try discriminate.
      * apply pitem_shorter in E2.
        destruct (ppairs_def f c (n - 1) r2) eqn:E3; try discriminate.
        exfalso. revert E3. apply IHmd. lia.
      * exfalso. revert E2. apply IHi. lia.
    + exfalso. revert E1. apply IHi. lia.
Qed.

(* ====================================================================== *)
(* 6. Executions of the machine                                            *)
(* ====================================================================== *)

(* [mexec c s toks b s']: from [s] the machine emits [toks], one per step,
   none of the steps but possibly the last reports done; [b] tells whether
   the last one did; [s'] is the state after the last step. *)
Inductive mexec (c : bool) : dec_state -> list token -> bool -> dec_state -> Prop :=
| mexec_nil s : mexec c s [] false s
| mexec_done s t s' a : dec_step c s = DTok t true s' a -> mexec c s [t] true s'
| mexec_cons s t s1 a toks b s' :
    dec_step c s = DTok t false s1 a -> mexec c s1 toks b s' -> mexec c s (t :: toks) b s'.

Lemma mexec_one c s t b s' a : dec_step c s = DTok t b s' a -> mexec c s [t] b s'.
Proof.
  destruct b; intros H.
  - eapply mexec_done; eauto.
  - eapply mexec_cons; [eauto|apply mexec_nil].
Qed.

Lemma mexec_app c s t1 s1 : mexec c s t1 false s1 ->
  forall t2 b s2, mexec c s1 t2 b s2 -> mexec c s (t1 ++ t2) b s2.
Proof.
  intros H. remember false as b0 eqn:Eb.
  induction H as [s|s t s' a H|s t s1 a toks b s' H H1 IH]; intros t2 b2 s2 H2.
  - exact H2.
  - discriminate.
  - cbn [app]. eapply mexec_cons; [exact H|]. apply IH; assumption.
Qed.

Lemma mexec_loop_cont c s toks s' : mexec c s toks false s' ->
  forall f acc al, exists al',
    dec_loop (length toks + f) c s acc al = dec_loop f c s' (rev toks ++ acc) al'.
Proof.
  intros H. remember false as b0 eqn:Eb.
  induction H as [s|s t s' a H|s t s1 a toks b s' H H1 IH]; intros f acc al.
  - exists al. reflexivity.
  - discriminate.
  - cbn [length Nat.add dec_loop]. rewrite H.
    destruct (IH Eb f (t :: acc) (al + a)) as [al' E]. exists al'. rewrite E.
    cbn [rev]. rewrite <- app_assoc. reflexivity.
Qed.

Lemma mexec_loop_done c s toks s' : mexec c s toks true s' ->
  forall f acc al, (length toks <= f)%nat -> exists al',
    dec_loop f c s acc al = DOk (rev acc ++ toks) (dinp s') al'.
Proof.
  intros H. remember true as b0 eqn:Eb.
  induction H as [s|s t s' a H|s t s1 a toks b s' H H1 IH]; intros f acc al Hf.
  - discriminate.
  - destruct f as [|f]; [cbn [length] in Hf; lia|]. cbn [dec_loop]. rewrite H.
    eexists. cbn [rev]. reflexivity.
  - destruct f as [|f]; [cbn [length] in Hf; lia|]. cbn [dec_loop]. rewrite H.
    cbn [length] in Hf.
    destruct (IH Eb f (t :: acc) (al + a)) as [al' E]; [lia|]. exists al'. rewrite E.
    cbn [rev]. rewrite <- app_assoc. reflexivity.
Qed.

(* the machine fails with [e] after at most [bound] tokens *)
Definition mfail (c : bool) (s : dec_state) (e : derr) (bound : nat) : Prop :=
  exists toks s1 s2, mexec c s toks false s1 /\ dec_step c s1 = DErr e s2 /\
                     (length toks <= bound)%nat.

Lemma mfail_loop c s e bound : mfail c s e bound ->
  forall f acc al, (bound < f)%nat -> exists toks' al', dec_loop f c s acc al = DFail e toks' al'.
Proof.
  intros (toks & s1 & s2 & H & E & L) f acc al Hf.
  replace f with (length toks + S (f - length toks - 1))%nat by lia.
  destruct (mexec_loop_cont _ _ _ _ H (S (f - length toks - 1)) acc al) as [al' E2].
  rewrite E2. cbn [dec_loop]. rewrite E. eauto.
Qed.

Lemma mfail_now c s e s2 b : dec_step c s = DErr e s2 -> mfail c s e b.
Proof.
  intros H. exists [], s, s2. split; [apply mexec_nil|]. split; [exact H|]. cbn [length]. lia.
Qed.

Lemma mfail_app c s t1 s1 e b b' :
  mexec c s t1 false s1 -> mfail c s1 e b -> (length t1 + b <= b')%nat -> mfail c s e b'.
Proof.
  intros M (toks & s2 & s3 & H & E & L) Hb.
  exists (t1 ++ toks), s2, s3. split; [eapply mexec_app; eauto|]. split; [exact E|].
  rewrite app_length. lia.
Qed.

(* ====================================================================== *)
(* 7. Characterising step lemmas                                           *)
(* ====================================================================== *)

Definition wrapb (top : bool) (r : sub_res) : sub_res := if top then r else not_done r.
Definition isnil {A} (l : list A) : bool := match l with [] => true | _ => false end.

Lemma step_scalar c s t s' a :
  sub_step c s = wrapb (isnil (dstack s')) (SubTok t true s' a) ->
  mexec c s [t] (isnil (dstack s')) s'.
Proof.
  intros H. apply mexec_one with (a := a). unfold dec_step. rewrite H.
  destruct (dstack s') as [|q stk] eqn:E; cbn [isnil wrapb not_done].
  - rewrite E. reflexivity.
  - reflexivity.
Qed.

Lemma step_err c s top e s' : sub_step c s = wrapb top (SubErr e s') -> dec_step c s = DErr e s'.
Proof. intros H. unfold dec_step. rewrite H. destruct top; reflexivity. Qed.

Lemma step_open c s top t s' a :
  sub_step c s = wrapb top (SubTok t false s' a) -> dec_step c s = DTok t false s' a.
Proof. intros H. unfold dec_step. rewrite H. destruct top; reflexivity. Qed.

Lemma step_close c s t ph p stk L inp a :
  sub_step c s = SubTok t true (DecSt ph (p :: stk) L inp) a ->
  exists s', mexec c s [t] (isnil stk) s' /\ dinp s' = inp /\
             (stk <> [] -> s' = DecSt p stk L inp).
Proof.
  intros H. destruct stk as [|q stk].
  - exists (DecSt ph [p] L inp). split; [|split].
    + eapply mexec_done. unfold dec_step. rewrite H. reflexivity.
    + reflexivity.
    + congruence.
  - exists (DecSt p (q :: stk) L inp). split; [|split].
    + eapply mexec_cons; [|apply mexec_nil]. unfold dec_step. rewrite H. reflexivity.
    + reflexivity.
    + reflexivity.
Qed.

(* element contexts: the machine expects an item in state [s]; the item's
   first byte is handed to accept_value in phase [pa] with countdowns [la] *)
Definition hdbreak (inp : bytes) : bool :=
  match inp with mb :: _ => mb =? sigBreak | [] => false end.

Inductive ectx : dec_state -> dphase -> list Z -> Prop :=
| ectx_top L inp : ectx (DecSt DAny [] L inp) DAny L
| ectx_ai p stk L inp : hdbreak inp = false ->
    ectx (DecSt DArrIndef (p :: stk) L inp) DArrIndef L
| ectx_mik p stk L inp : hdbreak inp = false ->
    ectx (DecSt DMapIndefKey (p :: stk) L inp) DMapIndefVal L
| ectx_miv p stk L inp : hdbreak inp = false ->
    ectx (DecSt DMapIndefVal (p :: stk) L inp) DMapIndefKey L
| ectx_ad p stk l L inp : (l =? 0) = false ->
    ectx (DecSt DArrDef (p :: stk) (l :: L) inp) DArrDef ((l - 1) :: L)
| ectx_mdk p stk l L inp : (l =? 0) = false ->
    ectx (DecSt DMapDefKey (p :: stk) (l :: L) inp) DMapDefVal ((l - 1) :: L)
| ectx_mdv p stk L inp :
    ectx (DecSt DMapDefVal (p :: stk) L inp) DMapDefKey L.

Lemma sub_step_ctx_nil c s pa la : ectx s pa la -> dinp s = [] -> sub_step c s = SubErr EEof s.
Proof.
  intros H E.
  destruct H; cbn [dinp] in E; subst; unfold sub_step; cbn [dph dinp dleft readn1];
    try rewrite H; reflexivity.
Qed.

Lemma sub_step_ctx c s pa la mb r : ectx s pa la -> dinp s = mb :: r ->
  sub_step c s = wrapb (isnil (dstack s)) (accept_value c mb (DecSt pa (dstack s) la r)).
Proof.
  intros H E.
  destruct H; cbn [dinp] in E; subst; unfold sub_step;
    cbn [dph dinp dleft dstack readn1 with_inp with_phase isnil wrapb hdbreak] in *;
    try rewrite H; reflexivity.
Qed.

Lemma accept_value_eq c mb s : accept_value c mb s =
  if is_tag_byte mb then
    match dec_len mb (dinp s) with
    | inr e => SubErr e s
    | inl (t, rest) =>
      match rest with
      | [] => SubErr EEof s
      | mb2 :: rest2 =>
        if is_tag_byte mb2 then SubErr EMalformed s
        else accept_untagged c mb2 (Some t) (with_inp s rest2)
      end
    end
  else accept_untagged c mb None s.
Proof.
  unfold accept_value, is_tag_byte.
  destruct ((majTag <=? mb) && (mb <? majSimple)); [|reflexivity].
  destruct (dec_len mb (dinp s)) as [[t rest]|e]; [|reflexivity].
  destruct rest; reflexivity.
Qed.

(* ====================================================================== *)
(* 8. The simulation                                                       *)
(* ====================================================================== *)

Definition item_sim (c : bool) (s : dec_state) (bound : nat) (after : bytes -> dec_state)
           (top : bool) (r : pres tnode) : Prop :=
  match r with
  | POk n rest =>
      exists s', mexec c s (flatten n) top s' /\ dinp s' = rest /\
                 (top = false -> s' = after rest)
  | PErr e => mfail c s e bound
  | PFuel => True
  end.

Definition seq_sim {A} (fl : A -> list token) (cl : token) (c : bool) (s : dec_state)
           (bound : nat) (p : dphase) (stk : list dphase) (L : list Z)
           (r : pres (list A)) : Prop :=
  match r with
  | POk xs rest =>
      exists s', mexec c s (flat_map fl xs ++ [cl]) (isnil stk) s' /\ dinp s' = rest /\
                 (stk <> [] -> s' = DecSt p stk L rest)
  | PErr e => mfail c s e bound
  | PFuel => True
  end.

Lemma item_sim_weaken c s b b' after after' top r :
  item_sim c s b after top r -> (b <= b')%nat -> (forall rest, after rest = after' rest) ->
  item_sim c s b' after' top r.
Proof.
  intros H Hb Ha. destruct r as [n rest|e|]; cbn [item_sim] in *.
  - destruct H as [s' [M [D A]]]. exists s'. split; [exact M|]. split; [exact D|].
    intros T. rewrite <- Ha. apply A. exact T.
  - destruct H as (toks & s1 & s2 & H & E & L). exists toks, s1, s2.
    split; [exact H|]. split; [exact E|]. lia.
  - exact I.
Qed.

Lemma seq_cons {A} (fl : A -> list token) cl c s s1 b b1 p stk L x (r : pres (list A)) :
  mexec c s (fl x) false s1 -> seq_sim fl cl c s1 b1 p stk L r ->
  (length (fl x) + b1 <= b)%nat ->
  seq_sim fl cl c s b p stk L
    (match r with POk xs r2 => POk (x :: xs) r2 | PErr e => PErr e | PFuel => PFuel end).
Proof.
  intros M R Hb. destruct r as [xs r2|e|]; cbn [seq_sim] in *.
  - destruct R as [s' [M2 [D Ha]]]. exists s'. split; [|split; assumption].
    cbn [flat_map]. rewrite <- app_assoc. eapply mexec_app; eauto.
  - eapply mfail_app; eauto.
  - exact I.
Qed.

Definition sim_item (f : nat) := forall c s pa la, ectx s pa la ->
  item_sim c s (2 * length (dinp s)) (fun rest => DecSt pa (dstack s) la rest)
           (isnil (dstack s)) (pitem f c (dinp s)).
Definition sim_body (f : nat) := forall c mb tg s s0,
  sub_step c s = wrapb (isnil (dstack s0)) (accept_untagged c mb tg s0) ->
  item_sim c s (2 * length (dinp s0) + 1) (with_inp s0) (isnil (dstack s0))
           (pbody f c mb tg (dinp s0)).
Definition sim_ai (f : nat) := forall c p stk L bs,
  seq_sim flatten (Tok ArrClose None) c (DecSt DArrIndef (p :: stk) L bs)
          (2 * length bs) p stk L (pitems_indef f c bs).
Definition sim_ad (f : nat) := forall c p stk L n bs,
  seq_sim flatten (Tok ArrClose None) c (DecSt DArrDef (p :: stk) (n :: L) bs)
          (2 * length bs) p stk L (pitems_def f c n bs).
Definition sim_mi (f : nat) := forall c p stk L bs,
  seq_sim flatpair (Tok MapClose None) c (DecSt DMapIndefKey (p :: stk) L bs)
          (2 * length bs) p stk L (ppairs_indef f c bs).
Definition sim_md (f : nat) := forall c p stk L n bs,
  seq_sim flatpair (Tok MapClose None) c (DecSt DMapDefKey (p :: stk) (n :: L) bs)
          (2 * length bs) p stk L (ppairs_def f c n bs).

Lemma isnil_false_ne {A} (l : list A) : isnil l = false -> l <> [].
Proof. destruct l; [discriminate|congruence]. Qed.

Lemma sim_item_step f : sim_body f -> sim_item (S f).
Proof.
  intros IHb c s pa la Hc. rewrite pitem_S.
  destruct (dinp s) as [|mb r] eqn:Ei.
  { cbn [item_sim]. eapply mfail_now. apply (step_err c s true). cbn [wrapb].
    eapply sub_step_ctx_nil; eauto. }
  pose proof (sub_step_ctx c s pa la mb r Hc Ei) as Hs.
  rewrite accept_value_eq in Hs. cbn [dinp] in Hs.
  destruct (is_tag_byte mb).
  - destruct (dec_len mb r) as [[t r1]|e] eqn:El.
    + destruct r1 as [|mb2 r2].
      { cbn [item_sim]. eapply mfail_now. eapply step_err. exact Hs. }
      destruct (is_tag_byte mb2).
      { cbn [item_sim]. eapply mfail_now. eapply step_err. exact Hs. }
      pose proof (IHb c mb2 (Some t) s (DecSt pa (dstack s) la r2) Hs) as R.
      cbn [dinp dstack] in R.
      apply dec_len_sfx in El. apply sfx_len in El. cbn [length] in El.
      eapply item_sim_weaken; [exact R| cbn [length]; lia | reflexivity].
    + cbn [item_sim]. eapply mfail_now. eapply step_err. exact Hs.
  - pose proof (IHb c mb None s (DecSt pa (dstack s) la r) Hs) as R.
    cbn [dinp dstack] in R.
    eapply item_sim_weaken; [exact R| cbn [length]; lia | reflexivity].
Qed.

Lemma sim_body_step f : sim_ai f -> sim_ad f -> sim_mi f -> sim_md f -> sim_body (S f).
Proof.
  intros IHai IHad IHmi IHmd c mb tg s s0 Hs. rewrite pbody_S.
  rewrite accept_untagged_classify in Hs.
  destruct (classify c mb (dinp s0)) as [v r a|e| | |d r|d r] eqn:K; cbn [pinterp minterp] in *.
  - cbn [item_sim]. exists (with_inp s0 r).
    apply classify_scalar in K. destruct K as [_ Lf]. rewrite (flatten_leaf _ _ Lf).
    split; [|split].
    + apply (step_scalar c s _ (with_inp s0 r) a). exact Hs.
    + reflexivity.
    + reflexivity.
  - cbn [item_sim]. eapply mfail_now. eapply step_err. exact Hs.
  - apply step_open in Hs. unfold dec_push in Hs.
    specialize (IHai c (dph s0) (dstack s0) (dleft s0) (dinp s0)).
    destruct (pitems_indef f c (dinp s0)) as [xs rest|e|]; cbn [seq_sim item_sim] in *.
    + destruct IHai as [s' [M [D A]]]. exists s'. split; [|split].
      * cbn [flatten]. eapply mexec_cons; [exact Hs|exact M].
      * exact D.
      * intros T. apply A. apply isnil_false_ne. exact T.
    + eapply mfail_app; [eapply mexec_cons; [exact Hs|apply mexec_nil]|exact IHai|].
      cbn [length]. lia.
    + exact I.
  - apply step_open in Hs. unfold dec_push in Hs.
    specialize (IHmi c (dph s0) (dstack s0) (dleft s0) (dinp s0)).
    destruct (ppairs_indef f c (dinp s0)) as [xs rest|e|]; cbn [seq_sim item_sim] in *.
    + destruct IHmi as [s' [M [D A]]]. exists s'. split; [|split].
      * cbn [flatten]. eapply mexec_cons; [exact Hs|exact M].
      * exact D.
      * intros T. apply A. apply isnil_false_ne. exact T.
    + eapply mfail_app; [eapply mexec_cons; [exact Hs|apply mexec_nil]|exact IHmi|].
      cbn [length]. lia.
    + exact I.
  - apply step_open in Hs. unfold dec_push in Hs. cbn [dph dstack dleft dinp] in Hs.
    assert (S2 : sfx r (dinp s0)) by (eapply classify_def; left; exact K).
    apply sfx_len in S2.
    specialize (IHad c (dph s0) (dstack s0) (dleft s0) d r).
    destruct (pitems_def f c d r) as [xs rest|e|]; cbn [seq_sim item_sim] in *.
    + destruct IHad as [s' [M [D A]]]. exists s'. split; [|split].
      * cbn [flatten]. eapply mexec_cons; [exact Hs|exact M].
      * exact D.
      * intros T. apply A. apply isnil_false_ne. exact T.
    + eapply mfail_app; [eapply mexec_cons; [exact Hs|apply mexec_nil]|exact IHad|].
      cbn [length]. lia.
    + exact I.
  - apply step_open in Hs. unfold dec_push in Hs. cbn [dph dstack dleft dinp] in Hs.
    assert (S2 : sfx r (dinp s0)) by (eapply classify_def; right; exact K).
    apply sfx_len in S2.
    specialize (IHmd c (dph s0) (dstack s0) (dleft s0) d r).
    destruct (ppairs_def f c d r) as [xs rest|e|]; cbn [seq_sim item_sim] in *.
    + destruct IHmd as [s' [M [D A]]]. exists s'. split; [|split].
      * cbn [flatten]. eapply mexec_cons; [exact Hs|exact M].
      * exact D.
      * intros T. apply A. apply isnil_false_ne. exact T.
    + eapply mfail_app; [eapply mexec_cons; [exact Hs|apply mexec_nil]|exact IHmd|].
      cbn [length]. lia.
    + exact I.
Qed.

Lemma sim_ai_step f : sim_item f -> sim_ai f -> sim_ai (S f).
Proof.
  intros IHi IHai c p stk L bs. rewrite pitems_indef_S.
  destruct bs as [|mb r].
  { cbn [seq_sim]. eapply mfail_now. reflexivity. }
  destruct (mb =? sigBreak) eqn:Eb.
  { cbn [seq_sim flat_map app]. eapply step_close.
    unfold sub_step. cbn [dph dinp readn1 with_inp dstack dleft]. rewrite Eb. reflexivity. }
  assert (Hc : ectx (DecSt DArrIndef (p :: stk) L (mb :: r)) DArrIndef L)
    by (constructor; exact Eb).
  pose proof (IHi c _ _ _ Hc) as R. cbn [dinp dstack isnil] in R.
  destruct (pitem f c (mb :: r)) as [x r1|e|] eqn:E1; cbn [item_sim] in R.
  - destruct R as [s1 [M [D A]]]. specialize (A eq_refl). subst s1.
    apply pitem_wf in E1. destruct E1 as [_ L1].
    eapply seq_cons; [exact M|apply IHai|lia].
  - exact R.
  - exact I.
Qed.

Lemma sim_ad_step f : sim_item f -> sim_ad f -> sim_ad (S f).
Proof.
  intros IHi IHad c p stk L n bs. rewrite pitems_def_S.
  destruct (n =? 0) eqn:En.
  { cbn [seq_sim flat_map app]. eapply step_close.
    unfold sub_step. cbn [dph dinp readn1 with_inp dstack dleft]. rewrite En. reflexivity. }
  assert (Hc : ectx (DecSt DArrDef (p :: stk) (n :: L) bs) DArrDef ((n - 1) :: L))
    by (constructor; exact En).
  pose proof (IHi c _ _ _ Hc) as R. cbn [dinp dstack isnil] in R.
  destruct (pitem f c bs) as [x r1|e|] eqn:E1; cbn [item_sim] in R.
  - destruct R as [s1 [M [D A]]]. specialize (A eq_refl). subst s1.
    apply pitem_wf in E1. destruct E1 as [_ L1].
    eapply seq_cons; [exact M|apply IHad|lia].
  - exact R.
  - exact I.
Qed.

Lemma sim_mi_step f : sim_item f -> sim_mi f -> sim_mi (S f).
Proof.
  intros IHi IHmi c p stk L bs. rewrite ppairs_indef_S.
  destruct bs as [|mb r].
  { cbn [seq_sim]. eapply mfail_now. reflexivity. }
  destruct (mb =? sigBreak) eqn:Eb.
  { cbn [seq_sim flat_map app]. eapply step_close.
    unfold sub_step. cbn [dph dinp readn1 with_inp dstack dleft]. rewrite Eb. reflexivity. }
  assert (Hc : ectx (DecSt DMapIndefKey (p :: stk) L (mb :: r)) DMapIndefVal L)
    by (constructor; exact Eb).
  pose proof (IHi c _ _ _ Hc) as R. cbn [dinp dstack isnil] in R.
  destruct (pitem f c (mb :: r)) as [k r1|e|] eqn:E1; cbn [item_sim] in R.
  - destruct R as [s1 [M [D A]]]. specialize (A eq_refl). subst s1.
    apply pitem_wf in E1. destruct E1 as [_ L1].
    destruct r1 as [|mb2 r1'].
    { cbn [seq_sim]. eapply mfail_app; [exact M|eapply mfail_now; reflexivity|].
      instantiate (1 := 0%nat). lia. }
    destruct (mb2 =? sigBreak) eqn:Eb2.
    { cbn [seq_sim]. eapply mfail_app; [exact M| |].
      - eapply mfail_now. unfold dec_step, sub_step. cbn [dph dinp readn1]. rewrite Eb2.
        reflexivity.
      - instantiate (1 := 0%nat). lia. }
    assert (Hc2 : ectx (DecSt DMapIndefVal (p :: stk) L (mb2 :: r1')) DMapIndefKey L)
      by (constructor; exact Eb2).
    pose proof (IHi c _ _ _ Hc2) as R2. cbn [dinp dstack isnil] in R2.
    destruct (pitem f c (mb2 :: r1')) as [v r2|e|] eqn:E2; cbn [item_sim] in R2.
    + destruct R2 as [s2 [M2 [D2 A2]]]. specialize (A2 eq_refl). subst s2.
      apply pitem_wf in E2. destruct E2 as [_ L2].
      eapply (seq_cons flatpair) with (x := (k, v)); [|apply IHmi|].
      * unfold flatpair. cbn [fst snd]. eapply mexec_app; eauto.
      * unfold flatpair. cbn [fst snd]. rewrite app_length. lia.
    + cbn [seq_sim]. eapply mfail_app; [exact M|exact R2|lia].
    + exact I.
  - exact R.
  - exact I.
Qed.

Lemma sim_md_step f : sim_item f -> sim_md f -> sim_md (S f).
Proof.
  intros IHi IHmd c p stk L n bs. rewrite ppairs_def_S.
  destruct (n =? 0) eqn:En.
  { cbn [seq_sim flat_map app]. eapply step_close.
    unfold sub_step. cbn [dph dinp readn1 with_inp dstack dleft]. rewrite En. reflexivity. }
  assert (Hc : ectx (DecSt DMapDefKey (p :: stk) (n :: L) bs) DMapDefVal ((n - 1) :: L))
    by (constructor; exact En).
  pose proof (IHi c _ _ _ Hc) as R. cbn [dinp dstack isnil] in R.
  destruct (pitem f c bs) as [k r1|e|] eqn:E1; cbn [item_sim] in R.
  - destruct R as [s1 [M [D A]]]. specialize (A eq_refl). subst s1.
    apply pitem_wf in E1. destruct E1 as [_ L1].
    assert (Hc2 : ectx (DecSt DMapDefVal (p :: stk) ((n - 1) :: L) r1) DMapDefKey ((n - 1) :: L))
      by constructor.
    pose proof (IHi c _ _ _ Hc2) as R2. cbn [dinp dstack isnil] in R2.
    destruct (pitem f c r1) as [v r2|e|] eqn:E2; cbn [item_sim] in R2.
    + destruct R2 as [s2 [M2 [D2 A2]]]. specialize (A2 eq_refl). subst s2.
      apply pitem_wf in E2. destruct E2 as [_ L2].
      eapply (seq_cons flatpair) with (x := (k, v)); [|apply IHmd|].
      * unfold flatpair. cbn [fst snd]. eapply mexec_app; eauto.
      * unfold flatpair. cbn [fst snd]. rewrite app_length. lia.
    + cbn [seq_sim]. eapply mfail_app; [exact M|exact R2|lia].
    + exact I.
  - exact R.
  - exact I.
Qed.

Lemma sim_all : forall f,
  sim_item f /\ sim_body f /\ sim_ai f /\ sim_ad f /\ sim_mi f /\ sim_md f.
Proof.
  induction f as [|f IH].
  { repeat split; repeat intro; exact I. }
  destruct IH as (IHi & IHb & IHai & IHad & IHmi & IHmd).
  split; [|split; [|split; [|split; [|split]]]].
  - apply sim_item_step; assumption.
  - apply sim_body_step; assumption.
  - apply sim_ai_step; assumption.
  - apply sim_ad_step; assumption.
  - apply sim_mi_step; assumption.
  - apply sim_md_step; assumption.
Qed.

Lemma run_sim fuel c bs :
  item_sim c (dec_init bs) (2 * length bs) (fun rest => DecSt DAny [] [] rest) true
           (pitem fuel c bs).
Proof.
  destruct (sim_all fuel) as [Hi _].
  apply (Hi c (dec_init bs) DAny []). constructor.
Qed.

(* STATEMENTS TO PROVE (do not change them) *)

Theorem dec_complete : forall fuel c bs n rest,
  pitem fuel c bs = POk n rest -> exists a, dec_run c bs = DOk (flatten n) rest a.
Proof.
  intros fuel c bs n rest H.
  pose proof (run_sim fuel c bs) as R. rewrite H in R. cbn [item_sim] in R.
  destruct R as [s' [M [D _]]].
  apply pitem_wf in H. destruct H as [_ L].
  unfold dec_run.
  destruct (mexec_loop_done _ _ _ _ M (2 * length bs + 2)%nat [] 0) as [al E]; [lia|].
  exists al. rewrite E. cbn [rev app]. rewrite D. reflexivity.
Qed.

Theorem dec_error : forall fuel c bs e,
  pitem fuel c bs = PErr e -> exists toks a, dec_run c bs = DFail e toks a.
Proof.
  intros fuel c bs e H.
  pose proof (run_sim fuel c bs) as R. rewrite H in R. cbn [item_sim] in R.
  unfold dec_run. eapply mfail_loop; [exact R|lia].
Qed.

Theorem parse_item_total : forall c bs, parse_item c bs <> PFuel.
Proof.
  intros c bs. unfold parse_item. apply (nf_all (4 * length bs + 4)). lia.
Qed.

Theorem dec_sound : forall c bs toks rest a,
  dec_run c bs = DOk toks rest a -> exists n, parse_item c bs = POk n rest /\ toks = flatten n.
Proof.
  intros c bs toks rest a H.
  destruct (parse_item c bs) as [n r|e|] eqn:E.
  - unfold parse_item in E. apply dec_complete in E. destruct E as [a' E].
    rewrite H in E. inversion E; subst. exists n. split; reflexivity.
  - unfold parse_item in E. apply dec_error in E. destruct E as [t' [a' E]].
    rewrite H in E. discriminate.
  - exfalso. revert E. apply parse_item_total.
Qed.

Theorem dec_rejects : forall c bs e toks a,
  dec_run c bs = DFail e toks a -> parse_item c bs = PErr e.
Proof.
  intros c bs e toks a H.
  destruct (parse_item c bs) as [n r|e'|] eqn:E.
  - unfold parse_item in E. apply dec_complete in E. destruct E as [a' E].
    rewrite H in E. discriminate.
  - unfold parse_item in E. apply dec_error in E. destruct E as [t' [a' E]].
    rewrite H in E. inversion E; subst. reflexivity.
  - exfalso. revert E. apply parse_item_total.
Qed.

Theorem dec_total : forall c bs,
  (exists toks rest a, dec_run c bs = DOk toks rest a) \/ (exists e toks a, dec_run c bs = DFail e toks a).
Proof.
  intros c bs.
  destruct (parse_item c bs) as [n r|e|] eqn:E.
  - left. unfold parse_item in E. apply dec_complete in E. destruct E as [a' E]. eauto.
  - right. unfold parse_item in E. apply dec_error in E. destruct E as [t' [a' E]]. eauto.
  - exfalso. revert E. apply parse_item_total.
Qed.

Theorem dec_consumes_prefix : forall c bs toks rest a,
  dec_run c bs = DOk toks rest a -> exists used, bs = used ++ rest /\ used <> [].
Proof.
  intros c bs toks rest a H.
  apply dec_sound in H. destruct H as [n [E _]]. unfold parse_item in E.
  pose proof (pitem_shorter _ _ _ _ _ E) as Ls.
  apply pitem_wf in E. destruct E as [[used Hu] _].
  exists used. split; [exact Hu|].
  intros ->. cbn [app] in Hu. subst. lia.
Qed.

Print Assumptions dec_complete.
Print Assumptions dec_error.
Print Assumptions parse_item_total.
Print Assumptions dec_sound.
Print Assumptions dec_rejects.
Print Assumptions dec_total.
Print Assumptions dec_consumes_prefix.
