(* TagProof.v — CBOR tags in the object layer (C20): where the marshaller puts
   them and what the untyped slot of the unmarshaller does with them. *)
From Coq Require Import List ZArith Bool Lia.
Require Import Tok TokGrammar GoVal Marshal Unmarshal ObjProof.
Import ListNotations.
Open Scope Z_scope.

Definition first_tag (ts : list token) : option (option Z) :=
  match ts with Tok _ tg :: _ => Some tg | [] => None end.

Lemma flatten_first n : exists v tg r, flatten n = Tok v tg :: r.
Proof. destruct n as [tg v]; destruct v; cbn [flatten]; eauto. Qed.

Lemma retag_first tg ts v t0 r : ts = Tok v t0 :: r -> retag (Some tg) ts = Tok v (Some tg) :: r.
Proof. intros ->. reflexivity. Qed.

(* a value of a type registered with a tag (struct map or transform entry) starts with exactly that tag *)
Theorem tagged_entry_emits_tag : forall A f e v ts tg,
  ae_tag e = Some tg ->
  (match ae_kind e with EStruct _ | ETransform _ _ => True | _ => False end) ->
  marshal_entry A f e v = MOk ts ->
  exists v0 r, ts = Tok v0 (Some tg) :: r.
Proof.
  intros A [|f] e v ts tg Ht Hk H; [discriminate|].
  rewrite marshal_entry_S in H. destruct (ae_kind e) as [fields|kind wire|ms|mode] eqn:K; try contradiction.
  - cbv zeta in H. apply mprepend_ok in H. destruct H as (ts' & _ & ->). rewrite Ht. cbn [app]. eauto.
  - destruct (tr_fwd kind v) as [w|]; [|discriminate].
    apply wrap_transform_ok in H. destruct H as (ts' & Hm & ->).
    destruct (marshal_wf _ _ _ _ _ Hm) as (n & -> & _).
    destruct (flatten_first n) as (v0 & t0 & r & E). rewrite Ht. exists v0, r. apply retag_first with (t0 := t0). exact E.
Qed.

(* the same, seen from the type: wherever a value of a tagged type is marshalled (marshal_bare is what every
   position — top level, field, element, map value, pointer target, untyped slot — ends up calling) *)
Theorem tagged_type_emits_tag : forall A f t v ts e tg,
  is_unnamed_prim t = false -> atlas_get A t = Some e -> ae_tag e = Some tg ->
  (match ae_kind e with EStruct _ | ETransform _ _ => True | _ => False end) ->
  marshal_bare A f t v = MOk ts ->
  exists v0 r, ts = Tok v0 (Some tg) :: r.
Proof.
  intros A [|f] t v ts e tg Hp Hg Ht Hk H; [discriminate|].
  rewrite marshal_bare_S in H. rewrite Hp, Hg in H. eapply tagged_entry_emits_tag; eauto.
Qed.

(* no other token of the item carries that tag by accident: tags sit on first tokens of items only (marshal_wf:
   the stream is the flattening of a tree whose nodes carry the tags) — restated here for the record *)
Theorem tags_only_on_item_heads : forall A f t v ts,
  marshal A f t v = MOk ts -> exists n, ts = flatten n.
Proof. intros A f t v ts H. destruct (marshal_wf _ _ _ _ _ H) as (n & E & _). eauto. Qed.

(* an unregistered tag in an untyped position is an error on that very token *)
Theorem unregistered_tag_rejected : forall E A f v tg r,
  atlas_by_tag A tg = None ->
  unmarshal_any E A (S f) (Tok v (Some tg) :: r) = UErr (S (length r)).
Proof. intros E A f v tg r H. rewrite unmarshal_any_S. rewrite H. reflexivity. Qed.

(* a registered tag selects the registered type: the slot holds a value of exactly that dynamic type,
   namely what unmarshalling the item into that type gives *)
Theorem registered_tag_reconstructs_type : forall E A f v tg r e,
  atlas_by_tag A tg = Some e ->
  unmarshal_any E A (S f) (Tok v (Some tg) :: r) =
  ubind (unmarshal_bare E A f (ae_type e) (zero 50 E (ae_type e)) (Tok v (Some tg) :: r))
        (fun x r' => UOk (VAny (Some (ae_type e, x))) r').
Proof. intros E A f v tg r e H. rewrite unmarshal_any_S. rewrite H. reflexivity. Qed.

(* the same at the top of an interface{} target *)
Theorem untyped_target_unregistered_tag : forall E A f v tg r,
  atlas_by_tag A tg = None -> atlas_get A GAny = None ->
  unmarshal E A (S (S (S (S f)))) GAny (VAny None) (Tok v (Some tg) :: r) = UErr (S (length r)).
Proof.
  intros E A f v tg r H Hg. rewrite unmarshal_S. cbn [peel]. rewrite unmarshal_bare_S. cbn [is_unnamed_prim].
  rewrite Hg. cbn [strip_named]. rewrite unmarshal_kind_S. apply unregistered_tag_rejected. exact H.
Qed.

(* a transform's tag names the transformed type, not its serial form: the machine of the serial type gets
   the item without that tag (fix of D20; before, a tagged transform with serial type interface{} sent the
   item back to itself through the tag) ... *)
Theorem tagged_transform_hands_on_untagged : forall E A f e kind wire cur v tg r,
  ae_kind e = ETransform kind wire -> ae_tag e = Some tg ->
  unmarshal_entry E A (S f) e cur (Tok v (Some tg) :: r) =
  ubind (unmarshal_bare E A f wire (zero 50 E wire) (Tok v None :: r))
        (fun w r' => match tr_bwd kind w with Some x => UOk x r' | None => UErr (S (length r')) end).
Proof.
  intros E A f e kind wire cur v tg r Hk Ht. rewrite unmarshal_entry_S, Hk, Ht.
  cbn [untag_own]. rewrite Z.eqb_refl. reflexivity.
Qed.

(* ... and any other tag, or none, is passed on unchanged *)
Theorem transform_keeps_foreign_tag : forall E A f e kind wire cur v tg tg' r,
  ae_kind e = ETransform kind wire -> ae_tag e = Some tg -> tg <> tg' ->
  unmarshal_entry E A (S f) e cur (Tok v (Some tg') :: r) =
  ubind (unmarshal_bare E A f wire (zero 50 E wire) (Tok v (Some tg') :: r))
        (fun w r' => match tr_bwd kind w with Some x => UOk x r' | None => UErr (S (length r')) end).
Proof.
  intros E A f e kind wire cur v tg tg' r Hk Ht Hne. rewrite unmarshal_entry_S, Hk, Ht.
  cbn [untag_own]. destruct (tg =? tg') eqn:Hq; [apply Z.eqb_eq in Hq; contradiction | reflexivity].
Qed.

Print Assumptions tagged_type_emits_tag.
Print Assumptions tagged_transform_hands_on_untagged.
Print Assumptions registered_tag_reconstructs_type.
