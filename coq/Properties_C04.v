(* Properties_C04.v — C04: the CBOR decoder accepts exactly well-formed CBOR
   and yields what the bytes say.  [parse_item] (CborParse.v) is the
   recursive-descent reading of RFC 7049 restricted to refmt's subset; the
   decoder automaton [dec_run] (CborDec.v) is what is compared with the Go code.
   Statements only; proofs in CborDecProof.v / CborRoundtrip.v. *)
From Coq Require Import List ZArith.
Require Import Tok CborSpec CborEnc CborDec CborParse CborDecProof CborRoundtrip.
Import ListNotations.
Open Scope Z_scope.

(* If the bytes begin with a well-formed item, the decoder yields exactly its
   tokens and consumes exactly its bytes ... *)
Theorem C04_complete : forall c bs n rest,
  parse_item c bs = POk n rest -> exists a, dec_run c bs = DOk (flatten n) rest a.
Proof. intros c bs n rest H. exact (dec_complete _ c bs n rest H). Qed.
Print Assumptions C04_complete.

(* ... otherwise it returns an error (of the same class) ... *)
Theorem C04_rejects : forall c bs e,
  parse_item c bs = PErr e -> exists toks a, dec_run c bs = DFail e toks a.
Proof. intros c bs e H. exact (dec_error _ c bs e H). Qed.
Print Assumptions C04_rejects.

(* ... and it never returns a value the bytes do not encode. *)
Theorem C04_sound : forall c bs toks rest a,
  dec_run c bs = DOk toks rest a -> exists n, parse_item c bs = POk n rest /\ toks = flatten n.
Proof. exact dec_sound. Qed.
Print Assumptions C04_sound.

Theorem C04_error_only_if_not_wellformed : forall c bs e toks a,
  dec_run c bs = DFail e toks a -> parse_item c bs = PErr e.
Proof. exact dec_rejects. Qed.
Print Assumptions C04_error_only_if_not_wellformed.

(* The reference reading always has a verdict, and the decoder always returns
   a value or an error: no panic, no running out of steps (also used by C06). *)
Theorem C04_spec_total : forall c bs, parse_item c bs <> PFuel.
Proof. exact parse_item_total. Qed.
Theorem C04_decoder_total : forall c bs,
  (exists toks rest a, dec_run c bs = DOk toks rest a) \/ (exists e toks a, dec_run c bs = DFail e toks a).
Proof. exact dec_total. Qed.
Print Assumptions C04_decoder_total.

(* It consumes a non-empty prefix of the input and nothing else. *)
Theorem C04_consumes_prefix : forall c bs toks rest a,
  dec_run c bs = DOk toks rest a -> exists used, bs = used ++ rest /\ used <> [].
Proof. exact dec_consumes_prefix. Qed.

(* Terminals: every well-formed head, in any of the five argument sizes,
   denotes the value the relational head specification assigns. *)
Theorem C04_heads : forall m ai arg v rest,
  (m = 0 \/ m = 32 \/ m = 64 \/ m = 96 \/ m = 128 \/ m = 160 \/ m = 192 \/ m = 224) ->
  HeadVal ai arg v -> dec_uint (m + ai) (arg ++ rest) = inl (v, rest).
Proof. exact head_decode. Qed.
Print Assumptions C04_heads.

(* Non-vacuity / sanity, evaluated by the kernel: -2^64 is rejected, -2^63 is
   accepted; a nested tag is rejected; a truncated item is rejected. *)
Example C04_neg_2_64_rejected :
  match dec_run false [59;255;255;255;255;255;255;255;255] with DFail _ _ _ => True | _ => False end.
Proof. vm_compute. exact I. Qed.
Example C04_min_int64_accepted :
  dec_run false [59;127;255;255;255;255;255;255;255] = DOk [Tok (Int (-9223372036854775808)) None] [] 0.
Proof. vm_compute. reflexivity. Qed.
Example C04_nested_tag_rejected :
  match dec_run false [193;194;0] with DFail _ _ _ => True | _ => False end.
Proof. vm_compute. exact I. Qed.
Example C04_wellformed_example :
  parse_item true [191; 97; 107; 247; 255; 7] =
  POk (Node None (VMap (-1) [(Node None (VStr [107]), Node None VNull)])) [7].
Proof. vm_compute. reflexivity. Qed.
