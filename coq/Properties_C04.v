(* Properties_C04.v — C04: the CBOR decoder accepts exactly well-formed CBOR
   and yields what the bytes say.  (Statements are added as the proofs in
   CborDecProof.v land; see DESIGN.md for the full list.) *)
From Coq Require Import List ZArith.
Require Import Tok CborSpec CborEnc CborDec CborParse.
Import ListNotations.
Open Scope Z_scope.

(* Non-vacuity / sanity, evaluated by the kernel: -2^64 is rejected, -2^63 is
   accepted; a nested tag is rejected; a truncated item is rejected. *)
Example C04_neg_2_64_rejected :
  match dec_run false [59;255;255;255;255;255;255;255;255] with DFail _ _ _ => True | _ => False end.
Proof. vm_compute. exact I. Qed.
Example C04_min_int64_accepted :
  dec_run false [59;127;255;255;255;255;255;255;255] = DOk [Tok (Int (-9223372036854775808)) None] [] 0.
Proof. vm_compute. reflexivity. Qed.
Example C04_nested_tag_rejected :
  match dec_run false [193;194;0] with DFail _ _ _ => True | _ => False end.
Proof. vm_compute. exact I. Qed.
