(* Properties_C17.v — C17: reused marshallers / unmarshallers / cloners equal
   fresh ones; items frame cleanly.
   Codec level: Reset (Reuse.v, transcribed from the Go code) re-establishes the
   initial state from ANY state, so a call on a reused instance is the call on
   a fresh one over the remaining input.  Object level: the models of
   obj.Marshaller / obj.Unmarshaller (Marshal.v, Unmarshal.v) are functions of
   (atlas, type, value / tokens) and carry nothing from call to call — what the
   real instances carry (machine stack, slab rows) is what the history suite
   compares against fresh instances and the model.
   Framing: statements are added when TranscodeProof.v lands. *)
From Coq Require Import List ZArith.
Require Import Tok CborEnc CborDec JsonEnc JsonDec GoVal Marshal Unmarshal Reuse.
Import ListNotations.
Open Scope Z_scope.

Theorem C17_cbor_encoder_reuse : forall s ts, enc_call s ts = enc_tokens ts.
Proof. reflexivity. Qed.
Theorem C17_cbor_decoder_reuse : forall c s, dec_call c s = dec_run c (dinp s).
Proof. reflexivity. Qed.
Theorem C17_json_encoder_reuse : forall sh o s ts, jenc_call sh o s ts = jenc_tokens sh o ts.
Proof. reflexivity. Qed.
Theorem C17_json_decoder_reuse : forall s, jdec_call s = jdec_run (jdinp s).
Proof. reflexivity. Qed.
Print Assumptions C17_json_decoder_reuse.

(* in particular after a call that failed in the middle of a nested item *)
Example C17_after_failed_call :
  let s := EncSt EArrDef [EMapDefKey; EAny] in      (* abandoned inside an array inside a map *)
  enc_call s [Tok (Int 1) None] = enc_tokens [Tok (Int 1) None].
Proof. reflexivity. Qed.

(* two items back to back are read one per call, each call consuming only its own item *)
Example C17_cbor_sequence :
  dec_many 3 false [1; 130; 1; 2; 97; 120; 255] =
  ([[Tok (Uint 1) None]; [Tok (ArrOpen 2) None; Tok (Uint 1) None; Tok (Uint 2) None; Tok ArrClose None]; [Tok (Str [120]) None]], [255]).
Proof. vm_compute. reflexivity. Qed.
Example C17_json_sequence :
  jdec_many 2 [49; 50; 32; 91; 93; 123] = ([[Tok (Int 12) None]; [Tok (ArrOpen (-1)) None; Tok ArrClose None]], [123]).
Proof. vm_compute. reflexivity. Qed.
