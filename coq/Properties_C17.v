(* Properties_C17.v — C17: reused marshallers / unmarshallers / cloners equal
   fresh ones; items frame cleanly.
   Codec level: Reset (Reuse.v, transcribed from the Go code) re-establishes the
   initial state from ANY state, so a call on a reused instance is the call on
   a fresh one over the remaining input.  Object level: the models of
   obj.Marshaller / obj.Unmarshaller (Marshal.v, Unmarshal.v) are functions of
   (atlas, type, value / tokens) and carry nothing from call to call — what the
   real instances carry (machine stack, slab rows) is what the history suite
   compares against fresh instances and the model.
   Framing: TranscodeProof.v (dec_many / jdec_many: k successive calls of a
   long-lived decoder over one stream). *)
From Coq Require Import List ZArith.
Require Import Tok CborSpec CborEnc CborDec CborRoundtrip JsonEnc JsonDec GoVal Marshal Unmarshal Reuse Writer ReuseFault ReuseFaultProof JsonNumProof JsonEncProof TranscodeProof.
Import ListNotations.
Open Scope Z_scope.

Theorem C17_cbor_encoder_reuse : forall s ts, enc_call s ts = enc_tokens ts.
Proof. reflexivity. Qed.
Theorem C17_cbor_decoder_reuse : forall c s, dec_call c s = dec_run c (dinp s).
Proof. reflexivity. Qed.
Theorem C17_json_encoder_reuse : forall sh o s ts, jenc_call sh o s ts = jenc_tokens sh o ts.
Proof. reflexivity. Qed.
Theorem C17_json_decoder_reuse : forall s, jdec_call s = jdec_run (jdinp s).
Proof. reflexivity. Qed.
Print Assumptions C17_json_decoder_reuse.

(* Histories with failing writers (ReuseFault.v): the encoders remember the first failed or short Write and return it from
   every Step that wrote; Reset forgets it.  Whatever the earlier calls of one long-lived encoder did — finished, were
   rejected, were abandoned, or failed in the writer (any fault plan per call) — each call ends exactly as it does on a
   fresh encoder with that call's writer. *)
Theorem C17_cbor_encoder_history_with_write_faults : forall calls st,
  history true st calls = map (fun c => cbor_write_faulty (fst c) (snd c)) calls.
Proof. exact history_equals_fresh. Qed.
Theorem C17_json_encoder_history_with_write_faults : forall sh o calls st,
  jhistory sh o true st calls = map (fun c => json_write_faulty sh o (fst c) (snd c)) calls.
Proof. exact jhistory_equals_fresh. Qed.
Print Assumptions C17_json_encoder_history_with_write_faults.
(* the statement is false of a Reset that keeps the remembered error (the cbor encoder before the fix of D24) *)
Example C17_reset_must_forget_the_write_error :
  let calls := [(WPlan 1 false WErr, [Tok (Int 1) None]); (healthy, [Tok (Int 1) None])] in
  history false (enc_init, false) calls = [WReported 1; WReported 1] /\
  history true (enc_init, false) calls = [WReported 1; WFinished 1] /\
  map (fun c => cbor_write_faulty (fst c) (snd c)) calls = [WReported 1; WFinished 1].
Proof. exact history_without_clearing_refuted. Qed.

(* in particular after a call that failed in the middle of a nested item *)
Example C17_after_failed_call :
  let s := EncSt EArrDef [EMapDefKey; EAny] in      (* abandoned inside an array inside a map *)
  enc_call s [Tok (Int 1) None] = enc_tokens [Tok (Int 1) None].
Proof. reflexivity. Qed.

(* Items written back to back into one stream are read back one per call, in order, each call
   consuming only its own item.  CBOR: any documents that each decode as exactly one item ... *)
Theorem C17_cbor_items_frame : forall c (docs : list (bytes * list token)) tail,
  Forall (fun d => exists a, dec_run c (fst d) = DOk (snd d) [] a) docs ->
  dec_many (length docs) c (concat (map fst docs) ++ tail) = Some (map snd docs, tail).
Proof. exact dec_many_concat. Qed.
(* ... in particular the encoder's own outputs *)
Theorem C17_cbor_encoded_items_frame : forall c items tail,
  Forall (fun n => enc_ok n /\ len_ok n /\ rt_ok n) items ->
  Forall (fun n => exists chunks, enc_tokens (flatten n) = Finished chunks (length (flatten n)) /\
                                  concat chunks = rfc_enc n) items /\
  dec_many (length items) c (concat (map rfc_enc items) ++ tail) =
    Some (map (fun n => map canon_tok (flatten n)) items, tail).
Proof. exact dec_many_encoded. Qed.
Print Assumptions C17_cbor_encoded_items_frame.

(* a call consumes only its own item: appending input does not change what it returns *)
Theorem C17_cbor_call_consumes_own_item : forall c bs toks rest a ext,
  dec_run c bs = DOk toks rest a -> exists a', dec_run c (bs ++ ext) = DOk toks (rest ++ ext) a'.
Proof. exact dec_run_frame. Qed.

(* JSON: values are self-delimiting or separated by whitespace; only a bare top-level number that ends the
   input needs a terminator before the next item ("1" followed by "2" is 12) *)
Theorem C17_json_call_consumes_own_item : forall bs toks rest ext,
  jdec_run bs = JDOk toks rest ->
  (rest = [] -> bare_number toks -> JsonNumProof.terminator_ok ext) ->
  jdec_run (bs ++ ext) = JDOk toks (rest ++ ext).
Proof. exact jdec_run_frame. Qed.
Theorem C17_json_items_frame : forall docs tail w0,
  jstream_ok docs tail -> ws_bytes w0 ->
  jdec_many (length docs) (w0 ++ concat (map jd_text docs) ++ tail) = Some (map jd_toks docs, jrem w0 docs tail).
Proof. exact jdec_many_concat. Qed.
Print Assumptions C17_json_items_frame.

Example C17_cbor_sequence :
  dec_many 3 false [1; 130; 1; 2; 97; 120; 255] =
  Some ([[Tok (Uint 1) None]; [Tok (ArrOpen 2) None; Tok (Uint 1) None; Tok (Uint 2) None; Tok ArrClose None]; [Tok (Str [120]) None]], [255]).
Proof. vm_compute. reflexivity. Qed.
Example C17_json_sequence :
  jdec_many 2 [49; 50; 32; 91; 93; 123] = Some ([[Tok (Int 12) None]; [Tok (ArrOpen (-1)) None; Tok ArrClose None]], [123]).
Proof. vm_compute. reflexivity. Qed.
