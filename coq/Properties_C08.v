(* Properties_C08.v — C08: output is a deterministic function of the value; keys
   are ordered as configured.  Statements only; proofs in DetermProof.v.
   A Go map is [GVMap (Some entries)] where the order of [entries] stands for
   Go's (randomised) iteration order; [vperm] relates two values that differ
   only in such orders, at any depth. *)
From Coq Require Import List ZArith Permutation Sorted.
Require Import Tok TokGrammar GoVal Marshal ObjProof DetermProof.
Import ListNotations.
Open Scope Z_scope.

(* the marshaller is a function: equal arguments, equal results — and it does not see iteration order *)
Theorem C08_independent_of_map_iteration_order : forall E A t v v',
  vperm v v' -> keys_distinct A (200 + 12 * vsize 100 v) t v = true ->
  marshal_top E A t v = marshal_top E A t v'.
Proof. exact marshal_top_perm_invariant. Qed.
Print Assumptions C08_independent_of_map_iteration_order.

(* keys_distinct: the *serial* keys of every map the run reaches are pairwise distinct — including maps inside
   the serial form of a transform (kind 9, struct{V interface{}} <-> interface{}: kind9_map_inside_transform;
   the other modelled transforms accept no value that contains a map).  For string-keyed maps that is
   automatic (Go map keys are distinct); for struct keys through a transform it asks the user's transform
   to be injective — and it is needed: *)
Theorem C08_non_injective_key_transform_is_order_dependent :
  ~ (forall A f t v v', vperm v v' -> marshal A f t v = marshal A f t v').
Proof. exact marshal_perm_invariant_needs_distinct. Qed.

(* the two orders are strict total orders with the documented meaning *)
Theorem C08_order_irreflexive : forall mode a, key_ltb mode a a = false.
Proof. exact key_ltb_irrefl. Qed.
Theorem C08_order_transitive : forall mode a b c, key_ltb mode a b = true -> key_ltb mode b c = true -> key_ltb mode a c = true.
Proof. exact key_ltb_trans. Qed.
Theorem C08_order_total : forall mode a b, a <> b -> key_ltb mode a b = true \/ key_ltb mode b a = true.
Proof. exact key_ltb_total. Qed.
Theorem C08_byte_order_is_lexicographic : forall a b, bytes_ltb a b = true <-> lex_lt a b.
Proof. exact bytes_ltb_spec. Qed.
Theorem C08_rfc7049_is_length_then_bytes : forall a b,
  rfc7049_ltb a b = true <-> (length a < length b)%nat \/ (length a = length b /\ bytes_ltb a b = true).
Proof. exact rfc7049_spec. Qed.

(* map keys are emitted in the configured order: the atlas default for a map type without its own entry ... *)
Theorem C08_map_keys_in_default_order : forall A f kt vt es ts,
  atlas_get A (GMap kt vt) = None ->
  marshal A f (GMap kt vt) (GVMap (Some es)) = MOk ts ->
  exists str, map_stringer A kt = Some str /\
    top_keys ts = map fst (sort_keys (key_ltb (a_mode A)) (stringified str es)).
Proof. exact map_value_keys_default_mode. Qed.

(* ... the entry's own mode for a map type with a MapMorphism entry; in both cases sorted, a permutation of the keys *)
Theorem C08_map_keys_sorted : forall A f mode kt vt es ts,
  marshal_map A f mode kt vt (Some es) = MOk ts ->
  exists str,
    map_stringer A kt = Some str /\
    existsb nonep (map_keyed str es) = false /\
    top_keys ts = map fst (sort_keys (key_ltb mode) (stringified str es)) /\
    Permutation (top_keys ts) (map fst (stringified str es)) /\
    StronglySorted (fun a b => key_ltb mode b a = false) (top_keys ts) /\
    (NoDup (map fst (stringified str es)) -> StronglySorted (fun a b => key_ltb mode a b = true) (top_keys ts)).
Proof. exact map_keys_emitted_in_order. Qed.
Print Assumptions C08_map_keys_sorted.

(* struct fields come in the order the atlas entry lists them *)
Theorem C08_struct_fields_in_atlas_order : forall A f t tg fields v ts,
  marshal_entry A f (AE t tg (EStruct fields)) v = MOk ts ->
  top_keys ts = map fe_name (live_fields fields v) /\
  live_fields fields v = filter (has_route v) (live_fields fields v) /\
  sublist (top_keys ts) (map fe_name fields).
Proof. exact struct_keys_in_atlas_order. Qed.
Print Assumptions C08_struct_fields_in_atlas_order.

Example C08_rfc7049_order :
  marshal_top [] (Atlas [] 2) (GMap GStr (GNum IInt))
     (GVMap (Some [(GVStr [98;98], VNum 1); (GVStr [97], VNum 2); (GVStr [97;97;97], VNum 3); (GVStr [98], VNum 4)])) =
  MOk [Tok (MapOpen 4) None; Tok (Str [97]) None; Tok (Int 2) None; Tok (Str [98]) None; Tok (Int 4) None;
       Tok (Str [98;98]) None; Tok (Int 1) None; Tok (Str [97;97;97]) None; Tok (Int 3) None; Tok MapClose None].
Proof. vm_compute. reflexivity. Qed.
