(* Properties_C08.v — statements are added as the proofs land (see DESIGN.md). *)
From Coq Require Import List ZArith.
Require Import Tok GoVal Marshal.
Import ListNotations.
Open Scope Z_scope.

Example C08_rfc7049_order :
  marshal_top [] (Atlas [] 2) (GMap GStr (GNum IInt))
     (GVMap (Some [(GVStr [98;98], VNum 1); (GVStr [97], VNum 2); (GVStr [97;97;97], VNum 3); (GVStr [98], VNum 4)])) =
  MOk [Tok (MapOpen 4) None; Tok (Str [97]) None; Tok (Int 2) None; Tok (Str [98]) None; Tok (Int 4) None;
       Tok (Str [98;98]) None; Tok (Int 1) None; Tok (Str [97;97;97]) None; Tok (Int 3) None; Tok MapClose None].
Proof. vm_compute. reflexivity. Qed.
