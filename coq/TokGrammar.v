(* TokGrammar.v — the token-stream grammar as a function: [parse_node] is the
   (fuelled) inverse of [flatten].  Used as the executable specification of
   "the tokens so far form one complete value" (C14, C07, C13) and to rebuild
   value trees for the reference encoders. *)
From Coq Require Import List ZArith Bool Lia.
Require Import Tok.
Import ListNotations.
Open Scope Z_scope.

Definition leaf_of (v : tokv) : option tval :=
  match v with
  | Null => Some VNull | Str s => Some (VStr s) | Byt s => Some (VByt s)
  | Bool b => Some (VBool b) | Int i => Some (VInt i) | Uint u => Some (VUint u)
  | Flt f => Some (VFlt f)
  | _ => None
  end.

Fixpoint parse_node (fuel : nat) (ts : list token) : option (tnode * list token) :=
  match fuel with
  | O => None
  | S f =>
    match ts with
    | [] => None
    | Tok v tg :: rest =>
      match v with
      | ArrOpen d =>
          match parse_items f rest with
          | Some (items, rest') => Some (Node tg (VArr d items), rest')
          | None => None
          end
      | MapOpen d =>
          match parse_entries f rest with
          | Some (es, rest') => Some (Node tg (VMap d es), rest')
          | None => None
          end
      | ArrClose | MapClose => None
      | _ => match leaf_of v with Some l => Some (Node tg l, rest) | None => None end
      end
    end
  end
with parse_items (fuel : nat) (ts : list token) : option (list tnode * list token) :=
  match fuel with
  | O => None
  | S f =>
    match ts with
    | Tok ArrClose _ :: rest => Some ([], rest)
    | _ =>
      match parse_node f ts with
      | Some (x, r) =>
          match parse_items f r with
          | Some (xs, r') => Some (x :: xs, r')
          | None => None
          end
      | None => None
      end
    end
  end
with parse_entries (fuel : nat) (ts : list token) : option (list (tnode * tnode) * list token) :=
  match fuel with
  | O => None
  | S f =>
    match ts with
    | Tok MapClose _ :: rest => Some ([], rest)
    | _ =>
      match parse_node f ts with
      | Some (k, r) =>
          match parse_node f r with
          | Some (v, r2) =>
              match parse_entries f r2 with
              | Some (es, r') => Some ((k, v) :: es, r')
              | None => None
              end
          | None => None
          end
      | None => None
      end
    end
  end.

(* Parse a complete token list as exactly one value. *)
Definition unflatten (ts : list token) : option tnode :=
  match parse_node (S (length ts)) ts with
  | Some (n, []) => Some n
  | _ => None
  end.

(* ---------- the specification context machine --------------------------- *)
(* What a consumer of a token stream must track to know whether the tokens so
   far form one complete value: the stack of open containers, and for maps
   whether a key or a value is due.  [key_ok] says which scalars may be keys. *)

Inductive frame := FArr | FMapKey | FMapVal.
Definition ctx := list frame.            (* head = innermost open container; [] = nothing opened yet *)

Inductive cres := CCont (c : ctx) | CDone | CErr.

Definition after_value_ctx (c : ctx) : cres :=
  match c with
  | [] => CDone
  | FMapVal :: r => CCont (FMapKey :: r)
  | f :: r => CCont (f :: r)
  end.

Definition after_close (r : ctx) : cres :=
  match r with
  | [] => CDone
  | FMapVal :: r' => CCont (FMapKey :: r')
  | _ => CCont r
  end.

Definition is_scalar (v : tokv) : bool :=
  match v with MapOpen _ | MapClose | ArrOpen _ | ArrClose => false | _ => true end.

Definition ctx_step (key_ok : tokv -> bool) (c : ctx) (v : tokv) : cres :=
  match c with
  | FMapKey :: r =>
      match v with
      | MapClose => after_close r
      | MapOpen _ | ArrOpen _ | ArrClose => CErr
      | _ => if key_ok v then CCont (FMapVal :: r) else CErr
      end
  | _ =>   (* a value is due: top level, array element, or map value *)
      match v with
      | MapOpen _ => CCont (FMapKey :: c)
      | ArrOpen _ => CCont (FArr :: c)
      | ArrClose => match c with FArr :: r => after_close r | _ => CErr end
      | MapClose => CErr
      | _ => after_value_ctx c
      end
  end.

(* run: index (1-based count of tokens used) and outcome at the first done/error *)
Inductive crun := CRDone (used : nat) | CRErr (used : nat) | CRStarved (c : ctx).

Fixpoint ctx_run (key_ok : tokv -> bool) (c : ctx) (ts : list token) (n : nat) : crun :=
  match ts with
  | [] => CRStarved c
  | t :: rest =>
      match ctx_step key_ok c (tv t) with
      | CCont c' => ctx_run key_ok c' rest (S n)
      | CDone => CRDone (S n)
      | CErr => CRErr (S n)
      end
  end.

Definition key_cbor (v : tokv) : bool := match v with Str _ | Int _ | Uint _ => true | _ => false end.
Definition key_json (v : tokv) : bool := match v with Str _ => true | _ => false end.
