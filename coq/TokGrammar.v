(* TokGrammar.v — the token-stream grammar as a function: [parse_node] is the
   (fuelled) inverse of [flatten].  Used as the executable specification of
   "the tokens so far form one complete value" (C14, C07, C13) and to rebuild
   value trees for the reference encoders. *)
From Coq Require Import List ZArith Bool Lia.
Require Import Tok.
Import ListNotations.
Open Scope Z_scope.

Definition leaf_of (v : tokv) : option tval :=
  match v with
  | Null => Some VNull | Str s => Some (VStr s) | Byt s => Some (VByt s)
  | Bool b => Some (VBool b) | Int i => Some (VInt i) | Uint u => Some (VUint u)
  | Flt f => Some (VFlt f)
  | _ => None
  end.

Fixpoint parse_node (fuel : nat) (ts : list token) : option (tnode * list token) :=
  match fuel with
  | O => None
  | S f =>
    match ts with
    | [] => None
    | Tok v tg :: rest =>
      match v with
      | ArrOpen d =>
          match parse_items f rest with
          | Some (items, rest') => Some (Node tg (VArr d items), rest')
          | None => None
          end
      | MapOpen d =>
          match parse_entries f rest with
          | Some (es, rest') => Some (Node tg (VMap d es), rest')
          | None => None
          end
      | ArrClose | MapClose => None
      | _ => match leaf_of v with Some l => Some (Node tg l, rest) | None => None end
      end
    end
  end
with parse_items (fuel : nat) (ts : list token) : option (list tnode * list token) :=
  match fuel with
  | O => None
  | S f =>
    match ts with
    | Tok ArrClose _ :: rest => Some ([], rest)
    | _ =>
      match parse_node f ts with
      | Some (x, r) =>
          match parse_items f r with
          | Some (xs, r') => Some (x :: xs, r')
          | None => None
          end
      | None => None
      end
    end
  end
with parse_entries (fuel : nat) (ts : list token) : option (list (tnode * tnode) * list token) :=
  match fuel with
  | O => None
  | S f =>
    match ts with
    | Tok MapClose _ :: rest => Some ([], rest)
    | _ =>
      match parse_node f ts with
      | Some (k, r) =>
          match parse_node f r with
          | Some (v, r2) =>
              match parse_entries f r2 with
              | Some (es, r') => Some ((k, v) :: es, r')
              | None => None
              end
          | None => None
          end
      | None => None
      end
    end
  end.

(* Parse a complete token list as exactly one value. *)
Definition unflatten (ts : list token) : option tnode :=
  match parse_node (S (length ts)) ts with
  | Some (n, []) => Some n
  | _ => None
  end.
