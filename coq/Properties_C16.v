(* Properties_C16.v — C16: I/O failures are reported, never swallowed.
   Statements only; proofs in FaultProof.v (writer side) and TruncProof.v
   (reader side). *)
From Coq Require Import List ZArith.
Require Import Tok TokGrammar CborEnc CborDec CborParse JsonEnc JsonDec JsonParse Writer FaultProof TruncProof.
Import ListNotations.
Open Scope Z_scope.

(* If the faulty Write call is one of the calls the document needs (and a
   "short" fault hits a non-empty write), the run returns the error — at or
   before the token on which the fault-free run would have finished. *)
Theorem C16_cbor_write_fault_reported : forall ts chunks used p,
  enc_tokens ts = Finished chunks used ->
  (1 <= wk p <= length chunks)%nat ->
  effective (wkind p) (nth (wk p - 1) chunks []) = true ->
  exists j, (1 <= j <= used)%nat /\ cbor_write_faulty p ts = WReported j.
Proof. exact cbor_write_fault_reported. Qed.
Print Assumptions C16_cbor_write_fault_reported.

Theorem C16_json_write_fault_reported : forall sh o ts chunks used p,
  jenc_tokens sh o ts = JFinished chunks used ->
  (1 <= wk p <= length chunks)%nat ->
  effective (wkind p) (nth (wk p - 1) chunks []) = true ->
  exists j, (1 <= j <= used)%nat /\ json_write_faulty sh o p ts = WReported j.
Proof. exact json_write_fault_reported. Qed.
Print Assumptions C16_json_write_fault_reported.

Theorem C16_no_fault_no_error : forall ts chunks used p,
  enc_tokens ts = Finished chunks used -> (length chunks < wk p)%nat ->
  cbor_write_faulty p ts = WFinished used.
Proof. exact cbor_no_fault_unchanged. Qed.

Example C16_example :
  cbor_write_faulty (WPlan 2 false WErr) [Tok (ArrOpen 1) None; Tok (Str [97]) None; Tok ArrClose None] = WReported 2.
Proof. vm_compute. reflexivity. Qed.

(* Reader side: an input cut short anywhere strictly inside an item is an
   end-of-input error, never a value and never a shorter value. *)
Theorem C16_cbor_truncated_input_is_eof_error : forall c bs n rest k,
  parse_item c bs = POk n rest -> (k < length bs - length rest)%nat ->
  exists e toks a, dec_run c (firstn k bs) = DFail e toks a /\ eof_class e.
Proof. exact cbor_truncation. Qed.
Print Assumptions C16_cbor_truncated_input_is_eof_error.

(* JSON: a bare top-level number has no terminator (its prefixes are numbers too); every other item,
   cut anywhere inside, fails — with an end-of-input error, except when the cut falls right after a
   number text that is not representable on its own (1234567890123456789012 before its ".5"), which
   is reported as a malformed number: still an error, never a value. *)
Theorem C16_json_truncated_input_is_error : forall bs n rest k,
  jparse_item true bs = POk n rest -> not_bare_number n -> (k < length bs - length rest)%nat ->
  exists e toks, jdec_run (firstn k bs) = JDFail e toks /\
    (eof_class e \/ (e = EMalformed /\ ends_in_unrepresentable_number (firstn k bs))).
Proof. exact json_truncation_general. Qed.
Theorem C16_json_truncated_input_is_eof_error : forall bs n rest k,
  jparse_item true bs = POk n rest -> not_bare_number n -> (k < length bs - length rest)%nat ->
  ~ ends_in_unrepresentable_number (firstn k bs) ->
  exists e toks, jdec_run (firstn k bs) = JDFail e toks /\ eof_class e.
Proof. exact json_truncation_eof. Qed.
Print Assumptions C16_json_truncated_input_is_error.
