(* Properties_C16.v — C16: I/O failures are reported, never swallowed.
   Statements only; proofs in FaultProof.v (writer side) and TruncProof.v
   (reader side, added when it lands). *)
From Coq Require Import List ZArith.
Require Import Tok CborEnc JsonEnc Writer FaultProof.
Import ListNotations.
Open Scope Z_scope.

(* If the faulty Write call is one of the calls the document needs (and a
   "short" fault hits a non-empty write), the run returns the error — at or
   before the token on which the fault-free run would have finished. *)
Theorem C16_cbor_write_fault_reported : forall ts chunks used p,
  enc_tokens ts = Finished chunks used ->
  (1 <= wk p <= length chunks)%nat ->
  effective (wkind p) (nth (wk p - 1) chunks []) = true ->
  exists j, (1 <= j <= used)%nat /\ cbor_write_faulty p ts = WReported j.
Proof. exact cbor_write_fault_reported. Qed.
Print Assumptions C16_cbor_write_fault_reported.

Theorem C16_json_write_fault_reported : forall sh o ts chunks used p,
  jenc_tokens sh o ts = JFinished chunks used ->
  (1 <= wk p <= length chunks)%nat ->
  effective (wkind p) (nth (wk p - 1) chunks []) = true ->
  exists j, (1 <= j <= used)%nat /\ json_write_faulty sh o p ts = WReported j.
Proof. exact json_write_fault_reported. Qed.
Print Assumptions C16_json_write_fault_reported.

Theorem C16_no_fault_no_error : forall ts chunks used p,
  enc_tokens ts = Finished chunks used -> (length chunks < wk p)%nat ->
  cbor_write_faulty p ts = WFinished used.
Proof. exact cbor_no_fault_unchanged. Qed.

Example C16_example :
  cbor_write_faulty (WPlan 2 false WErr) [Tok (ArrOpen 1) None; Tok (Str [97]) None; Tok ArrClose None] = WReported 2.
Proof. vm_compute. reflexivity. Qed.
