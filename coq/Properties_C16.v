(* Properties_C16.v — C16: I/O failures are reported, never swallowed.
   Statements are added as the proofs land. *)
From Coq Require Import List ZArith.
Require Import Tok CborEnc Writer.
Import ListNotations.
Open Scope Z_scope.

(* sanity (kernel-evaluated): the 2nd Write failing once is reported at the token that wrote it *)
Example C16_example :
  cbor_write_faulty (WPlan 2 false WErr) [Tok (ArrOpen 1) None; Tok (Str [97]) None; Tok ArrClose None] = WReported 2.
Proof. vm_compute. reflexivity. Qed.
