(* BoundsProof.v — property C06: decoding untrusted input needs a number of
   steps linear in the input and requests heap linear in the input, whatever
   lengths the input declares.

   1. CBOR decoder: heap account and token count of [dec_run].
   2. JSON decoder: token count and payload sizes of [jdec_run].
   3. Object unmarshaller: fuel monotonicity, linear fuel bound.
   4. Object unmarshaller: the dynamically sized parts of the value built are
      bounded by the tokens consumed. *)
From Coq Require Import List ZArith Bool Lia ZifyBool ZifyNat.
Require Import Tok Utf8 CborSpec CborEnc CborDec JsonDec JsonStrProof JsonDecProof.
Require Import GoVal Marshal Unmarshal ObjProof.
Import ListNotations.
Open Scope Z_scope.

Notation len l := (Z.of_nat (length l)).

(* ====================================================================== *)
(* 1. CBOR: the heap account                                               *)
(* ====================================================================== *)

Lemma readn_len n bs a rest : readn n bs = inl (a, rest) ->
  bs = a ++ rest /\ len a = Z.max 0 n.
Proof.
  unfold readn. destruct (n =? 0) eqn:E0.
  - intros H. inversion H; subst. split; [reflexivity|]. cbn. lia.
  - destruct (len bs <? n) eqn:E1; [discriminate|].
    intros H. inversion H; subst. split; [symmetry; apply firstn_skipn|].
    rewrite firstn_length. lia.
Qed.

Lemma dec_uint_len mb bs u rest : dec_uint mb bs = inl (u, rest) -> len rest <= len bs.
Proof.
  unfold dec_uint.
  destruct (Z.land mb 31 <=? 23). { intros H; inversion H; subst; lia. }
  destruct (Z.land mb 31 =? 24).
  { destruct bs as [|b r]; cbn [readn1]; intros H; inversion H; subst. cbn [length]. lia. }
  destruct (Z.land mb 31 =? 25).
  { destruct (readn 2 bs) as [[a r]|e] eqn:E; intros H; inversion H; subst.
    apply readn_len in E. destruct E as [-> E]. rewrite app_length. lia. }
  destruct (Z.land mb 31 =? 26).
  { destruct (readn 4 bs) as [[a r]|e] eqn:E; intros H; inversion H; subst.
    apply readn_len in E. destruct E as [-> E]. rewrite app_length. lia. }
  destruct (Z.land mb 31 =? 27).
  { destruct (readn 8 bs) as [[a r]|e] eqn:E; intros H; inversion H; subst.
    apply readn_len in E. destruct E as [-> E]. rewrite app_length. lia. }
  discriminate.
Qed.

Lemma dec_len_len mb bs u rest : dec_len mb bs = inl (u, rest) -> len rest <= len bs.
Proof.
  unfold dec_len. destruct (dec_uint mb bs) as [[x r]|e] eqn:E; [|discriminate].
  destruct (maxInt <? x); [discriminate|]. intros H; inversion H; subst.
  eapply dec_uint_len; eauto.
Qed.

Lemma dec_negint_len mb bs u rest : dec_negint mb bs = inl (u, rest) -> len rest <= len bs.
Proof.
  unfold dec_negint. destruct (dec_uint mb bs) as [[x r]|e] eqn:E; [|discriminate].
  destruct (maxInt <? x); [discriminate|]. intros H; inversion H; subst.
  eapply dec_uint_len; eauto.
Qed.

Lemma dec_float_len mb bs u rest : dec_float mb bs = inl (u, rest) -> len rest <= len bs.
Proof.
  unfold dec_float.
  destruct (mb =? sigF16).
  { destruct (readn 2 bs) as [[a r]|e] eqn:E; intros H; inversion H; subst.
    apply readn_len in E. destruct E as [-> E]. rewrite app_length. lia. }
  destruct (mb =? sigF32).
  { destruct (readn 4 bs) as [[a r]|e] eqn:E; intros H; inversion H; subst.
    apply readn_len in E. destruct E as [-> E]. rewrite app_length. lia. }
  destruct (readn 8 bs) as [[a r]|e] eqn:E; intros H; inversion H; subst.
  apply readn_len in E. destruct E as [-> E]. rewrite app_length. lia.
Qed.

(* definite strings: a successful read was charged no more than it consumed,
   and delivers exactly what it consumed after the head *)
Lemma dec_bytes_ok mb bs s rest a : dec_bytes mb bs = (inl (s, rest), a) ->
  a <= len s /\ len s + len rest <= len bs.
Proof.
  unfold dec_bytes. destruct (dec_len mb bs) as [[n r]|e] eqn:E; [|discriminate].
  destruct (item_cap <? n); [discriminate|]. intros H. inversion H; subst.
  apply dec_len_len in E. apply readn_len in H1. destruct H1 as [-> H1].
  rewrite app_length in E. lia.
Qed.

(* whatever happens, a definite string requests at most item_cap *)
Lemma dec_bytes_request_bound mb bs : snd (dec_bytes mb bs) <= item_cap.
Proof.
  unfold dec_bytes. destruct (dec_len mb bs) as [[n r]|e]; [|cbn; unfold item_cap; lia].
  destruct (item_cap <? n) eqn:E; cbn [snd]; [unfold item_cap|]; lia.
Qed.

(* indefinite strings: the capacity account *)
Definition chunk_inv (cap alloc : Z) (acc : bytes) : Prop :=
  16 <= cap /\ len acc <= cap /\ cap <= Z.max 16 (3 * len acc) /\ alloc <= 2 * cap - 16.

Lemma chunk_inv_step cap alloc acc n c :
  chunk_inv cap alloc acc -> len c = Z.max 0 n ->
  let '(cap', alloc') := if cap <? len acc + n then (2 * cap + n, alloc + 2 * cap + n) else (cap, alloc) in
  chunk_inv cap' alloc' (acc ++ c).
Proof.
  intros (H1 & H2 & H3 & H4) Hc. unfold chunk_inv.
  destruct (cap <? len acc + n) eqn:E; rewrite app_length; lia.
Qed.

Lemma dec_chunks_ok fuel : forall want acc cap alloc bs res rest a,
  chunk_inv cap alloc acc ->
  dec_chunks fuel want acc cap alloc bs = (inl (res, rest), a) ->
  (exists cap', chunk_inv cap' a res) /\ len res + 1 + len rest <= len acc + len bs.
Proof.
  induction fuel as [|f IH]; intros want acc cap alloc bs res rest a Hinv; cbn [dec_chunks].
  - discriminate.
  - destruct bs as [|mb r]; cbn [readn1]; [discriminate|].
    destruct (mb =? sigBreak).
    { intros H; inversion H; subst. split; [exists cap; exact Hinv|]. cbn [length]. lia. }
    destruct (negb (mb - Z.land mb 31 =? want)); [discriminate|].
    destruct (dec_len mb r) as [[n r2]|e] eqn:E; [|discriminate].
    destruct (item_cap <? n); [discriminate|].
    apply dec_len_len in E.
    destruct (readn n r2) as [[c0 r3]|e] eqn:E2.
    + pose proof (readn_len _ _ _ _ E2) as [-> Hc].
      pose proof (chunk_inv_step cap alloc acc n c0 Hinv Hc) as Hstep.
      destruct (cap <? len acc + n).
      * intros H. destruct (IH _ _ _ _ _ _ _ _ Hstep H) as [Hex Hl].
        split; [exact Hex|]. rewrite !app_length in *. cbn [length]. lia.
      * intros H. destruct (IH _ _ _ _ _ _ _ _ Hstep H) as [Hex Hl].
        split; [exact Hex|]. rewrite !app_length in *. cbn [length]. lia.
    + destruct (cap <? len acc + n); discriminate.
Qed.

Lemma chunk_inv_init : chunk_inv 16 16 [].
Proof. unfold chunk_inv. cbn. lia. Qed.

Lemma dec_indef_ok want bs res rest a : dec_indef_string want bs = (inl (res, rest), a) ->
  a <= 16 + 6 * len res /\ len res + 1 + len rest <= len bs.
Proof.
  unfold dec_indef_string. intros H.
  destruct (dec_chunks_ok _ _ _ _ _ _ _ _ _ chunk_inv_init H) as [[cap' (H1 & H2 & H3 & H4)] Hl].
  cbn [length] in Hl. split; lia.
Qed.

(* whatever happens (including a chunk that declares up to item_cap bytes that
   never arrive), an indefinite string requests at most item_cap plus an amount
   linear in the input *)
Lemma dec_chunks_request_bound fuel : forall want acc cap alloc bs,
  chunk_inv cap alloc acc ->
  snd (dec_chunks fuel want acc cap alloc bs) <= item_cap + 12 * (len acc + len bs) + 64.
Proof.
  induction fuel as [|f IH]; intros want acc cap alloc bs Hinv; cbn [dec_chunks].
  - destruct Hinv as (H1 & H2 & H3 & H4). cbn [snd]. unfold item_cap. lia.
  - assert (Hnow : alloc <= item_cap + 12 * (len acc + len bs) + 64).
    { destruct Hinv as (H1 & H2 & H3 & H4). unfold item_cap. lia. }
    destruct bs as [|mb r]; cbn [readn1]; [exact Hnow|].
    destruct (mb =? sigBreak); [exact Hnow|].
    destruct (negb (mb - Z.land mb 31 =? want)); [exact Hnow|].
    destruct (dec_len mb r) as [[n r2]|e] eqn:E; [|exact Hnow].
    destruct (item_cap <? n) eqn:En; [exact Hnow|].
    apply dec_len_len in E.
    destruct (readn n r2) as [[c0 r3]|e] eqn:E2.
    + pose proof (readn_len _ _ _ _ E2) as [-> Hc].
      pose proof (chunk_inv_step cap alloc acc n c0 Hinv Hc) as Hstep.
      destruct (cap <? len acc + n);
        (eapply Z.le_trans; [apply IH; exact Hstep|]);
        rewrite !app_length in *; cbn [length]; lia.
    + destruct Hinv as (H1 & H2 & H3 & H4).
      destruct (cap <? len acc + n) eqn:Ec; cbn [snd]; cbn [length] in *; lia.
Qed.

Lemma dec_indef_request_bound want bs :
  snd (dec_indef_string want bs) <= item_cap + 12 * len bs + 64.
Proof.
  unfold dec_indef_string.
  pose proof (dec_chunks_request_bound (S (length bs)) want [] 16 16 bs chunk_inv_init) as H.
  cbn [length] in H. lia.
Qed.

(* ---------- one step ---------------------------------------------------- *)

Lemma scalar_inv s tg r a t d s' a' : scalar s tg r a = SubTok t d s' a' ->
  exists v rest, r = inl (v, rest) /\ s' = with_inp s rest /\ a' = a /\ t = Tok v tg.
Proof.
  unfold scalar. destruct r as [[v rest]|e]; [|discriminate].
  intros H; inversion H; subst. exists v, rest.
  split; [reflexivity|]. split; [reflexivity|]. split; reflexivity.
Qed.

Lemma lift_inv {X} (f : X -> tokv) r v rest : lift f r = inl (v, rest) ->
  exists x, r = inl (x, rest) /\ v = f x.
Proof. unfold lift. destruct r as [[x r']|e]; [|discriminate]. intros H; inversion H; subst. eauto. Qed.

(* payload size of a token *)
Definition tok_size (t : token) : nat :=
  match tv t with Str s | Byt s => length s | _ => 1%nat end.

(* what a sub-step that accepts a value after its first byte consumed, requested
   and pushed *)
Definition accept_ok (s : dec_state) (t : token) (s' : dec_state) (a : Z) : Prop :=
  len (dinp s') <= len (dinp s) /\
  a <= 16 * (1 + len (dinp s) - len (dinp s')) /\
  (length (dleft s') <= length (dleft s) + 1)%nat /\
  Z.of_nat (tok_size t) <= 1 + len (dinp s) - len (dinp s').

Lemma accept_untagged_ok c mb tg s t d s' a :
  accept_untagged c mb tg s = SubTok t d s' a -> accept_ok s t s' a.
Proof.
  unfold accept_untagged, accept_ok.
  repeat match goal with
  | |- (if ?c then _ else _) = _ -> _ => destruct c
  end;
  try discriminate;
  try (intros H; apply scalar_inv in H; destruct H as (v & rest & Hr & -> & -> & ->);
       first
         [ inversion Hr; subst; cbn [dinp dleft with_inp tok_size tv]; lia
         | apply lift_inv in Hr; destruct Hr as (x & Hr & ->);
           first [ apply dec_float_len in Hr | apply dec_uint_len in Hr | apply dec_negint_len in Hr ];
           cbn [dinp dleft with_inp tok_size tv]; lia ]);
  try (intros H; inversion H; subst; cbn [dinp dleft dec_push]; cbn [tok_size tv]; lia).
  - destruct (dec_indef_string majBytes (dinp s)) as [r a0] eqn:E.
    intros H; apply scalar_inv in H; destruct H as (v & rest & Hr & -> & -> & ->).
    apply lift_inv in Hr; destruct Hr as (x & -> & ->). apply dec_indef_ok in E.
    cbn [dinp dleft with_inp tok_size tv]. lia.
  - destruct (dec_indef_string majString (dinp s)) as [r a0] eqn:E.
    intros H; apply scalar_inv in H; destruct H as (v & rest & Hr & -> & -> & ->).
    apply lift_inv in Hr; destruct Hr as (x & -> & ->). apply dec_indef_ok in E.
    cbn [dinp dleft with_inp tok_size tv]. lia.
  - destruct (dec_bytes mb (dinp s)) as [r a0] eqn:E.
    intros H; apply scalar_inv in H; destruct H as (v & rest & Hr & -> & -> & ->).
    apply lift_inv in Hr; destruct Hr as (x & -> & ->). apply dec_bytes_ok in E.
    cbn [dinp dleft with_inp tok_size tv]. lia.
  - destruct (dec_bytes mb (dinp s)) as [r a0] eqn:E.
    intros H; apply scalar_inv in H; destruct H as (v & rest & Hr & -> & -> & ->).
    apply lift_inv in Hr; destruct Hr as (x & -> & ->). apply dec_bytes_ok in E.
    cbn [dinp dleft with_inp tok_size tv]. lia.
  - destruct (dec_len mb (dinp s)) as [[n rest]|e] eqn:E; [|discriminate].
    intros H; inversion H; subst. apply dec_len_len in E.
    cbn [dinp dleft dec_push tok_size tv length]. lia.
  - destruct (dec_len mb (dinp s)) as [[n rest]|e] eqn:E; [|discriminate].
    intros H; inversion H; subst. apply dec_len_len in E.
    cbn [dinp dleft dec_push tok_size tv length]. lia.
Qed.

Lemma accept_value_ok c mb s t d s' a :
  accept_value c mb s = SubTok t d s' a -> accept_ok s t s' a.
Proof.
  unfold accept_value. destruct ((majTag <=? mb) && (mb <? majSimple)).
  - destruct (dec_len mb (dinp s)) as [[tg rest]|e] eqn:E; [|discriminate].
    apply dec_len_len in E.
    destruct rest as [|mb2 rest2]; cbn [readn1]; [discriminate|].
    destruct ((majTag <=? mb2) && (mb2 <? majSimple)); [discriminate|].
    intros H. apply accept_untagged_ok in H. unfold accept_ok in *.
    cbn [with_inp dinp dleft length] in *. lia.
  - apply accept_untagged_ok.
Qed.

Definition step_ok (s : dec_state) (t : token) (s' : dec_state) (a : Z) : Prop :=
  exists k : Z, 0 <= k /\ len (dinp s) = len (dinp s') + k /\ a <= 16 * k /\
    len (dleft s') + 1 <= len (dleft s) + 2 * k /\
    Z.of_nat (tok_size t) + len (dleft s') <= len (dleft s) + 2 * k.

Lemma accept_step_ok s s1 mb r t s' a :
  accept_ok s1 t s' a -> dinp s = mb :: r -> dinp s1 = r -> length (dleft s1) = length (dleft s) ->
  step_ok s t s' a.
Proof.
  unfold accept_ok, step_ok. intros (H1 & H2 & H3 & H4) Hs Hs1 Hl.
  exists (1 + len r - len (dinp s')). rewrite Hs, Hs1 in *. cbn [length]. lia.
Qed.

Lemma not_done_inv r t d s a : not_done r = SubTok t d s a -> exists d0, r = SubTok t d0 s a.
Proof. destruct r; cbn; intros H; inversion H; subst; eauto. Qed.

Lemma sub_step_ok c s t d s' a : sub_step c s = SubTok t d s' a -> step_ok s t s' a.
Proof.
  unfold sub_step.
  destruct (dph s).
  - destruct (dinp s) as [|mb r] eqn:Ei; cbn [readn1]; [discriminate|].
    intros H. apply accept_value_ok in H.
    eapply accept_step_ok; [exact H | exact Ei | reflexivity | reflexivity].
  - destruct (dinp s) as [|mb r] eqn:Ei; cbn [readn1]; [discriminate|].
    destruct (mb =? sigBreak).
    + intros H; inversion H; subst. exists 1. rewrite Ei. cbn [with_inp dinp dleft tok_size tv length]. lia.
    + intros H. apply not_done_inv in H. destruct H as [d0 H]. apply accept_value_ok in H.
      eapply accept_step_ok; [exact H | exact Ei | reflexivity | reflexivity].
  - destruct (dinp s) as [|mb r] eqn:Ei; cbn [readn1]; [discriminate|].
    destruct (mb =? sigBreak).
    + intros H; inversion H; subst. exists 1. rewrite Ei. cbn [with_inp dinp dleft tok_size tv length]. lia.
    + intros H. apply not_done_inv in H. destruct H as [d0 H]. apply accept_value_ok in H.
      eapply accept_step_ok; [exact H | exact Ei | reflexivity | reflexivity].
  - destruct (dinp s) as [|mb r] eqn:Ei; cbn [readn1]; [discriminate|].
    destruct (mb =? sigBreak); [discriminate|].
    intros H. apply not_done_inv in H. destruct H as [d0 H]. apply accept_value_ok in H.
    eapply accept_step_ok; [exact H | exact Ei | reflexivity | reflexivity].
  - destruct (dleft s) as [|l ls] eqn:El; [discriminate|].
    destruct (l =? 0).
    + intros H; inversion H; subst. exists 0. rewrite El. cbn [dinp dleft tok_size tv length]. lia.
    + destruct (dinp s) as [|mb r] eqn:Ei; cbn [readn1]; [discriminate|].
      intros H. apply not_done_inv in H. destruct H as [d0 H]. apply accept_value_ok in H.
      eapply accept_step_ok; [exact H | exact Ei | reflexivity | rewrite El; reflexivity].
  - destruct (dleft s) as [|l ls] eqn:El; [discriminate|].
    destruct (l =? 0).
    + intros H; inversion H; subst. exists 0. rewrite El. cbn [dinp dleft tok_size tv length]. lia.
    + destruct (dinp s) as [|mb r] eqn:Ei; cbn [readn1]; [discriminate|].
      intros H. apply not_done_inv in H. destruct H as [d0 H]. apply accept_value_ok in H.
      eapply accept_step_ok; [exact H | exact Ei | reflexivity | rewrite El; reflexivity].
  - destruct (dinp s) as [|mb r] eqn:Ei; cbn [readn1]; [discriminate|].
    intros H. apply not_done_inv in H. destruct H as [d0 H]. apply accept_value_ok in H.
    eapply accept_step_ok; [exact H | exact Ei | reflexivity | reflexivity].
Qed.

Lemma dec_step_ok c s t d s' a : dec_step c s = DTok t d s' a -> step_ok s t s' a.
Proof.
  unfold dec_step. destruct (sub_step c s) as [t0 d0 s0 a0|e s0|] eqn:E; try discriminate.
  apply sub_step_ok in E.
  destruct d0.
  - destruct (dstack s0) as [|p [|q stk]]; intros H; inversion H; subst; exact E.
  - intros H; inversion H; subst; exact E.
Qed.

(* ---------- the loop ------------------------------------------------------ *)

Fixpoint sum_size (ts : list token) : nat :=
  match ts with [] => O | t :: r => (tok_size t + sum_size r)%nat end.

Lemma sum_size_app a b : sum_size (a ++ b) = (sum_size a + sum_size b)%nat.
Proof. induction a as [|x a IH]; cbn [sum_size app]; lia. Qed.

Lemma sum_size_rev a : sum_size (rev a) = sum_size a.
Proof. induction a as [|x a IH]; [reflexivity|]. cbn [rev]. rewrite sum_size_app, IH. cbn [sum_size]. lia. Qed.

Definition run_ok (B : Z) (r : drun_res) : Prop :=
  match r with
  | DOk toks rest a =>
      a + 16 * len rest <= 16 * B /\ len toks + 2 * len rest <= 2 * B /\
      Z.of_nat (sum_size toks) + 2 * len rest <= 2 * B
  | DFail _ toks a =>
      a <= 16 * B /\ len toks <= 2 * B /\ Z.of_nat (sum_size toks) <= 2 * B
  | _ => True
  end.

Lemma dec_loop_ok B c fuel : forall s acc alloc,
  alloc + 16 * len (dinp s) <= 16 * B ->
  len acc + len (dleft s) + 2 * len (dinp s) <= 2 * B ->
  Z.of_nat (sum_size acc) + len (dleft s) + 2 * len (dinp s) <= 2 * B ->
  run_ok B (dec_loop fuel c s acc alloc).
Proof.
  induction fuel as [|f IH]; intros s acc alloc H1 H2 H3; cbn [dec_loop]; [exact I|].
  destruct (dec_step c s) as [t d s' a|e s'|] eqn:E; [| |exact I].
  - apply dec_step_ok in E. destruct E as (k & Hk & Hi & Ha & Hd & Hs).
    destruct d.
    + cbn [run_ok]. rewrite sum_size_rev, rev_length. cbn [sum_size length]. lia.
    + apply IH; cbn [sum_size length]; lia.
  - cbn [run_ok]. rewrite sum_size_rev, rev_length. lia.
Qed.

(* The heap account is linear in the input, with no constant term at all: every
   request the model records is covered by bytes actually consumed (16 per byte:
   a one-byte array head charges 16).  NOTE the model drops the request of the
   failing step (scalar ... (inr e) => SubErr); the lemmas dec_bytes_request_bound
   and dec_indef_request_bound bound that dropped request by
   item_cap (+ 12 * input + 64). *)
Theorem dec_alloc_bound : forall coerce bs,
  match dec_run coerce bs with
  | DOk toks rest a => a <= 16 * (len bs - len rest)
  | DFail e toks a => a <= 16 * len bs
  | _ => True
  end.
Proof.
  intros c bs. unfold dec_run.
  pose proof (dec_loop_ok (len bs) c (2 * length bs + 2) (dec_init bs) [] 0) as H.
  cbn [dec_init dinp dleft length sum_size] in H.
  destruct (dec_loop _ c _ [] 0); cbn [run_ok] in H; try exact I; lia.
Qed.

(* the bound in the shape requested *)
Corollary dec_alloc_bound_cap : forall coerce bs,
  match dec_run coerce bs with
  | DOk toks rest a => a <= 2 * item_cap + 16 * len bs
  | DFail e toks a => a <= 2 * item_cap + 16 * len bs
  | _ => True
  end.
Proof.
  intros c bs. pose proof (dec_alloc_bound c bs) as H.
  destruct (dec_run c bs); try exact I; unfold item_cap; lia.
Qed.

(* [length toks <= length bs] is false: a one-byte empty array gives two tokens *)
Example dec_tokens_le_bytes_refuted :
  dec_run false [128] = DOk [Tok (ArrOpen 0) None; Tok ArrClose None] [] 16.
Proof. vm_compute. reflexivity. Qed.

(* the exact inequality: two tokens per byte consumed *)
Theorem dec_tokens_linear : forall coerce bs,
  match dec_run coerce bs with
  | DOk toks rest a => (length toks <= 2 * (length bs - length rest))%nat
  | DFail e toks a => (length toks <= 2 * length bs)%nat
  | _ => True
  end.
Proof.
  intros c bs. unfold dec_run.
  pose proof (dec_loop_ok (len bs) c (2 * length bs + 2) (dec_init bs) [] 0) as H.
  cbn [dec_init dinp dleft length sum_size] in H.
  destruct (dec_loop _ c _ [] 0); cbn [run_ok] in H; try exact I; lia.
Qed.

(* no amplification: payload bytes (1 for a token without payload) *)
Theorem dec_payload_linear : forall coerce bs,
  match dec_run coerce bs with
  | DOk toks rest a => (sum_size toks <= 2 * (length bs - length rest))%nat
  | DFail e toks a => (sum_size toks <= 2 * length bs)%nat
  | _ => True
  end.
Proof.
  intros c bs. unfold dec_run.
  pose proof (dec_loop_ok (len bs) c (2 * length bs + 2) (dec_init bs) [] 0) as H.
  cbn [dec_init dinp dleft length sum_size] in H.
  destruct (dec_loop _ c _ [] 0); cbn [run_ok] in H; try exact I; lia.
Qed.

Print Assumptions dec_alloc_bound.
Print Assumptions dec_alloc_bound_cap.
Print Assumptions dec_tokens_linear.
Print Assumptions dec_payload_linear.
Print Assumptions dec_bytes_request_bound.
Print Assumptions dec_indef_request_bound.

(* ---------- examples ------------------------------------------------------- *)

(* an array head declaring 2^64-1 elements, then nothing: rejected, nothing requested *)
Example ex_huge_array_header : dec_run false (155 :: repeat 255 8) = DFail EMalformed [] 0.
Proof. vm_compute. reflexivity. Qed.

(* an indefinite byte string of n one-byte chunks *)
Definition one_byte_chunks (n : nat) : bytes :=
  95 :: flat_map (fun _ => [65; 120]) (seq 0 n) ++ [255].

Example ex_many_chunks_100 :
  length (one_byte_chunks 100) = 202%nat /\
  dec_run false (one_byte_chunks 100) = DOk [Tok (Byt (repeat 120 100)) None] [] 251.
Proof. vm_compute. split; reflexivity. Qed.

Example ex_many_chunks_1000 :
  match dec_run false (one_byte_chunks 1000) with
  | DOk [Tok (Byt s) None] [] a => length s = 1000%nat /\ a = 2152
  | _ => False
  end.
Proof. vm_compute. split; reflexivity. Qed.

(* a byte string declaring item_cap + 1 bytes: rejected before allocating *)
Example ex_over_cap : dec_run false [90; 2; 0; 0; 1] = DFail EMalformed [] 0.
Proof. vm_compute. reflexivity. Qed.

(* a byte string declaring exactly item_cap bytes that never arrive: the step
   requests item_cap bytes and then fails; the model's account drops that request *)
Example ex_at_cap_truncated :
  dec_run false [90; 2; 0; 0; 0] = DFail EEof [] 0 /\ snd (dec_bytes 90 [2; 0; 0; 0]) = item_cap.
Proof. vm_compute. split; reflexivity. Qed.

(* the same inside an indefinite string: item_cap + 3 * 16 requested, dropped *)
Example ex_at_cap_chunk_truncated :
  dec_run false [95; 90; 2; 0; 0; 0] = DFail EEof [] 0 /\
  snd (dec_indef_string majBytes [90; 2; 0; 0; 0]) = item_cap + 48.
Proof. vm_compute. split; reflexivity. Qed.

(* ====================================================================== *)
(* 2. JSON: tokens and payloads                                            *)
(* ====================================================================== *)

Lemma skip_ws_len bs : (length (skip_ws bs) <= length bs)%nat.
Proof.
  induction bs as [|b r IH]; cbn [skip_ws]; [lia|].
  destruct (is_ws b); cbn [length]; lia.
Qed.

Lemma str_scan_len : forall bs st acc raw rest, str_scan st bs acc = inl (raw, rest) ->
  (length raw + 1 + length rest = length acc + length bs)%nat.
Proof.
  induction bs as [|c r IH]; intros st acc raw rest; cbn [str_scan]; [discriminate|].
  destruct st;
    repeat match goal with
    | |- (if ?c then _ else _) = _ -> _ => destruct c
    end;
    try discriminate;
    try (intros H; apply IH in H; cbn [length] in *; lia).
  intros H; inversion H; subst. rewrite rev_length. cbn [length]. lia.
Qed.

Lemma getu4_len s : 0 <= getu4 s -> (6 <= length s)%nat.
Proof.
  unfold getu4.
  destruct s as [|a [|b [|c [|d [|e [|f r]]]]]]; try lia;
    repeat match goal with |- context [match ?x with _ => _ end] => destruct x; try lia end;
    cbn [length]; lia.
Qed.

Lemma encode_rune_len r : (length (encode_rune r) <= 4)%nat.
Proof.
  unfold encode_rune.
  repeat match goal with |- context [if ?c then _ else _] => destruct c end; cbn [length]; lia.
Qed.

Lemma encode_rune_error : encode_rune rune_error = [239; 191; 189].
Proof. reflexivity. Qed.

Lemma decode_rune_hi b0 r0 c n : 128 <= b0 -> decode_rune (b0 :: r0) = (c, n) ->
  (c = rune_error /\ n = 1) \/ 2 <= n <= len (b0 :: r0).
Proof.
  intros Hb D. destruct (decode_rune_inv b0 r0 c n Hb D) as [H | (p & X & Hp & Hw & ->)]; [left; exact H|].
  right. apply wf_seq_len in Hw. rewrite Hp, app_length. lia.
Qed.

Lemma unescape_len : forall f s out, unescape f s = Some out -> (length out <= 3 * length s)%nat.
Proof.
  induction f as [|f IH]; intros s out; cbn [unescape].
  - intros H; inversion H; subst. cbn [length]. lia.
  - destruct s as [|c r]; [intros H; inversion H; subst; cbn [length]; lia|].
    destruct (c =? 92) eqn:Ec.
    + destruct r as [|e r2]; [discriminate|].
      pose proof (getu4_len (c :: e :: r2)) as Hg.
      remember (c :: e :: r2) as s eqn:Es.
      assert (Hl : (length s = 2 + length r2)%nat) by (subst s; reflexivity).
      repeat match goal with
      | |- (if ?c then _ else _) = _ -> _ => destruct c eqn:?
      end; try discriminate;
      match goal with
      | |- match unescape f ?X with _ => _ end = _ -> _ =>
          destruct (unescape f X) as [t|] eqn:E; [|discriminate];
          intros H; inversion H; subst out; apply IH in E
      end;
      repeat match goal with
      | |- context [encode_rune ?x] =>
          let Hn := fresh "Hn" in pose proof (encode_rune_len x) as Hn; 
          generalize dependent (encode_rune x); intros
      end;
      rewrite ?app_length; rewrite ?skipn_length in *; cbn [length] in *; lia.
    + destruct ((c =? 34) || (c <? 32)); [discriminate|].
      destruct (c <? 128) eqn:E128.
      * destruct (unescape f r) as [t|] eqn:E; [|discriminate].
        intros H; inversion H; subst. apply IH in E. cbn [length]. lia.
      * destruct (decode_rune (c :: r)) as [rr size] eqn:D.
        pose proof (decode_rune_hi c r rr size ltac:(lia) D) as Hd.
        destruct (unescape f (skipn (Z.to_nat size) (c :: r))) as [t|] eqn:E; [|discriminate].
        intros H; inversion H; subst. apply IH in E. rewrite skipn_length in E.
        rewrite app_length. pose proof (encode_rune_len rr) as Hn.
        destruct Hd as [[-> ->]|Hd].
        -- rewrite encode_rune_error. cbn [length] in *. lia.
        -- cbn [length] in *. lia.
Qed.

Lemma dec_string_len bs s rest : dec_string bs = inl (s, rest) ->
  (length s + 3 + 3 * length rest <= 3 * length bs)%nat.
Proof.
  unfold dec_string. destruct (str_scan SNormal bs []) as [[raw r]|e] eqn:E; [|discriminate].
  apply str_scan_len in E. cbn [length] in E.
  destruct (unescape (S (length raw)) raw) as [u|] eqn:U.
  - intros H; inversion H; subst. apply unescape_len in U. lia.
  - intros H; inversion H; subst. cbn [length]. lia.
Qed.

Lemma num_scan_len : forall bs s acc more rest, num_scan s bs acc = inl (more, rest) ->
  (length rest <= length bs)%nat.
Proof.
  induction bs as [|c r IH]; intros s acc more rest; cbn [num_scan].
  - destruct (n_accepting s); intros H; inversion H; subst. lia.
  - destruct (num_step s c) as [[s'|] ok].
    + intros H. apply IH in H. cbn [length]. lia.
    + destruct ok; intros H; inversion H; subst. lia.
Qed.

Lemma dec_number_len first bs v rest : dec_number first bs = inl (v, rest) ->
  (length rest <= length bs)%nat /\ tok_size (Tok v None) = 1%nat.
Proof.
  unfold dec_number.
  destruct (num_scan _ bs []) as [[more r]|e] eqn:E; [|discriminate].
  destruct (num_token (first :: more)) as [v0|e] eqn:T; [|discriminate].
  intros H; inversion H; subst. split; [eapply num_scan_len; eauto|].
  apply num_token_isnum in T. destruct v; try discriminate; reflexivity.
Qed.

Lemma dec_literal_len word bs rest : dec_literal word bs = inl rest -> (length rest <= length bs)%nat.
Proof.
  unfold dec_literal. destruct (readn _ bs) as [[got r]|e] eqn:E; [|discriminate].
  destruct (forallb _ _); [|discriminate]. intros H; inversion H; subst.
  apply readn_len in E. destruct E as [-> _]. rewrite app_length. lia.
Qed.

Lemma jaccept_ok mb s bs t d s' : jaccept_value mb s bs = JSubTok t d s' ->
  (length (jdinp s') <= length bs)%nat /\
  (tok_size t + 3 * length (jdinp s') <= 3 + 3 * length bs)%nat.
Proof.
  unfold jaccept_value.
  repeat match goal with
  | |- (if ?c then _ else _) = _ -> _ => destruct c
  end; try discriminate;
  try (intros H; inversion H; subst; cbn [jpush_frame jdinp tok_size tv]; lia);
  try (match goal with |- match dec_literal ?w ?b with _ => _ end = _ -> _ =>
         destruct (dec_literal w b) as [r|e] eqn:E; [|discriminate] end;
       apply dec_literal_len in E; intros H; inversion H; subst;
       cbn [set_inp jdinp tok_size tv]; lia).
  - destruct (dec_string bs) as [[str r]|e] eqn:E; [|discriminate].
    apply dec_string_len in E. intros H; inversion H; subst.
    cbn [set_inp jdinp tok_size tv]. lia.
  - destruct (dec_number mb bs) as [[v r]|e] eqn:E; [|discriminate].
    apply dec_number_len in E. destruct E as [E1 E2]. intros H; inversion H; subst.
    cbn [set_inp jdinp]. lia.
Qed.

Definition jstep_ok (s : jdec_state) (t : token) (s' : jdec_state) : Prop :=
  (length (jdinp s') + 1 <= length (jdinp s))%nat /\
  (tok_size t + 3 * length (jdinp s') <= 3 * length (jdinp s))%nat.

Lemma jnot_done_inv r t d s : jnot_done r = JSubTok t d s -> exists d0, r = JSubTok t d0 s.
Proof. destruct r; cbn; intros H; inversion H; subst; eauto. Qed.

Lemma skip_ws_cons_len bs mb r : skip_ws bs = mb :: r -> (length r + 1 <= length bs)%nat.
Proof. intros H. pose proof (skip_ws_len bs) as L. rewrite H in L. cbn [length] in L. lia. Qed.

Lemma jsub_step_ok s t d s' : jsub_step s = JSubTok t d s' -> jstep_ok s t s'.
Proof.
  unfold jsub_step, jstep_ok.
  destruct (skip_ws (jdinp s)) as [|mb r] eqn:W; [discriminate|].
  apply skip_ws_cons_len in W.
  destruct (jk (jdframe s)).
  - intros H. apply jaccept_ok in H. lia.
  - assert (Hcont : forall mb2 r2, (length r2 + 1 <= length (jdinp s))%nat ->
        (if mb2 =? 93 then JSubTok (Tok ArrClose None) true (set_inp s r2)
         else jnot_done (jaccept_value mb2 (with_frame s (JFrame KArr true)) r2)) = JSubTok t d s' ->
        (length (jdinp s') + 1 <= length (jdinp s))%nat /\
        (tok_size t + 3 * length (jdinp s') <= 3 * length (jdinp s))%nat).
    { intros mb2 r2 L. destruct (mb2 =? 93).
      - intros H; inversion H; subst. cbn [set_inp jdinp tok_size tv]. lia.
      - intros H. apply jnot_done_inv in H. destruct H as [d0 H]. apply jaccept_ok in H. lia. }
    destruct (jfsome (jdframe s)).
    + destruct (mb =? 93).
      { intros H; inversion H; subst. cbn [set_inp jdinp tok_size tv]. lia. }
      destruct (mb =? 44); [|discriminate].
      destruct (skip_ws r) as [|mb2 r2] eqn:W2; [discriminate|].
      apply skip_ws_cons_len in W2. apply Hcont. lia.
    + apply Hcont. lia.
  - assert (Hkey : forall mb2 r2, (length r2 + 1 <= length (jdinp s))%nat ->
        (if mb2 =? 125 then JSubTok (Tok MapClose None) true (set_inp s r2)
         else if mb2 =? 34 then
           match dec_string r2 with
           | inr e => JSubErr e
           | inl (str, r3) =>
               match skip_ws r3 with
               | [] => JSubErr EEof
               | c :: r4 =>
                   if c =? 58 then JSubTok (Tok (Str str) None) false (JDecSt (JFrame KMapVal false) (jdstack s) r4)
                   else JSubErr EMalformed
               end
           end
         else JSubErr EMalformed) = JSubTok t d s' ->
        (length (jdinp s') + 1 <= length (jdinp s))%nat /\
        (tok_size t + 3 * length (jdinp s') <= 3 * length (jdinp s))%nat).
    { intros mb2 r2 L. destruct (mb2 =? 125).
      - intros H; inversion H; subst. cbn [set_inp jdinp tok_size tv]. lia.
      - destruct (mb2 =? 34); [|discriminate].
        destruct (dec_string r2) as [[str r3]|e] eqn:E; [|discriminate].
        apply dec_string_len in E.
        destruct (skip_ws r3) as [|c r4] eqn:W3; [discriminate|].
        apply skip_ws_cons_len in W3.
        destruct (c =? 58); [|discriminate].
        intros H; inversion H; subst. cbn [jdinp tok_size tv]. lia. }
    destruct (jfsome (jdframe s)).
    + destruct (mb =? 125).
      { intros H; inversion H; subst. cbn [set_inp jdinp tok_size tv]. lia. }
      destruct (mb =? 44); [|discriminate].
      destruct (skip_ws r) as [|mb2 r2] eqn:W2; [discriminate|].
      apply skip_ws_cons_len in W2. apply Hkey. lia.
    + apply Hkey. lia.
  - intros H. apply jnot_done_inv in H. destruct H as [d0 H]. apply jaccept_ok in H. lia.
Qed.

Lemma jdec_step_ok s t d s' : jdec_step s = JDTok t d s' -> jstep_ok s t s'.
Proof.
  unfold jdec_step. destruct (jsub_step s) as [t0 d0 s0|e] eqn:E; [|discriminate].
  apply jsub_step_ok in E.
  destruct d0.
  - destruct (jdstack s0) as [|p [|q stk]]; intros H; inversion H; subst; exact E.
  - intros H; inversion H; subst; exact E.
Qed.

Definition jrun_ok (B : nat) (r : jdrun_res) : Prop :=
  match r with
  | JDOk toks rest =>
      (length toks + length rest <= B)%nat /\ (sum_size toks + 3 * length rest <= 3 * B)%nat
  | JDFail _ toks => (length toks <= B)%nat /\ (sum_size toks <= 3 * B)%nat
  | _ => True
  end.

Lemma jdec_loop_ok B fuel : forall s acc,
  (length acc + length (jdinp s) <= B)%nat ->
  (sum_size acc + 3 * length (jdinp s) <= 3 * B)%nat ->
  jrun_ok B (jdec_loop fuel s acc).
Proof.
  induction fuel as [|f IH]; intros s acc H1 H2; cbn [jdec_loop]; [exact I|].
  destruct (jdec_step s) as [t d s'|e] eqn:E.
  - apply jdec_step_ok in E. destruct E as [E1 E2].
    destruct d.
    + cbn [jrun_ok]. rewrite sum_size_rev, rev_length. cbn [sum_size length]. lia.
    + apply IH; cbn [sum_size length]; lia.
  - cbn [jrun_ok]. rewrite sum_size_rev, rev_length. lia.
Qed.

(* every token consumes at least one byte *)
Theorem jdec_tokens_linear : forall bs,
  match jdec_run bs with
  | JDOk toks rest => (length toks <= length bs - length rest)%nat
  | JDFail e toks => (length toks <= length bs)%nat
  | _ => True
  end.
Proof.
  intros bs. unfold jdec_run.
  pose proof (jdec_loop_ok (length bs) (length bs + 2) (jdec_init bs) []) as H.
  cbn [jdec_init jdinp length sum_size] in H. specialize (H ltac:(lia) ltac:(lia)).
  destruct (jdec_loop _ _ []); cbn [jrun_ok] in H; try exact I; lia.
Qed.

(* no amplification beyond the factor 3 of the U+FFFD replacement: one invalid
   byte inside a string becomes EF BF BD *)
Theorem jdec_payload_linear : forall bs,
  match jdec_run bs with
  | JDOk toks rest => (sum_size toks <= 3 * (length bs - length rest))%nat
  | JDFail e toks => (sum_size toks <= 3 * length bs)%nat
  | _ => True
  end.
Proof.
  intros bs. unfold jdec_run.
  pose proof (jdec_loop_ok (length bs) (length bs + 2) (jdec_init bs) []) as H.
  cbn [jdec_init jdinp length sum_size] in H. specialize (H ltac:(lia) ltac:(lia)).
  destruct (jdec_loop _ _ []); cbn [jrun_ok] in H; try exact I; lia.
Qed.

Lemma sum_size_in t ts : In t ts -> (tok_size t <= sum_size ts)%nat.
Proof.
  induction ts as [|x r IH]; [contradiction|]. intros [->|H]; cbn [sum_size]; [lia|].
  specialize (IH H). lia.
Qed.

(* in particular every single payload *)
Corollary jdec_each_payload : forall bs t,
  match jdec_run bs with
  | JDOk toks _ | JDFail _ toks => In t toks -> (tok_size t <= 3 * length bs)%nat
  | _ => True
  end.
Proof.
  intros bs t. pose proof (jdec_payload_linear bs) as H.
  destruct (jdec_run bs); try exact I; intros Hin; apply sum_size_in in Hin; lia.
Qed.

(* the factor 3 is reached: n invalid bytes in a string of n + 2 input bytes *)
Example jdec_factor3 :
  jdec_run (34 :: repeat 255 10 ++ [34]) =
  JDOk [Tok (Str (flat_map (fun _ => [239; 191; 189]) (seq 0 10))) None] [].
Proof. vm_compute. reflexivity. Qed.

Print Assumptions jdec_tokens_linear.
Print Assumptions jdec_payload_linear.
Print Assumptions jdec_each_payload.
