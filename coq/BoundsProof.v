(* BoundsProof.v — property C06: decoding untrusted input needs a number of
   steps linear in the input and requests heap linear in the input, whatever
   lengths the input declares.

   1. CBOR decoder: heap account and token count of [dec_run].
   2. JSON decoder: token count and payload sizes of [jdec_run].
   3. Object unmarshaller: fuel monotonicity, linear fuel bound.
   4. Object unmarshaller: the dynamically sized parts of the value built are
      bounded by the tokens consumed.

   STATUS OF THE REQUESTED STATEMENTS
   - dec_alloc_bound: the model's account satisfies the stronger
       a <= 16 * (bytes consumed)         (no item_cap term; 16 is reached by [0x80]);
     dec_alloc_bound_cap is the requested shape (K = 16).  The model drops the
     request of the failing step; dec_bytes_request_bound / dec_indef_request_bound
     bound that dropped request by item_cap (+ 12 * input + 64).
   - dec_tokens_linear: "length toks <= length bs" is FALSE
     (dec_tokens_le_bytes_refuted); true: length toks <= 2 * bytes consumed.
   - jdec_tokens_linear as requested; payloads: sum tok_size <= 3 * bytes
     (K' = 3, reached: jdec_factor3).
   - unmarshal_fuel_mono as requested.
   - unmarshal_total: FALSE under atlas_ranked (unmarshal_total_ranked_refuted: a
     transform entry for a pointer type whose wire is that pointer type) and
     FALSE with slope 4 for any constant (unmarshal_slope4_refuted, empty atlas);
     true under the boolean hypothesis [cranked A d] (the token-free call chains
     through transform wires and the untyped slot's tag lookup end within d visits,
     taking into account that a transform strips its own tag: untag_own) with
       (3 d + 5) + (3 d + 6) * length ts <= f          (unmarshal_total_chains).
     The older, coarser hypothesis [uranked A d] implies it (uranked_cranked), so the
     earlier statement unmarshal_total is unchanged and still proved.  The tag cycle
     that refuted "atlas_ranked suffices" before the repair of the Go code (tagged
     transform with wire interface{}) now terminates: cex_tag_cycle_now_terminates.
     Simple sufficient condition: acyclic transform wires + "the entry found for a
     tagged entry's type carries that tag" (wires_ranked, tags_own_type;
     unmarshal_total_wires); the second part is needed
     (unmarshal_total_wires_needs_own_type; atlas.Build enforces it).
     unmarshal_top (fuel 64 + 16 * tokens) never returns UTFuel when cranked A 3
     (unmarshal_top_total, no restriction on the length); for longer chains it can
     (unmarshal_top_fuel_refuted, a chain of 7 transforms); unmarshal_top_with_total /
     _mono / unmarshal_top_total_short are the general forms.
   - unmarshal_size_linear: with gsize the statement is FALSE even with a type-size
     term added once (gsize_bound_needs_type_term,
     gsize_grows_by_type_size_per_element); true for [dsize] (payload bytes, slice
     elements, map entries) against token weight, with constant 1 and no type
     term: dsize v + 1 + tweight rest <= dsize cur + tweight ts. *)
From Coq Require Import List ZArith Bool Lia ZifyBool ZifyNat.
Require Import Tok Utf8 CborSpec CborEnc CborDec JsonDec JsonStrProof JsonDecProof.
Require Import GoVal Marshal Unmarshal ObjProof.
Import ListNotations.
Open Scope Z_scope.

Notation len l := (Z.of_nat (length l)).

(* ====================================================================== *)
(* 1. CBOR: the heap account                                               *)
(* ====================================================================== *)

Lemma readn_len n bs a rest : readn n bs = inl (a, rest) ->
  bs = a ++ rest /\ len a = Z.max 0 n.
Proof.
  unfold readn. destruct (n =? 0) eqn:E0.
  - intros H. inversion H; subst. split; [reflexivity|]. cbn. lia.
  - destruct (len bs <? n) eqn:E1; [discriminate|].
    intros H. inversion H; subst. split; [symmetry; apply firstn_skipn|].
    rewrite firstn_length. lia.
Qed.

Lemma dec_uint_len mb bs u rest : dec_uint mb bs = inl (u, rest) -> len rest <= len bs.
Proof.
  unfold dec_uint.
  destruct (Z.land mb 31 <=? 23). { intros H; inversion H; subst; lia. }
  destruct (Z.land mb 31 =? 24).
  { destruct bs as [|b r]; cbn [readn1]; intros H; inversion H; subst. cbn [length]. lia. }
  destruct (Z.land mb 31 =? 25).
  { destruct (readn 2 bs) as [[a r]|e] eqn:E; intros H; inversion H; subst.
    apply readn_len in E. destruct E as [-> E]. rewrite app_length. lia. }
  destruct (Z.land mb 31 =? 26).
  { destruct (readn 4 bs) as [[a r]|e] eqn:E; intros H; inversion H; subst.
    apply readn_len in E. destruct E as [-> E]. rewrite app_length. lia. }
  destruct (Z.land mb 31 =? 27).
  { destruct (readn 8 bs) as [[a r]|e] eqn:E; intros H; inversion H; subst.
    apply readn_len in E. destruct E as [-> E]. rewrite app_length. lia. }
  discriminate.
Qed.

Lemma dec_len_len mb bs u rest : dec_len mb bs = inl (u, rest) -> len rest <= len bs.
Proof.
  unfold dec_len. destruct (dec_uint mb bs) as [[x r]|e] eqn:E; [|discriminate].
  destruct (maxInt <? x); [discriminate|]. intros H; inversion H; subst.
  eapply dec_uint_len; eauto.
Qed.

Lemma dec_negint_len mb bs u rest : dec_negint mb bs = inl (u, rest) -> len rest <= len bs.
Proof.
  unfold dec_negint. destruct (dec_uint mb bs) as [[x r]|e] eqn:E; [|discriminate].
  destruct (maxInt <? x); [discriminate|]. intros H; inversion H; subst.
  eapply dec_uint_len; eauto.
Qed.

Lemma dec_float_len mb bs u rest : dec_float mb bs = inl (u, rest) -> len rest <= len bs.
Proof.
  unfold dec_float.
  destruct (mb =? sigF16).
  { destruct (readn 2 bs) as [[a r]|e] eqn:E; intros H; inversion H; subst.
    apply readn_len in E. destruct E as [-> E]. rewrite app_length. lia. }
  destruct (mb =? sigF32).
  { destruct (readn 4 bs) as [[a r]|e] eqn:E; intros H; inversion H; subst.
    apply readn_len in E. destruct E as [-> E]. rewrite app_length. lia. }
  destruct (readn 8 bs) as [[a r]|e] eqn:E; intros H; inversion H; subst.
  apply readn_len in E. destruct E as [-> E]. rewrite app_length. lia.
Qed.

(* definite strings: a successful read was charged no more than it consumed,
   and delivers exactly what it consumed after the head *)
Lemma dec_bytes_ok mb bs s rest a : dec_bytes mb bs = (inl (s, rest), a) ->
  a <= len s /\ len s + len rest <= len bs.
Proof.
  unfold dec_bytes. destruct (dec_len mb bs) as [[n r]|e] eqn:E; [|discriminate].
  destruct (item_cap <? n); [discriminate|]. intros H. inversion H; subst.
  apply dec_len_len in E. apply readn_len in H1. destruct H1 as [-> H1].
  rewrite app_length in E. lia.
Qed.

(* whatever happens, a definite string requests at most item_cap *)
Lemma dec_bytes_request_bound mb bs : snd (dec_bytes mb bs) <= item_cap.
Proof.
  unfold dec_bytes. destruct (dec_len mb bs) as [[n r]|e]; [|cbn; unfold item_cap; lia].
  destruct (item_cap <? n) eqn:E; cbn [snd]; [unfold item_cap|]; lia.
Qed.

(* indefinite strings: the capacity account *)
Definition chunk_inv (cap alloc : Z) (acc : bytes) : Prop :=
  16 <= cap /\ len acc <= cap /\ cap <= Z.max 16 (3 * len acc) /\ alloc <= 2 * cap - 16.

Lemma chunk_inv_step cap alloc acc n c :
  chunk_inv cap alloc acc -> len c = Z.max 0 n ->
  let '(cap', alloc') := if cap <? len acc + n then (2 * cap + n, alloc + 2 * cap + n) else (cap, alloc) in
  chunk_inv cap' alloc' (acc ++ c).
Proof.
  intros (H1 & H2 & H3 & H4) Hc. unfold chunk_inv.
  destruct (cap <? len acc + n) eqn:E; rewrite app_length; lia.
Qed.

Lemma dec_chunks_ok fuel : forall want acc cap alloc bs res rest a,
  chunk_inv cap alloc acc ->
  dec_chunks fuel want acc cap alloc bs = (inl (res, rest), a) ->
  (exists cap', chunk_inv cap' a res) /\ len res + 1 + len rest <= len acc + len bs.
Proof.
  induction fuel as [|f IH]; intros want acc cap alloc bs res rest a Hinv; cbn [dec_chunks].
  - discriminate.
  - destruct bs as [|mb r]; cbn [readn1]; [discriminate|].
    destruct (mb =? sigBreak).
    { intros H; inversion H; subst. split; [exists cap; exact Hinv|]. cbn [length]. lia. }
    destruct (negb (mb - Z.land mb 31 =? want)); [discriminate|].
    destruct (dec_len mb r) as [[n r2]|e] eqn:E; [|discriminate].
    destruct (item_cap <? n); [discriminate|].
    apply dec_len_len in E.
    destruct (readn n r2) as [[c0 r3]|e] eqn:E2.
    + pose proof (readn_len _ _ _ _ E2) as [-> Hc].
      pose proof (chunk_inv_step cap alloc acc n c0 Hinv Hc) as Hstep.
      destruct (cap <? len acc + n).
      * intros H. destruct (IH _ _ _ _ _ _ _ _ Hstep H) as [Hex Hl].
        split; [exact Hex|]. rewrite !app_length in *. cbn [length]. lia.
      * intros H. destruct (IH _ _ _ _ _ _ _ _ Hstep H) as [Hex Hl].
        split; [exact Hex|]. rewrite !app_length in *. cbn [length]. lia.
    + destruct (cap <? len acc + n); discriminate.
Qed.

Lemma chunk_inv_init : chunk_inv 16 16 [].
Proof. unfold chunk_inv. cbn. lia. Qed.

Lemma dec_indef_ok want bs res rest a : dec_indef_string want bs = (inl (res, rest), a) ->
  a <= 16 + 6 * len res /\ len res + 1 + len rest <= len bs.
Proof.
  unfold dec_indef_string. intros H.
  destruct (dec_chunks_ok _ _ _ _ _ _ _ _ _ chunk_inv_init H) as [[cap' (H1 & H2 & H3 & H4)] Hl].
  cbn [length] in Hl. split; lia.
Qed.

(* whatever happens (including a chunk that declares up to item_cap bytes that
   never arrive), an indefinite string requests at most item_cap plus an amount
   linear in the input *)
Lemma dec_chunks_request_bound fuel : forall want acc cap alloc bs,
  chunk_inv cap alloc acc ->
  snd (dec_chunks fuel want acc cap alloc bs) <= item_cap + 12 * (len acc + len bs) + 64.
Proof.
  induction fuel as [|f IH]; intros want acc cap alloc bs Hinv; cbn [dec_chunks].
  - destruct Hinv as (H1 & H2 & H3 & H4). cbn [snd]. unfold item_cap. lia.
  - assert (Hnow : alloc <= item_cap + 12 * (len acc + len bs) + 64).
    { destruct Hinv as (H1 & H2 & H3 & H4). unfold item_cap. lia. }
    destruct bs as [|mb r]; cbn [readn1]; [exact Hnow|].
    destruct (mb =? sigBreak); [exact Hnow|].
    destruct (negb (mb - Z.land mb 31 =? want)); [exact Hnow|].
    destruct (dec_len mb r) as [[n r2]|e] eqn:E; [|exact Hnow].
    destruct (item_cap <? n) eqn:En; [exact Hnow|].
    apply dec_len_len in E.
    destruct (readn n r2) as [[c0 r3]|e] eqn:E2.
    + pose proof (readn_len _ _ _ _ E2) as [-> Hc].
      pose proof (chunk_inv_step cap alloc acc n c0 Hinv Hc) as Hstep.
      destruct (cap <? len acc + n);
        (eapply Z.le_trans; [apply IH; exact Hstep|]);
        rewrite !app_length in *; cbn [length]; lia.
    + destruct Hinv as (H1 & H2 & H3 & H4).
      destruct (cap <? len acc + n) eqn:Ec; cbn [snd]; cbn [length] in *; lia.
Qed.

Lemma dec_indef_request_bound want bs :
  snd (dec_indef_string want bs) <= item_cap + 12 * len bs + 64.
Proof.
  unfold dec_indef_string.
  pose proof (dec_chunks_request_bound (S (length bs)) want [] 16 16 bs chunk_inv_init) as H.
  cbn [length] in H. lia.
Qed.

(* ---------- one step ---------------------------------------------------- *)

Lemma scalar_inv s tg r a t d s' a' : scalar s tg r a = SubTok t d s' a' ->
  exists v rest, r = inl (v, rest) /\ s' = with_inp s rest /\ a' = a /\ t = Tok v tg.
Proof.
  unfold scalar. destruct r as [[v rest]|e]; [|discriminate].
  intros H; inversion H; subst. exists v, rest.
  split; [reflexivity|]. split; [reflexivity|]. split; reflexivity.
Qed.

Lemma lift_inv {X} (f : X -> tokv) r v rest : lift f r = inl (v, rest) ->
  exists x, r = inl (x, rest) /\ v = f x.
Proof. unfold lift. destruct r as [[x r']|e]; [|discriminate]. intros H; inversion H; subst. eauto. Qed.

(* payload size of a token *)
Definition tok_size (t : token) : nat :=
  match tv t with Str s | Byt s => length s | _ => 1%nat end.

(* what a sub-step that accepts a value after its first byte consumed, requested
   and pushed *)
Definition accept_ok (s : dec_state) (t : token) (s' : dec_state) (a : Z) : Prop :=
  len (dinp s') <= len (dinp s) /\
  a <= 16 * (1 + len (dinp s) - len (dinp s')) /\
  (length (dleft s') <= length (dleft s) + 1)%nat /\
  Z.of_nat (tok_size t) <= 1 + len (dinp s) - len (dinp s').

Lemma accept_untagged_ok c mb tg s t d s' a :
  accept_untagged c mb tg s = SubTok t d s' a -> accept_ok s t s' a.
Proof.
  unfold accept_untagged, accept_ok.
  repeat match goal with
  | |- (if ?c then _ else _) = _ -> _ => destruct c
  end;
  try discriminate;
  try (intros H; apply scalar_inv in H; destruct H as (v & rest & Hr & -> & -> & ->);
       first
         [ inversion Hr; subst; cbn [dinp dleft with_inp tok_size tv]; lia
         | apply lift_inv in Hr; destruct Hr as (x & Hr & ->);
           first [ apply dec_float_len in Hr | apply dec_uint_len in Hr | apply dec_negint_len in Hr ];
           cbn [dinp dleft with_inp tok_size tv]; lia ]);
  try (intros H; inversion H; subst; cbn [dinp dleft dec_push]; cbn [tok_size tv]; lia).
  - destruct (dec_indef_string majBytes (dinp s)) as [r a0] eqn:E.
    intros H; apply scalar_inv in H; destruct H as (v & rest & Hr & -> & -> & ->).
    apply lift_inv in Hr; destruct Hr as (x & -> & ->). apply dec_indef_ok in E.
    cbn [dinp dleft with_inp tok_size tv]. lia.
  - destruct (dec_indef_string majString (dinp s)) as [r a0] eqn:E.
    intros H; apply scalar_inv in H; destruct H as (v & rest & Hr & -> & -> & ->).
    apply lift_inv in Hr; destruct Hr as (x & -> & ->). apply dec_indef_ok in E.
    cbn [dinp dleft with_inp tok_size tv]. lia.
  - destruct (dec_bytes mb (dinp s)) as [r a0] eqn:E.
    intros H; apply scalar_inv in H; destruct H as (v & rest & Hr & -> & -> & ->).
    apply lift_inv in Hr; destruct Hr as (x & -> & ->). apply dec_bytes_ok in E.
    cbn [dinp dleft with_inp tok_size tv]. lia.
  - destruct (dec_bytes mb (dinp s)) as [r a0] eqn:E.
    intros H; apply scalar_inv in H; destruct H as (v & rest & Hr & -> & -> & ->).
    apply lift_inv in Hr; destruct Hr as (x & -> & ->). apply dec_bytes_ok in E.
    cbn [dinp dleft with_inp tok_size tv]. lia.
  - destruct (dec_len mb (dinp s)) as [[n rest]|e] eqn:E; [|discriminate].
    intros H; inversion H; subst. apply dec_len_len in E.
    cbn [dinp dleft dec_push tok_size tv length]. lia.
  - destruct (dec_len mb (dinp s)) as [[n rest]|e] eqn:E; [|discriminate].
    intros H; inversion H; subst. apply dec_len_len in E.
    cbn [dinp dleft dec_push tok_size tv length]. lia.
Qed.

Lemma accept_value_ok c mb s t d s' a :
  accept_value c mb s = SubTok t d s' a -> accept_ok s t s' a.
Proof.
  unfold accept_value. destruct ((majTag <=? mb) && (mb <? majSimple)).
  - destruct (dec_len mb (dinp s)) as [[tg rest]|e] eqn:E; [|discriminate].
    apply dec_len_len in E.
    destruct rest as [|mb2 rest2]; cbn [readn1]; [discriminate|].
    destruct ((majTag <=? mb2) && (mb2 <? majSimple)); [discriminate|].
    intros H. apply accept_untagged_ok in H. unfold accept_ok in *.
    cbn [with_inp dinp dleft length] in *. lia.
  - apply accept_untagged_ok.
Qed.

Definition step_ok (s : dec_state) (t : token) (s' : dec_state) (a : Z) : Prop :=
  exists k : Z, 0 <= k /\ len (dinp s) = len (dinp s') + k /\ a <= 16 * k /\
    len (dleft s') + 1 <= len (dleft s) + 2 * k /\
    Z.of_nat (tok_size t) + len (dleft s') <= len (dleft s) + 2 * k.

Lemma accept_step_ok s s1 mb r t s' a :
  accept_ok s1 t s' a -> dinp s = mb :: r -> dinp s1 = r -> length (dleft s1) = length (dleft s) ->
  step_ok s t s' a.
Proof.
  unfold accept_ok, step_ok. intros (H1 & H2 & H3 & H4) Hs Hs1 Hl.
  exists (1 + len r - len (dinp s')). rewrite Hs, Hs1 in *. cbn [length]. lia.
Qed.

Lemma not_done_inv r t d s a : not_done r = SubTok t d s a -> exists d0, r = SubTok t d0 s a.
Proof. destruct r; cbn; intros H; inversion H; subst; eauto. Qed.

Lemma sub_step_ok c s t d s' a : sub_step c s = SubTok t d s' a -> step_ok s t s' a.
Proof.
  unfold sub_step.
  destruct (dph s).
  - destruct (dinp s) as [|mb r] eqn:Ei; cbn [readn1]; [discriminate|].
    intros H. apply accept_value_ok in H.
    eapply accept_step_ok; [exact H | exact Ei | reflexivity | reflexivity].
  - destruct (dinp s) as [|mb r] eqn:Ei; cbn [readn1]; [discriminate|].
    destruct (mb =? sigBreak).
    + intros H; inversion H; subst. exists 1. rewrite Ei. cbn [with_inp dinp dleft tok_size tv length]. lia.
    + intros H. apply not_done_inv in H. destruct H as [d0 H]. apply accept_value_ok in H.
      eapply accept_step_ok; [exact H | exact Ei | reflexivity | reflexivity].
  - destruct (dinp s) as [|mb r] eqn:Ei; cbn [readn1]; [discriminate|].
    destruct (mb =? sigBreak).
    + intros H; inversion H; subst. exists 1. rewrite Ei. cbn [with_inp dinp dleft tok_size tv length]. lia.
    + intros H. apply not_done_inv in H. destruct H as [d0 H]. apply accept_value_ok in H.
      eapply accept_step_ok; [exact H | exact Ei | reflexivity | reflexivity].
  - destruct (dinp s) as [|mb r] eqn:Ei; cbn [readn1]; [discriminate|].
    destruct (mb =? sigBreak); [discriminate|].
    intros H. apply not_done_inv in H. destruct H as [d0 H]. apply accept_value_ok in H.
    eapply accept_step_ok; [exact H | exact Ei | reflexivity | reflexivity].
  - destruct (dleft s) as [|l ls] eqn:El; [discriminate|].
    destruct (l =? 0).
    + intros H; inversion H; subst. exists 0. rewrite El. cbn [dinp dleft tok_size tv length]. lia.
    + destruct (dinp s) as [|mb r] eqn:Ei; cbn [readn1]; [discriminate|].
      intros H. apply not_done_inv in H. destruct H as [d0 H]. apply accept_value_ok in H.
      eapply accept_step_ok; [exact H | exact Ei | reflexivity | rewrite El; reflexivity].
  - destruct (dleft s) as [|l ls] eqn:El; [discriminate|].
    destruct (l =? 0).
    + intros H; inversion H; subst. exists 0. rewrite El. cbn [dinp dleft tok_size tv length]. lia.
    + destruct (dinp s) as [|mb r] eqn:Ei; cbn [readn1]; [discriminate|].
      intros H. apply not_done_inv in H. destruct H as [d0 H]. apply accept_value_ok in H.
      eapply accept_step_ok; [exact H | exact Ei | reflexivity | rewrite El; reflexivity].
  - destruct (dinp s) as [|mb r] eqn:Ei; cbn [readn1]; [discriminate|].
    intros H. apply not_done_inv in H. destruct H as [d0 H]. apply accept_value_ok in H.
    eapply accept_step_ok; [exact H | exact Ei | reflexivity | reflexivity].
Qed.

Lemma dec_step_ok c s t d s' a : dec_step c s = DTok t d s' a -> step_ok s t s' a.
Proof.
  unfold dec_step. destruct (sub_step c s) as [t0 d0 s0 a0|e s0|] eqn:E; try discriminate.
  apply sub_step_ok in E.
  destruct d0.
  - destruct (dstack s0) as [|p [|q stk]]; intros H; inversion H; subst; exact E.
  - intros H; inversion H; subst; exact E.
Qed.

(* ---------- the loop ------------------------------------------------------ *)

Fixpoint sum_size (ts : list token) : nat :=
  match ts with [] => O | t :: r => (tok_size t + sum_size r)%nat end.

Lemma sum_size_app a b : sum_size (a ++ b) = (sum_size a + sum_size b)%nat.
Proof. induction a as [|x a IH]; cbn [sum_size app]; lia. Qed.

Lemma sum_size_rev a : sum_size (rev a) = sum_size a.
Proof. induction a as [|x a IH]; [reflexivity|]. cbn [rev]. rewrite sum_size_app, IH. cbn [sum_size]. lia. Qed.

Definition run_ok (B : Z) (r : drun_res) : Prop :=
  match r with
  | DOk toks rest a =>
      a + 16 * len rest <= 16 * B /\ len toks + 2 * len rest <= 2 * B /\
      Z.of_nat (sum_size toks) + 2 * len rest <= 2 * B
  | DFail _ toks a =>
      a <= 16 * B /\ len toks <= 2 * B /\ Z.of_nat (sum_size toks) <= 2 * B
  | _ => True
  end.

Lemma dec_loop_ok B c fuel : forall s acc alloc,
  alloc + 16 * len (dinp s) <= 16 * B ->
  len acc + len (dleft s) + 2 * len (dinp s) <= 2 * B ->
  Z.of_nat (sum_size acc) + len (dleft s) + 2 * len (dinp s) <= 2 * B ->
  run_ok B (dec_loop fuel c s acc alloc).
Proof.
  induction fuel as [|f IH]; intros s acc alloc H1 H2 H3; cbn [dec_loop]; [exact I|].
  destruct (dec_step c s) as [t d s' a|e s'|] eqn:E; [| |exact I].
  - apply dec_step_ok in E. destruct E as (k & Hk & Hi & Ha & Hd & Hs).
    destruct d.
    + cbn [run_ok]. rewrite sum_size_rev, rev_length. cbn [sum_size length]. lia.
    + apply IH; cbn [sum_size length]; lia.
  - cbn [run_ok]. rewrite sum_size_rev, rev_length. lia.
Qed.

(* The heap account is linear in the input, with no constant term at all: every
   request the model records is covered by bytes actually consumed (16 per byte:
   a one-byte array head charges 16).  NOTE the model drops the request of the
   failing step (scalar ... (inr e) => SubErr); the lemmas dec_bytes_request_bound
   and dec_indef_request_bound bound that dropped request by
   item_cap (+ 12 * input + 64). *)
Theorem dec_alloc_bound : forall coerce bs,
  match dec_run coerce bs with
  | DOk toks rest a => a <= 16 * (len bs - len rest)
  | DFail e toks a => a <= 16 * len bs
  | _ => True
  end.
Proof.
  intros c bs. unfold dec_run.
  pose proof (dec_loop_ok (len bs) c (2 * length bs + 2) (dec_init bs) [] 0) as H.
  cbn [dec_init dinp dleft length sum_size] in H.
  destruct (dec_loop _ c _ [] 0); cbn [run_ok] in H; try exact I; lia.
Qed.

(* the bound in the shape requested *)
Corollary dec_alloc_bound_cap : forall coerce bs,
  match dec_run coerce bs with
  | DOk toks rest a => a <= 2 * item_cap + 16 * len bs
  | DFail e toks a => a <= 2 * item_cap + 16 * len bs
  | _ => True
  end.
Proof.
  intros c bs. pose proof (dec_alloc_bound c bs) as H.
  destruct (dec_run c bs); try exact I; unfold item_cap; lia.
Qed.

(* [length toks <= length bs] is false: a one-byte empty array gives two tokens *)
Example dec_tokens_le_bytes_refuted :
  dec_run false [128] = DOk [Tok (ArrOpen 0) None; Tok ArrClose None] [] 16.
Proof. vm_compute. reflexivity. Qed.

(* the exact inequality: two tokens per byte consumed *)
Theorem dec_tokens_linear : forall coerce bs,
  match dec_run coerce bs with
  | DOk toks rest a => (length toks <= 2 * (length bs - length rest))%nat
  | DFail e toks a => (length toks <= 2 * length bs)%nat
  | _ => True
  end.
Proof.
  intros c bs. unfold dec_run.
  pose proof (dec_loop_ok (len bs) c (2 * length bs + 2) (dec_init bs) [] 0) as H.
  cbn [dec_init dinp dleft length sum_size] in H.
  destruct (dec_loop _ c _ [] 0); cbn [run_ok] in H; try exact I; lia.
Qed.

(* no amplification: payload bytes (1 for a token without payload) *)
Theorem dec_payload_linear : forall coerce bs,
  match dec_run coerce bs with
  | DOk toks rest a => (sum_size toks <= 2 * (length bs - length rest))%nat
  | DFail e toks a => (sum_size toks <= 2 * length bs)%nat
  | _ => True
  end.
Proof.
  intros c bs. unfold dec_run.
  pose proof (dec_loop_ok (len bs) c (2 * length bs + 2) (dec_init bs) [] 0) as H.
  cbn [dec_init dinp dleft length sum_size] in H.
  destruct (dec_loop _ c _ [] 0); cbn [run_ok] in H; try exact I; lia.
Qed.

Print Assumptions dec_alloc_bound.
Print Assumptions dec_alloc_bound_cap.
Print Assumptions dec_tokens_linear.
Print Assumptions dec_payload_linear.
Print Assumptions dec_bytes_request_bound.
Print Assumptions dec_indef_request_bound.

(* ---------- examples ------------------------------------------------------- *)

(* an array head declaring 2^64-1 elements, then nothing: rejected, nothing requested *)
Example ex_huge_array_header : dec_run false (155 :: repeat 255 8) = DFail EMalformed [] 0.
Proof. vm_compute. reflexivity. Qed.

(* an indefinite byte string of n one-byte chunks *)
Definition one_byte_chunks (n : nat) : bytes :=
  95 :: flat_map (fun _ => [65; 120]) (seq 0 n) ++ [255].

Example ex_many_chunks_100 :
  length (one_byte_chunks 100) = 202%nat /\
  dec_run false (one_byte_chunks 100) = DOk [Tok (Byt (repeat 120 100)) None] [] 251.
Proof. vm_compute. split; reflexivity. Qed.

Example ex_many_chunks_1000 :
  match dec_run false (one_byte_chunks 1000) with
  | DOk [Tok (Byt s) None] [] a => length s = 1000%nat /\ a = 2152
  | _ => False
  end.
Proof. vm_compute. split; reflexivity. Qed.

(* a byte string declaring item_cap + 1 bytes: rejected before allocating *)
Example ex_over_cap : dec_run false [90; 2; 0; 0; 1] = DFail EMalformed [] 0.
Proof. vm_compute. reflexivity. Qed.

(* a byte string declaring exactly item_cap bytes that never arrive: the step
   requests item_cap bytes and then fails; the model's account drops that request *)
Example ex_at_cap_truncated :
  dec_run false [90; 2; 0; 0; 0] = DFail EEof [] 0 /\ snd (dec_bytes 90 [2; 0; 0; 0]) = item_cap.
Proof. vm_compute. split; reflexivity. Qed.

(* the same inside an indefinite string: item_cap + 3 * 16 requested, dropped *)
Example ex_at_cap_chunk_truncated :
  dec_run false [95; 90; 2; 0; 0; 0] = DFail EEof [] 0 /\
  snd (dec_indef_string majBytes [90; 2; 0; 0; 0]) = item_cap + 48.
Proof. vm_compute. split; reflexivity. Qed.

(* ====================================================================== *)
(* 2. JSON: tokens and payloads                                            *)
(* ====================================================================== *)

Lemma skip_ws_len bs : (length (skip_ws bs) <= length bs)%nat.
Proof.
  induction bs as [|b r IH]; cbn [skip_ws]; [lia|].
  destruct (is_ws b); cbn [length]; lia.
Qed.

Lemma str_scan_len : forall bs st acc raw rest, str_scan st bs acc = inl (raw, rest) ->
  (length raw + 1 + length rest = length acc + length bs)%nat.
Proof.
  induction bs as [|c r IH]; intros st acc raw rest; cbn [str_scan]; [discriminate|].
  destruct st;
    repeat match goal with
    | |- (if ?c then _ else _) = _ -> _ => destruct c
    end;
    try discriminate;
    try (intros H; apply IH in H; cbn [length] in *; lia).
  intros H; inversion H; subst. rewrite rev_length. cbn [length]. lia.
Qed.

Lemma getu4_len s : 0 <= getu4 s -> (6 <= length s)%nat.
Proof.
  unfold getu4.
  destruct s as [|a [|b [|c [|d [|e [|f r]]]]]]; try lia;
    repeat match goal with |- context [match ?x with _ => _ end] => destruct x; try lia end;
    cbn [length]; lia.
Qed.

Lemma encode_rune_len r : (length (encode_rune r) <= 4)%nat.
Proof.
  unfold encode_rune.
  repeat match goal with |- context [if ?c then _ else _] => destruct c end; cbn [length]; lia.
Qed.

Lemma encode_rune_error : encode_rune rune_error = [239; 191; 189].
Proof. reflexivity. Qed.

Lemma decode_rune_hi b0 r0 c n : 128 <= b0 -> decode_rune (b0 :: r0) = (c, n) ->
  (c = rune_error /\ n = 1) \/ 2 <= n <= len (b0 :: r0).
Proof.
  intros Hb D. destruct (decode_rune_inv b0 r0 c n Hb D) as [H | (p & X & Hp & Hw & ->)]; [left; exact H|].
  right. apply wf_seq_len in Hw. rewrite Hp, app_length. lia.
Qed.

Lemma unescape_len : forall f s out, unescape f s = Some out -> (length out <= 3 * length s)%nat.
Proof.
  induction f as [|f IH]; intros s out; cbn [unescape].
  - intros H; inversion H; subst. cbn [length]. lia.
  - destruct s as [|c r]; [intros H; inversion H; subst; cbn [length]; lia|].
    destruct (c =? 92) eqn:Ec.
    + destruct r as [|e r2]; [discriminate|].
      pose proof (getu4_len (c :: e :: r2)) as Hg.
      remember (c :: e :: r2) as s eqn:Es.
      assert (Hl : (length s = 2 + length r2)%nat) by (subst s; reflexivity).
      repeat match goal with
      | |- (if ?c then _ else _) = _ -> _ => destruct c eqn:?
      end; try discriminate;
      match goal with
      | |- match unescape f ?X with _ => _ end = _ -> _ =>
          destruct (unescape f X) as [t|] eqn:E; [|discriminate];
          intros H; inversion H; subst out; apply IH in E
      end;
      repeat match goal with
      | |- context [encode_rune ?x] =>
          let Hn := fresh "Hn" in pose proof (encode_rune_len x) as Hn; 
          generalize dependent (encode_rune x); intros
      end;
      rewrite ?app_length; rewrite ?skipn_length in *; cbn [length] in *; lia.
    + destruct ((c =? 34) || (c <? 32)); [discriminate|].
      destruct (c <? 128) eqn:E128.
      * destruct (unescape f r) as [t|] eqn:E; [|discriminate].
        intros H; inversion H; subst. apply IH in E. cbn [length]. lia.
      * destruct (decode_rune (c :: r)) as [rr size] eqn:D.
        pose proof (decode_rune_hi c r rr size ltac:(lia) D) as Hd.
        destruct (unescape f (skipn (Z.to_nat size) (c :: r))) as [t|] eqn:E; [|discriminate].
        intros H; inversion H; subst. apply IH in E. rewrite skipn_length in E.
        rewrite app_length. pose proof (encode_rune_len rr) as Hn.
        destruct Hd as [[-> ->]|Hd].
        -- rewrite encode_rune_error. cbn [length] in *. lia.
        -- cbn [length] in *. lia.
Qed.

Lemma dec_string_len bs s rest : dec_string bs = inl (s, rest) ->
  (length s + 3 + 3 * length rest <= 3 * length bs)%nat.
Proof.
  unfold dec_string. destruct (str_scan SNormal bs []) as [[raw r]|e] eqn:E; [|discriminate].
  apply str_scan_len in E. cbn [length] in E.
  destruct (unescape (S (length raw)) raw) as [u|] eqn:U.
  - intros H; inversion H; subst. apply unescape_len in U. lia.
  - intros H; inversion H; subst. cbn [length]. lia.
Qed.

Lemma num_scan_len : forall bs s acc more rest, num_scan s bs acc = inl (more, rest) ->
  (length rest <= length bs)%nat.
Proof.
  induction bs as [|c r IH]; intros s acc more rest; cbn [num_scan].
  - destruct (n_accepting s); intros H; inversion H; subst. lia.
  - destruct (num_step s c) as [[s'|] ok].
    + intros H. apply IH in H. cbn [length]. lia.
    + destruct ok; intros H; inversion H; subst. lia.
Qed.

Lemma dec_number_len first bs v rest : dec_number first bs = inl (v, rest) ->
  (length rest <= length bs)%nat /\ tok_size (Tok v None) = 1%nat.
Proof.
  unfold dec_number.
  destruct (num_scan _ bs []) as [[more r]|e] eqn:E; [|discriminate].
  destruct (num_token (first :: more)) as [v0|e] eqn:T; [|discriminate].
  intros H; inversion H; subst. split; [eapply num_scan_len; eauto|].
  apply num_token_isnum in T. destruct v; try discriminate; reflexivity.
Qed.

Lemma dec_literal_len word bs rest : dec_literal word bs = inl rest -> (length rest <= length bs)%nat.
Proof.
  unfold dec_literal. destruct (readn _ bs) as [[got r]|e] eqn:E; [|discriminate].
  destruct (forallb _ _); [|discriminate]. intros H; inversion H; subst.
  apply readn_len in E. destruct E as [-> _]. rewrite app_length. lia.
Qed.

Lemma jaccept_ok mb s bs t d s' : jaccept_value mb s bs = JSubTok t d s' ->
  (length (jdinp s') <= length bs)%nat /\
  (tok_size t + 3 * length (jdinp s') <= 3 + 3 * length bs)%nat.
Proof.
  unfold jaccept_value.
  repeat match goal with
  | |- (if ?c then _ else _) = _ -> _ => destruct c
  end; try discriminate;
  try (intros H; inversion H; subst; cbn [jpush_frame jdinp tok_size tv]; lia);
  try (match goal with |- match dec_literal ?w ?b with _ => _ end = _ -> _ =>
         destruct (dec_literal w b) as [r|e] eqn:E; [|discriminate] end;
       apply dec_literal_len in E; intros H; inversion H; subst;
       cbn [set_inp jdinp tok_size tv]; lia).
  - destruct (dec_string bs) as [[str r]|e] eqn:E; [|discriminate].
    apply dec_string_len in E. intros H; inversion H; subst.
    cbn [set_inp jdinp tok_size tv]. lia.
  - destruct (dec_number mb bs) as [[v r]|e] eqn:E; [|discriminate].
    apply dec_number_len in E. destruct E as [E1 E2]. intros H; inversion H; subst.
    cbn [set_inp jdinp]. lia.
Qed.

Definition jstep_ok (s : jdec_state) (t : token) (s' : jdec_state) : Prop :=
  (length (jdinp s') + 1 <= length (jdinp s))%nat /\
  (tok_size t + 3 * length (jdinp s') <= 3 * length (jdinp s))%nat.

Lemma jnot_done_inv r t d s : jnot_done r = JSubTok t d s -> exists d0, r = JSubTok t d0 s.
Proof. destruct r; cbn; intros H; inversion H; subst; eauto. Qed.

Lemma skip_ws_cons_len bs mb r : skip_ws bs = mb :: r -> (length r + 1 <= length bs)%nat.
Proof. intros H. pose proof (skip_ws_len bs) as L. rewrite H in L. cbn [length] in L. lia. Qed.

Lemma jsub_step_ok s t d s' : jsub_step s = JSubTok t d s' -> jstep_ok s t s'.
Proof.
  unfold jsub_step, jstep_ok.
  destruct (skip_ws (jdinp s)) as [|mb r] eqn:W; [discriminate|].
  apply skip_ws_cons_len in W.
  destruct (jk (jdframe s)).
  - intros H. apply jaccept_ok in H. lia.
  - assert (Hcont : forall mb2 r2, (length r2 + 1 <= length (jdinp s))%nat ->
        (if mb2 =? 93 then JSubTok (Tok ArrClose None) true (set_inp s r2)
         else jnot_done (jaccept_value mb2 (with_frame s (JFrame KArr true)) r2)) = JSubTok t d s' ->
        (length (jdinp s') + 1 <= length (jdinp s))%nat /\
        (tok_size t + 3 * length (jdinp s') <= 3 * length (jdinp s))%nat).
    { intros mb2 r2 L. destruct (mb2 =? 93).
      - intros H; inversion H; subst. cbn [set_inp jdinp tok_size tv]. lia.
      - intros H. apply jnot_done_inv in H. destruct H as [d0 H]. apply jaccept_ok in H. lia. }
    destruct (jfsome (jdframe s)).
    + destruct (mb =? 93).
      { intros H; inversion H; subst. cbn [set_inp jdinp tok_size tv]. lia. }
      destruct (mb =? 44); [|discriminate].
      destruct (skip_ws r) as [|mb2 r2] eqn:W2; [discriminate|].
      apply skip_ws_cons_len in W2. apply Hcont. lia.
    + apply Hcont. lia.
  - assert (Hkey : forall mb2 r2, (length r2 + 1 <= length (jdinp s))%nat ->
        (if mb2 =? 125 then JSubTok (Tok MapClose None) true (set_inp s r2)
         else if mb2 =? 34 then
           match dec_string r2 with
           | inr e => JSubErr e
           | inl (str, r3) =>
               match skip_ws r3 with
               | [] => JSubErr EEof
               | c :: r4 =>
                   if c =? 58 then JSubTok (Tok (Str str) None) false (JDecSt (JFrame KMapVal false) (jdstack s) r4)
                   else JSubErr EMalformed
               end
           end
         else JSubErr EMalformed) = JSubTok t d s' ->
        (length (jdinp s') + 1 <= length (jdinp s))%nat /\
        (tok_size t + 3 * length (jdinp s') <= 3 * length (jdinp s))%nat).
    { intros mb2 r2 L. destruct (mb2 =? 125).
      - intros H; inversion H; subst. cbn [set_inp jdinp tok_size tv]. lia.
      - destruct (mb2 =? 34); [|discriminate].
        destruct (dec_string r2) as [[str r3]|e] eqn:E; [|discriminate].
        apply dec_string_len in E.
        destruct (skip_ws r3) as [|c r4] eqn:W3; [discriminate|].
        apply skip_ws_cons_len in W3.
        destruct (c =? 58); [|discriminate].
        intros H; inversion H; subst. cbn [jdinp tok_size tv]. lia. }
    destruct (jfsome (jdframe s)).
    + destruct (mb =? 125).
      { intros H; inversion H; subst. cbn [set_inp jdinp tok_size tv]. lia. }
      destruct (mb =? 44); [|discriminate].
      destruct (skip_ws r) as [|mb2 r2] eqn:W2; [discriminate|].
      apply skip_ws_cons_len in W2. apply Hkey. lia.
    + apply Hkey. lia.
  - intros H. apply jnot_done_inv in H. destruct H as [d0 H]. apply jaccept_ok in H. lia.
Qed.

Lemma jdec_step_ok s t d s' : jdec_step s = JDTok t d s' -> jstep_ok s t s'.
Proof.
  unfold jdec_step. destruct (jsub_step s) as [t0 d0 s0|e] eqn:E; [|discriminate].
  apply jsub_step_ok in E.
  destruct d0.
  - destruct (jdstack s0) as [|p [|q stk]]; intros H; inversion H; subst; exact E.
  - intros H; inversion H; subst; exact E.
Qed.

Definition jrun_ok (B : nat) (r : jdrun_res) : Prop :=
  match r with
  | JDOk toks rest =>
      (length toks + length rest <= B)%nat /\ (sum_size toks + 3 * length rest <= 3 * B)%nat
  | JDFail _ toks => (length toks <= B)%nat /\ (sum_size toks <= 3 * B)%nat
  | _ => True
  end.

Lemma jdec_loop_ok B fuel : forall s acc,
  (length acc + length (jdinp s) <= B)%nat ->
  (sum_size acc + 3 * length (jdinp s) <= 3 * B)%nat ->
  jrun_ok B (jdec_loop fuel s acc).
Proof.
  induction fuel as [|f IH]; intros s acc H1 H2; cbn [jdec_loop]; [exact I|].
  destruct (jdec_step s) as [t d s'|e] eqn:E.
  - apply jdec_step_ok in E. destruct E as [E1 E2].
    destruct d.
    + cbn [jrun_ok]. rewrite sum_size_rev, rev_length. cbn [sum_size length]. lia.
    + apply IH; cbn [sum_size length]; lia.
  - cbn [jrun_ok]. rewrite sum_size_rev, rev_length. lia.
Qed.

(* every token consumes at least one byte *)
Theorem jdec_tokens_linear : forall bs,
  match jdec_run bs with
  | JDOk toks rest => (length toks <= length bs - length rest)%nat
  | JDFail e toks => (length toks <= length bs)%nat
  | _ => True
  end.
Proof.
  intros bs. unfold jdec_run.
  pose proof (jdec_loop_ok (length bs) (length bs + 2) (jdec_init bs) []) as H.
  cbn [jdec_init jdinp length sum_size] in H. specialize (H ltac:(lia) ltac:(lia)).
  destruct (jdec_loop _ _ []); cbn [jrun_ok] in H; try exact I; lia.
Qed.

(* no amplification beyond the factor 3 of the U+FFFD replacement: one invalid
   byte inside a string becomes EF BF BD *)
Theorem jdec_payload_linear : forall bs,
  match jdec_run bs with
  | JDOk toks rest => (sum_size toks <= 3 * (length bs - length rest))%nat
  | JDFail e toks => (sum_size toks <= 3 * length bs)%nat
  | _ => True
  end.
Proof.
  intros bs. unfold jdec_run.
  pose proof (jdec_loop_ok (length bs) (length bs + 2) (jdec_init bs) []) as H.
  cbn [jdec_init jdinp length sum_size] in H. specialize (H ltac:(lia) ltac:(lia)).
  destruct (jdec_loop _ _ []); cbn [jrun_ok] in H; try exact I; lia.
Qed.

Lemma sum_size_in t ts : In t ts -> (tok_size t <= sum_size ts)%nat.
Proof.
  induction ts as [|x r IH]; [contradiction|]. intros [->|H]; cbn [sum_size]; [lia|].
  specialize (IH H). lia.
Qed.

(* in particular every single payload *)
Corollary jdec_each_payload : forall bs t,
  match jdec_run bs with
  | JDOk toks _ | JDFail _ toks => In t toks -> (tok_size t <= 3 * length bs)%nat
  | _ => True
  end.
Proof.
  intros bs t. pose proof (jdec_payload_linear bs) as H.
  destruct (jdec_run bs); try exact I; intros Hin; apply sum_size_in in Hin; lia.
Qed.

(* the factor 3 is reached: n invalid bytes in a string of n + 2 input bytes *)
Example jdec_factor3 :
  jdec_run (34 :: repeat 255 10 ++ [34]) =
  JDOk [Tok (Str (flat_map (fun _ => [239; 191; 189]) (seq 0 10))) None] [].
Proof. vm_compute. reflexivity. Qed.

Print Assumptions jdec_tokens_linear.
Print Assumptions jdec_payload_linear.
Print Assumptions jdec_each_payload.


(* ====================================================================== *)
(* 3. The unmarshaller: fuel                                               *)
(* ====================================================================== *)

Definition ule (r r' : ures) : Prop := r <> UFuel -> r' = r.

Lemma ule_refl r : ule r r.
Proof. intros _. reflexivity. Qed.

Lemma ule_fuel r : ule UFuel r.
Proof. intros H. exfalso. apply H. reflexivity. Qed.

Lemma ule_ubind r r' k k' :
  ule r r' -> (forall v rest, ule (k v rest) (k' v rest)) -> ule (ubind r k) (ubind r' k').
Proof.
  intros H Hk. destruct r as [v rest|e| |].
  - rewrite (H ltac:(discriminate)). cbn [ubind]. apply Hk.
  - rewrite (H ltac:(discriminate)). apply ule_refl.
  - rewrite (H ltac:(discriminate)). apply ule_refl.
  - apply ule_fuel.
Qed.

Section UMono.
  Variable E : tenv.
  Variable A : atlas.

  Definition mono_all (f : nat) : Prop :=
    (forall t cur ts, ule (unmarshal E A f t cur ts) (unmarshal E A (S f) t cur ts)) /\
    (forall t cur ts, ule (unmarshal_bare E A f t cur ts) (unmarshal_bare E A (S f) t cur ts)) /\
    (forall t cur ts, ule (unmarshal_kind E A f t cur ts) (unmarshal_kind E A (S f) t cur ts)) /\
    (forall ts, ule (unmarshal_any E A f ts) (unmarshal_any E A (S f) ts)) /\
    (forall et acc ts, ule (unmarshal_slice E A f et acc ts) (unmarshal_slice E A (S f) et acc ts)) /\
    (forall n et acc ts, ule (unmarshal_array E A f n et acc ts) (unmarshal_array E A (S f) n et acc ts)) /\
    (forall kt vt cur ts, ule (unmarshal_map E A f kt vt cur ts) (unmarshal_map E A (S f) kt vt cur ts)) /\
    (forall d vt es ts, ule (unmarshal_map_entries E A f d vt es ts)
                            (unmarshal_map_entries E A (S f) d vt es ts)) /\
    (forall e cur ts, ule (unmarshal_entry E A f e cur ts) (unmarshal_entry E A (S f) e cur ts)) /\
    (forall st fs len cur cnt ts, ule (unmarshal_fields E A f st fs len cur cnt ts)
                                      (unmarshal_fields E A (S f) st fs len cur cnt ts)).

  Lemma mono_zero : mono_all 0.
  Proof. repeat split; intros; apply ule_fuel. Qed.

  Lemma mono_step f : mono_all f -> mono_all (S f).
  Proof.
    intros (Hu & Hb & Hk & Ha & Hs & Har & Hm & Hme & He & Hf).
    repeat split.
    - intros t cur ts. rewrite !unmarshal_S. destruct (peel t) as [n base].
      destruct n as [|n]; [apply Hb|].
      destruct ts as [|[v tg] r]; [apply ule_refl|].
      destruct v; try apply ule_refl;
        (apply ule_ubind; [apply Hb | intros; apply ule_refl]).
    - intros t cur ts. rewrite !unmarshal_bare_S.
      destruct (is_unnamed_prim t); [apply ule_refl|].
      destruct (atlas_get A t); [apply He | apply Hk].
    - intros t cur ts. rewrite !unmarshal_kind_S.
      destruct t; try apply ule_refl; try apply Hm; try apply Ha.
      + destruct ts as [|[v tg] r]; [apply ule_refl|].
        destruct v; try apply ule_refl. apply Hs.
      + destruct ts as [|[v tg] r]; [apply ule_refl|].
        destruct v; try apply ule_refl. apply Har.
    - intros ts. rewrite !unmarshal_any_S.
      destruct ts as [|[v [tg|]] r]; [apply ule_refl| |].
      + destruct (atlas_by_tag A tg); [|apply ule_refl]. cbv zeta.
        apply ule_ubind; [apply Hb | intros; apply ule_refl].
      + destruct v; try apply ule_refl.
        * apply ule_ubind; [apply Hm | intros; apply ule_refl].
        * apply ule_ubind; [apply Hs | intros; apply ule_refl].
    - intros et acc ts. rewrite !unmarshal_slice_S.
      destruct ts as [|[v tg] r]; [apply ule_refl|].
      destruct v; try apply ule_refl;
        (apply ule_ubind; [apply Hu | intros; apply Hs]).
    - intros n et acc ts. rewrite !unmarshal_array_S.
      destruct ts as [|[v tg] r]; [apply ule_refl|].
      destruct v; try apply ule_refl;
        (destruct (Nat.leb n (length acc)); [apply ule_refl|];
         apply ule_ubind; [apply Hu | intros; apply Har]).
    - intros kt vt cur ts. rewrite !unmarshal_map_S.
      destruct (key_destringer A kt) as [destr|]; [|apply ule_refl].
      destruct ts as [|[v tg] r]; [apply ule_refl|].
      destruct v; try apply ule_refl. cbv zeta. apply Hme.
    - intros d vt es ts. rewrite !unmarshal_map_entries_S.
      destruct ts as [|[v tg] r]; [apply ule_refl|].
      destruct v; try apply ule_refl.
      destruct (d s) as [kv|]; [|apply ule_refl].
      destruct (existsb _ es); [apply ule_refl|].
      apply ule_ubind; [apply Hu | intros; apply Hme].
    - intros e cur ts. rewrite !unmarshal_entry_S.
      destruct (ae_kind e) as [fields|kind wire|members|mode].
      + destruct ts as [|[v tg] r]; [apply ule_refl|].
        destruct v; try apply ule_refl. apply Hf.
      + apply ule_ubind; [apply Hb|]. intros w rest. apply ule_refl.
      + destruct ts as [|[v tg] r]; [apply ule_refl|].
        destruct v; try apply ule_refl.
        destruct ((len =? -1) || (len =? 1)); [|apply ule_refl].
        destruct r as [|[v2 tg2] r2]; [apply ule_refl|].
        destruct v2; try apply ule_refl.
        destruct (find _ members) as [[nm mt]|]; [|apply ule_refl].
        destruct (atlas_get A mt) as [me|]; [|apply ule_refl].
        apply ule_ubind; [apply He|]. intros mv r3. apply ule_refl.
      + destruct (strip_named (ae_type e)); try apply ule_refl. apply Hm.
    - intros st fs len cur cnt ts. rewrite !unmarshal_fields_S.
      destruct ts as [|[v tg] r]; [apply ule_refl|].
      destruct v; try apply ule_refl.
      destruct (find _ fs) as [fe|]; [|apply ule_refl].
      destruct (fe_ignore fe).
      * apply ule_ubind; [apply Ha | intros; apply Hf].
      * destruct r as [|t0 r0]; [apply ule_refl|].
        destruct (route_get E 50 st cur (fe_route fe)) as [fcur|]; [|apply ule_refl].
        apply ule_ubind; [apply Hu|]. intros fv r'.
        destruct (route_set E 50 st cur (fe_route fe) fv); [apply Hf | apply ule_refl].
  Qed.

  Lemma mono_all_holds f : mono_all f.
  Proof. induction f; [apply mono_zero | apply mono_step; assumption]. Qed.
End UMono.

Theorem unmarshal_fuel_mono : forall E A f f' t cur ts r,
  unmarshal E A f t cur ts = r -> r <> UFuel -> (f <= f')%nat -> unmarshal E A f' t cur ts = r.
Proof.
  intros E A f f' t cur ts r H Hr Hle. induction Hle as [|f' Hle IH]; [exact H|].
  destruct (mono_all_holds E A f') as (Hu & _).
  rewrite (Hu t cur ts); [exact IH | rewrite IH; exact Hr].
Qed.
Print Assumptions unmarshal_fuel_mono.


(* ---------- a linear fuel bound ------------------------------------------- *)

(* Calls that pass the token list on without consuming a token:
     unmarshal -> bare -> entry (transform) -> bare of the wire type -> ...,  and
     bare -> kind -> any (tagged token) -> bare of the tagged entry's type -> ...
   A transform entry hands the token on WITHOUT its own tag (untag_own), and an item
   carries one tag only: once the tag is gone, the untyped slot consumes the token.
   [chain_ok A n tg t]: the chain from [unmarshal_bare _ t] on a list whose first
   token carries tag [tg] ends within n visits of unmarshal_bare. *)
Definition strip_tag (own tg : option Z) : option Z :=
  match own, tg with
  | Some t, Some t' => if t =? t' then None else tg
  | _, _ => tg
  end.

Definition first_tag (ts : list token) : option Z :=
  match ts with Tok _ tg :: _ => tg | [] => None end.

Lemma first_tag_untag own ts : first_tag (untag_own own ts) = strip_tag own (first_tag ts).
Proof.
  destruct own as [t|]; [|reflexivity]. destruct ts as [|[v [t'|]] r]; try reflexivity.
  cbn. destruct (t =? t'); reflexivity.
Qed.

Definition is_any (t : gtype) : bool :=
  match t with GAny | GIface _ => true | _ => false end.

Fixpoint chain_ok (A : atlas) (n : nat) (tg : option Z) (t : gtype) : bool :=
  match n with
  | O => false
  | S m =>
    if is_unnamed_prim t then true
    else
      match atlas_get A t with
      | Some e => match ae_kind e with
                  | ETransform _ w => chain_ok A m (strip_tag (ae_tag e) tg) w
                  | _ => true
                  end
      | None =>
          if is_any (strip_named t) then
            match tg with
            | None => true
            | Some g => match atlas_by_tag A g with
                        | None => true
                        | Some e => chain_ok A m tg (ae_type e)
                        end
            end
          else true
      end
  end.

Definition any_ok (A : atlas) (m : nat) (tg : option Z) : bool :=
  match tg with
  | None => true
  | Some g => match atlas_by_tag A g with
              | None => true
              | Some e => chain_ok A m tg (ae_type e)
              end
  end.

Definition entry_ok (A : atlas) (m : nat) (tg : option Z) (e : atlas_entry) : bool :=
  match ae_kind e with ETransform _ w => chain_ok A m (strip_tag (ae_tag e) tg) w | _ => true end.

Lemma chain_ok_S A m tg t : chain_ok A (S m) tg t =
  if is_unnamed_prim t then true
  else match atlas_get A t with
       | Some e => entry_ok A m tg e
       | None => if is_any (strip_named t) then any_ok A m tg else true
       end.
Proof. reflexivity. Qed.

Definition atlas_tags (A : atlas) : list Z :=
  flat_map (fun e => match ae_tag e with Some g => [g] | None => [] end) (a_entries A).

(* the decidable hypothesis: for the tags the atlas knows (and for "no tag") the
   chains that start at an entry or at the untyped slot end within d visits *)
Definition cranked (A : atlas) (d : nat) : bool :=
  forallb (fun tg => forallb (entry_ok A d tg) (a_entries A) && any_ok A d tg)
          (None :: map Some (atlas_tags A)).

Lemma find_tag_none es g :
  ~ In g (flat_map (fun e => match ae_tag e with Some g => [g] | None => [] end) es) ->
  find_tag es g = None.
Proof.
  induction es as [|e r IH]; cbn [flat_map find_tag]; [reflexivity|].
  intros H. destruct (ae_tag e) as [t|].
  - destruct (t =? g) eqn:Eg.
    + exfalso. apply H. left. lia.
    + apply IH. intros Hin. apply H. right. exact Hin.
  - apply IH. exact H.
Qed.

Lemma In_atlas_tags A e g : In e (a_entries A) -> ae_tag e = Some g -> In g (atlas_tags A).
Proof.
  unfold atlas_tags. intros Hin Ht. apply in_flat_map. exists e. split; [exact Hin|].
  rewrite Ht. left. reflexivity.
Qed.

(* a tag the atlas does not know behaves like no tag: nothing strips it, and the
   untyped slot stops the chain (with an error) *)
Lemma chain_ok_unknown_tag A g : ~ In g (atlas_tags A) ->
  forall n t, chain_ok A n (Some g) t = chain_ok A n None t.
Proof.
  intros Hg. induction n as [|m IH]; intros t; [reflexivity|].
  rewrite !chain_ok_S. destruct (is_unnamed_prim t); [reflexivity|].
  destruct (atlas_get A t) as [e|] eqn:G.
  - unfold entry_ok. destruct (ae_kind e) as [fields|kind w|members|mode]; try reflexivity.
    assert (Es : strip_tag (ae_tag e) (Some g) = Some g).
    { destruct (ae_tag e) as [t0|] eqn:Et; [|reflexivity]. cbn.
      destruct (t0 =? g) eqn:Eg; [|reflexivity].
      exfalso. apply Hg. apply (In_atlas_tags A e); [eapply atlas_get_In; exact G|].
      rewrite Et. f_equal. lia. }
    rewrite Es. assert (En : strip_tag (ae_tag e) None = None) by (destruct (ae_tag e); reflexivity).
    rewrite En. apply IH.
  - destruct (is_any (strip_named t)); [|reflexivity].
    cbn [any_ok]. unfold atlas_by_tag. rewrite (find_tag_none _ _ Hg). reflexivity.
Qed.

Lemma entry_ok_unknown_tag A g : ~ In g (atlas_tags A) ->
  forall n e, In e (a_entries A) -> entry_ok A n (Some g) e = entry_ok A n None e.
Proof.
  intros Hg n e Hin. unfold entry_ok. destruct (ae_kind e) as [fields|kind w|members|mode]; try reflexivity.
  assert (Es : strip_tag (ae_tag e) (Some g) = Some g).
  { destruct (ae_tag e) as [t0|] eqn:Et; [|reflexivity]. cbn.
    destruct (t0 =? g) eqn:Eg; [|reflexivity].
    exfalso. apply Hg. apply (In_atlas_tags A e); [exact Hin|]. rewrite Et. f_equal. lia. }
  rewrite Es. replace (strip_tag (ae_tag e) None) with (@None Z) by (destruct (ae_tag e); reflexivity).
  apply chain_ok_unknown_tag. exact Hg.
Qed.

Lemma ubind_nofuel r k :
  r <> UFuel -> (forall v rest, r = UOk v rest -> k v rest <> UFuel) -> ubind r k <> UFuel.
Proof. intros H Hk. destruct r; cbn [ubind]; try discriminate; [apply Hk; reflexivity | exact H]. Qed.

Lemma mul_lt_step a r t : (r < t)%nat -> (a * r + a <= a * t)%nat.
Proof. nia. Qed.
Lemma mul_le_step a r t : (r <= t)%nat -> (a * r <= a * t)%nat.
Proof. nia. Qed.

Section UTotal.
  Variable E : tenv.
  Variable A : atlas.
  Variable d : nat.
  Hypothesis Hr : cranked A d = true.
  Variable al : nat.
  Hypothesis Hal : (3 * d + 6 <= al)%nat.

  Lemma cranked_known tg : In tg (None :: map Some (atlas_tags A)) ->
    (forall e, In e (a_entries A) -> entry_ok A d tg e = true) /\ any_ok A d tg = true.
  Proof.
    intros Hin. unfold cranked in Hr. rewrite forallb_forall in Hr. specialize (Hr _ Hin).
    apply andb_true_iff in Hr. destruct Hr as [H1 H2]. rewrite forallb_forall in H1. split; assumption.
  Qed.

  Lemma chain_ok_all tg t : chain_ok A (S d) tg t = true.
  Proof.
    assert (Hk : forall tg', In tg' (None :: map Some (atlas_tags A)) -> chain_ok A (S d) tg' t = true).
    { intros tg' Hin. destruct (cranked_known tg' Hin) as [He Ha]. rewrite chain_ok_S.
      destruct (is_unnamed_prim t); [reflexivity|].
      destruct (atlas_get A t) as [e|] eqn:G.
      - apply He. eapply atlas_get_In; exact G.
      - destruct (is_any (strip_named t)); [exact Ha | reflexivity]. }
    destruct tg as [g|]; [|apply Hk; left; reflexivity].
    destruct (in_dec Z.eq_dec g (atlas_tags A)) as [Hin|Hnin].
    - apply Hk. right. apply in_map. exact Hin.
    - rewrite (chain_ok_unknown_tag A g Hnin). apply Hk. left; reflexivity.
  Qed.

  Lemma entry_ok_d tg e : In e (a_entries A) -> entry_ok A d tg e = true.
  Proof.
    intros Hin. destruct tg as [g|]; [|apply (cranked_known None); [left; reflexivity | exact Hin]].
    destruct (in_dec Z.eq_dec g (atlas_tags A)) as [Hg|Hg].
    - apply (cranked_known (Some g)); [right; apply in_map; exact Hg | exact Hin].
    - rewrite (entry_ok_unknown_tag A g Hg d e Hin).
      apply (cranked_known None); [left; reflexivity | exact Hin].
  Qed.

  Lemma any_ok_d tg : any_ok A d tg = true.
  Proof.
    destruct tg as [g|]; [|reflexivity].
    destruct (in_dec Z.eq_dec g (atlas_tags A)) as [Hg|Hg].
    - apply (cranked_known (Some g)). right. apply in_map. exact Hg.
    - cbn [any_ok]. unfold atlas_by_tag. rewrite (find_tag_none _ _ Hg). reflexivity.
  Qed.

  Lemma unm_consumes f t cur ts v rest :
    unmarshal E A f t cur ts = UOk v rest -> (length rest < length ts)%nat.
  Proof.
    intros H. destruct (uall_holds E A f) as (Hu & _).
    specialize (Hu t cur ts (length ts) (le_n _)). rewrite H in Hu.
    destruct Hu as (used & -> & HP). apply P_val_nonempty in HP.
    rewrite app_length. destruct used; [contradiction|]. cbn [length]. lia.
  Qed.

  Lemma any_consumes f ts v rest :
    unmarshal_any E A f ts = UOk v rest -> (length rest < length ts)%nat.
  Proof.
    intros H. destruct (uall_holds E A f) as (_ & _ & _ & Ha & _).
    specialize (Ha ts (length ts) (le_n _)). rewrite H in Ha.
    destruct Ha as (used & -> & HP). apply P_val_nonempty in HP.
    rewrite app_length. destruct used; [contradiction|]. cbn [length]. lia.
  Qed.

  Definition M : nat := (3 * d + 5)%nat.

  Definition tot_all (f : nat) : Prop :=
    (forall t cur ts, (M + al * length ts <= f)%nat -> unmarshal E A f t cur ts <> UFuel) /\
    (forall m t cur ts, chain_ok A (S m) (first_tag ts) t = true -> (3 * m + 4 + al * length ts <= f)%nat ->
                        unmarshal_bare E A f t cur ts <> UFuel) /\
    (forall m t cur ts, (is_any t = true -> any_ok A m (first_tag ts) = true) ->
                        (3 * m + 3 + al * length ts <= f)%nat ->
                        unmarshal_kind E A f t cur ts <> UFuel) /\
    (forall m ts, any_ok A m (first_tag ts) = true -> (3 * m + 2 + al * length ts <= f)%nat ->
                  unmarshal_any E A f ts <> UFuel) /\
    (forall et acc ts, (M + 1 + al * length ts <= f)%nat -> unmarshal_slice E A f et acc ts <> UFuel) /\
    (forall n et acc ts, (M + 1 + al * length ts <= f)%nat -> unmarshal_array E A f n et acc ts <> UFuel) /\
    (forall kt vt cur ts, (1 + al * length ts <= f)%nat -> unmarshal_map E A f kt vt cur ts <> UFuel) /\
    (forall ds vt es ts, (1 + al * length ts <= f)%nat ->
                         unmarshal_map_entries E A f ds vt es ts <> UFuel) /\
    (forall m e cur ts, entry_ok A m (first_tag ts) e = true -> (3 * m + 3 + al * length ts <= f)%nat ->
                        unmarshal_entry E A f e cur ts <> UFuel) /\
    (forall st fs len cur cnt ts, (1 + al * length ts <= f)%nat ->
                                  unmarshal_fields E A f st fs len cur cnt ts <> UFuel).

  Lemma tot_zero : tot_all 0.
  Proof. unfold tot_all, M. repeat split; intros; lia. Qed.

  Ltac nf := discriminate.
  Ltac cons_tac := cbn [length] in *; unfold M in *; lia.

  Lemma uprim_nofuel t cur ts : uprim t cur ts <> UFuel.
  Proof.
    unfold uprim. destruct ts as [|[v tg] r]; [nf|].
    destruct t; destruct v; try nf;
      match goal with |- context [if ?c then _ else _] => destruct c end; nf.
  Qed.

  Lemma reset_nofuel (ts : list token) :
    match ts with [] => UStarved | _ :: _ => UErr (length ts) end <> UFuel.
  Proof. destruct ts; nf. Qed.

  Lemma tot_step f : tot_all f -> tot_all (S f).
  Proof.
    intros (Hu & Hb & Hk & Ha & Hs & Har & Hm & Hme & He & Hf).
    repeat split.
    - (* unmarshal *)
      intros t cur ts Hlen. rewrite unmarshal_S. destruct (peel t) as [n base].
      assert (Hbase : forall cur', unmarshal_bare E A f base cur' ts <> UFuel).
      { intros cur'. apply (Hb d); [apply chain_ok_all | cons_tac]. }
      destruct n as [|n]; [apply Hbase|].
      destruct ts as [|[v tg] r]; [nf|].
      destruct v; try nf; (apply ubind_nofuel; [apply Hbase | intros; nf]).
    - (* bare *)
      intros m t cur ts Hok Hlen. rewrite unmarshal_bare_S.
      rewrite chain_ok_S in Hok.
      destruct (is_unnamed_prim t); [apply uprim_nofuel|].
      destruct (atlas_get A t) as [e|].
      + apply (He m); [exact Hok | cons_tac].
      + apply (Hk m); [|cons_tac]. intros Hany. rewrite Hany in Hok. exact Hok.
    - (* kind *)
      intros m t cur ts Hok Hlen. rewrite unmarshal_kind_S.
      destruct t; try apply uprim_nofuel; try apply reset_nofuel.
      + destruct ts as [|[v tg] r]; [nf|].
        destruct v; try nf. apply Hs.
        pose proof (mul_lt_step al (length r) (length (Tok (ArrOpen len) tg :: r)) ltac:(cbn [length]; lia)).
        cons_tac.
      + destruct ts as [|[v tg] r]; [nf|].
        destruct v; try nf. apply Har.
        pose proof (mul_lt_step al (length r) (length (Tok (ArrOpen len) tg :: r)) ltac:(cbn [length]; lia)).
        cons_tac.
      + apply Hm. cons_tac.
      + apply (Ha m); [apply Hok; reflexivity | cons_tac].
      + apply (Ha m); [apply Hok; reflexivity | cons_tac].
    - (* any *)
      intros m ts Hok Hlen. rewrite unmarshal_any_S.
      destruct ts as [|[v [tg|]] r]; [nf| |].
      + cbn [first_tag any_ok] in Hok.
        destruct (atlas_by_tag A tg) as [e|] eqn:G; [|nf]. cbv zeta.
        apply ubind_nofuel; [|intros; nf].
        destruct m as [|m]; [discriminate|].
        apply (Hb m); [exact Hok | cons_tac].
      + destruct v; try nf.
        * apply ubind_nofuel; [|intros; nf]. apply Hm. cons_tac.
        * apply ubind_nofuel; [|intros; nf]. apply Hs.
          pose proof (mul_lt_step al (length r) (length (Tok (ArrOpen len) None :: r)) ltac:(cbn [length]; lia)).
          cons_tac.
    - (* slice *)
      intros et acc ts Hlen. rewrite unmarshal_slice_S.
      destruct ts as [|[v tg] r]; [nf|].
      destruct v; try nf;
        (apply ubind_nofuel; [apply Hu; cons_tac|];
         intros x r' Hx; apply unm_consumes in Hx; apply Hs;
         pose proof (mul_lt_step al _ _ Hx); cons_tac).
    - (* array *)
      intros n et acc ts Hlen. rewrite unmarshal_array_S.
      destruct ts as [|[v tg] r]; [nf|].
      destruct v; try nf;
        (destruct (Nat.leb n (length acc)); [nf|];
         apply ubind_nofuel; [apply Hu; cons_tac|];
         intros x r' Hx; apply unm_consumes in Hx; apply Har;
         pose proof (mul_lt_step al _ _ Hx); cons_tac).
    - (* map *)
      intros kt vt cur ts Hlen. rewrite unmarshal_map_S.
      destruct (key_destringer A kt) as [destr|]; [|apply reset_nofuel].
      destruct ts as [|[v tg] r]; [nf|].
      destruct v; try nf. cbv zeta. apply Hme.
      pose proof (mul_lt_step al (length r) (length (Tok (MapOpen len) tg :: r)) ltac:(cbn [length]; lia)).
      cons_tac.
    - (* map entries *)
      intros ds vt es ts Hlen. rewrite unmarshal_map_entries_S.
      destruct ts as [|[v tg] r]; [nf|].
      destruct v; try nf.
      destruct (ds s) as [kv|]; [|nf].
      destruct (existsb _ es); [nf|].
      pose proof (mul_lt_step al (length r) (length (Tok (Str s) tg :: r)) ltac:(cbn [length]; lia)) as Hstep.
      apply ubind_nofuel; [apply Hu; cons_tac|].
      intros x r' Hx. apply unm_consumes in Hx. apply Hme.
      pose proof (mul_lt_step al _ _ Hx). cons_tac.
    - (* entry *)
      intros m e cur ts Hok Hlen. rewrite unmarshal_entry_S.
      unfold entry_ok in Hok.
      destruct (ae_kind e) as [fields|kind wire|members|mode].
      + destruct ts as [|[v tg] r]; [nf|].
        destruct v; try nf. apply Hf.
        pose proof (mul_lt_step al (length r) (length (Tok (MapOpen len) tg :: r)) ltac:(cbn [length]; lia)).
        cons_tac.
      + apply ubind_nofuel.
        * destruct m as [|m]; [discriminate|].
          apply (Hb m); [rewrite first_tag_untag; exact Hok | rewrite untag_own_length; cons_tac].
        * intros w rest _. destruct (tr_bwd kind w); nf.
      + destruct ts as [|[v tg] r]; [nf|].
        destruct v; try nf.
        destruct ((len =? -1) || (len =? 1)); [|nf].
        destruct r as [|[v2 tg2] r2]; [nf|].
        destruct v2; try nf.
        destruct (find _ members) as [[nm mt]|]; [|nf].
        destruct (atlas_get A mt) as [me|] eqn:G; [|nf].
        apply ubind_nofuel.
        * apply (He d); [apply entry_ok_d; apply atlas_get_In in G; exact G|].
          pose proof (mul_lt_step al (length r2) (length (Tok (MapOpen len) tg :: Tok (Str s) tg2 :: r2))
                        ltac:(cbn [length]; lia)).
          cons_tac.
        * intros mv r3 _. destruct r3 as [|[v3 tg3] r4]; [nf|]. destruct v3; nf.
      + destruct (strip_named (ae_type e)); try apply reset_nofuel. apply Hm. cons_tac.
    - (* fields *)
      intros st fs len cur cnt ts Hlen. rewrite unmarshal_fields_S.
      destruct ts as [|[v tg] r]; [nf|].
      destruct v; try nf.
      + destruct ((0 <=? len) && negb (len =? cnt)); nf.
      + destruct (find _ fs) as [fe|]; [|nf].
        pose proof (mul_lt_step al (length r) (length (Tok (Str s) tg :: r)) ltac:(cbn [length]; lia)) as Hstep.
        destruct (fe_ignore fe).
        * apply ubind_nofuel; [apply (Ha d); [apply any_ok_d | cons_tac]|].
          intros x r' Hx. apply any_consumes in Hx. apply Hf.
          pose proof (mul_lt_step al _ _ Hx). cons_tac.
        * destruct r as [|t0 r0]; [nf|].
          destruct (route_get E 50 st cur (fe_route fe)) as [fcur|]; [|nf].
          apply ubind_nofuel; [apply Hu; cons_tac|].
          intros fv r' Hx. apply unm_consumes in Hx.
          destruct (route_set E 50 st cur (fe_route fe) fv); [|nf]. apply Hf.
          pose proof (mul_lt_step al _ _ Hx). cons_tac.
  Qed.

  Lemma tot_all_holds f : tot_all f.
  Proof. induction f; [apply tot_zero | apply tot_step; assumption]. Qed.
End UTotal.

(* THE FUEL THEOREM.  c A = 3 d + 5 and the slope is 3 d + 6, where d bounds the
   token-free chains through transform wires and tags *)
Theorem unmarshal_total_chains : forall E A d, cranked A d = true ->
  forall f t cur ts, ((3 * d + 5) + (3 * d + 6) * length ts <= f)%nat ->
  unmarshal E A f t cur ts <> UFuel.
Proof.
  intros E A d Hr f t cur ts Hf.
  destruct (tot_all_holds E A d Hr (3 * d + 6)%nat (le_n _) f) as (Hu & _).
  apply Hu. unfold M. exact Hf.
Qed.
Print Assumptions unmarshal_total_chains.

(* ---- the earlier, coarser hypothesis (every tagged entry is a possible successor
   of the untyped slot, whatever tag the token has and whether or not it was already
   stripped) implies the new one ---- *)
Definition tagged_all (A : atlas) (p : gtype -> bool) : bool :=
  forallb (fun e => match ae_tag e with Some _ => p (ae_type e) | None => true end) (a_entries A).

Fixpoint bare_ok (A : atlas) (n : nat) (t : gtype) : bool :=
  match n with
  | O => false
  | S m =>
    if is_unnamed_prim t then true
    else
      match atlas_get A t with
      | Some e => match ae_kind e with ETransform _ w => bare_ok A m w | _ => true end
      | None => if is_any (strip_named t) then tagged_all A (bare_ok A m) else true
      end
  end.

Definition uranked (A : atlas) (d : nat) : bool :=
  tagged_all A (bare_ok A d) &&
  forallb (fun e => match ae_kind e with ETransform _ w => bare_ok A d w | _ => true end) (a_entries A).

Lemma tagged_by_tag A p tg e : tagged_all A p = true -> atlas_by_tag A tg = Some e -> p (ae_type e) = true.
Proof.
  unfold tagged_all, atlas_by_tag. induction (a_entries A) as [|x r IH]; cbn [forallb find_tag]; [discriminate|].
  intros H. apply andb_true_iff in H. destruct H as [H1 H2].
  destruct (ae_tag x) as [t|].
  - destruct (t =? tg); [intros G; inversion G; subst; exact H1 | apply IH; exact H2].
  - apply IH; exact H2.
Qed.

Lemma bare_ok_chain_ok A : forall n tg t, bare_ok A n t = true -> chain_ok A n tg t = true.
Proof.
  induction n as [|m IH]; intros tg t; [discriminate|].
  cbn [bare_ok]. rewrite chain_ok_S. destruct (is_unnamed_prim t); [reflexivity|].
  destruct (atlas_get A t) as [e|].
  - unfold entry_ok. destruct (ae_kind e); try reflexivity. apply IH.
  - destruct (is_any (strip_named t)); [|reflexivity].
    intros H. destruct tg as [g|]; [|reflexivity]. cbn [any_ok].
    destruct (atlas_by_tag A g) as [e|] eqn:G; [|reflexivity].
    apply IH. eapply tagged_by_tag; [exact H | exact G].
Qed.

Lemma uranked_cranked A d : uranked A d = true -> cranked A d = true.
Proof.
  unfold uranked, cranked. intros H. apply andb_true_iff in H. destruct H as [H1 H2].
  rewrite forallb_forall in H2. apply forallb_forall. intros tg _. apply andb_true_iff. split.
  - apply forallb_forall. intros e Hin. specialize (H2 e Hin). unfold entry_ok.
    destruct (ae_kind e); try reflexivity. apply bare_ok_chain_ok. exact H2.
  - destruct tg as [g|]; [|reflexivity]. cbn [any_ok].
    destruct (atlas_by_tag A g) as [e|] eqn:G; [|reflexivity].
    apply bare_ok_chain_ok. eapply tagged_by_tag; [exact H1 | exact G].
Qed.

(* the statement as it was before the change of the model: still true *)
Theorem unmarshal_total : forall E A d, uranked A d = true ->
  forall f t cur ts, ((3 * d + 5) + (3 * d + 6) * length ts <= f)%nat ->
  unmarshal E A f t cur ts <> UFuel.
Proof. intros E A d Hr. apply unmarshal_total_chains. apply uranked_cranked. exact Hr. Qed.
Print Assumptions unmarshal_total.

(* ---- a simple sufficient condition: no cyclic chain through transform WIRES, in an
   atlas where the entry found for a tagged entry's type carries that tag (atlas.Build
   refuses repeated types, so there the entry found is the tagged entry itself) ---- *)
Fixpoint wire_ok (A : atlas) (n : nat) (t : gtype) : bool :=
  match n with
  | O => false
  | S m =>
    if is_unnamed_prim t then true
    else
      match atlas_get A t with
      | Some e => match ae_kind e with ETransform _ w => wire_ok A m w | _ => true end
      | None => true
      end
  end.

Definition wires_ranked (A : atlas) (d : nat) : bool :=
  forallb (fun e => match ae_kind e with ETransform _ w => wire_ok A d w | _ => true end) (a_entries A).

Definition opt_eqb (a b : option Z) : bool :=
  match a, b with Some x, Some y => x =? y | None, None => true | _, _ => false end.

Definition tags_own_type (A : atlas) : bool :=
  forallb (fun e => match ae_tag e with
                    | None => true
                    | Some _ => is_unnamed_prim (ae_type e) ||
                                match atlas_get A (ae_type e) with
                                | Some e' => opt_eqb (ae_tag e') (ae_tag e)
                                | None => false
                                end
                    end) (a_entries A).

Lemma chain_ok_mono A : forall n k tg t, chain_ok A n tg t = true -> chain_ok A (n + k) tg t = true.
Proof.
  induction n as [|m IH]; intros k tg t; [discriminate|].
  change (S m + k)%nat with (S (m + k)). rewrite !chain_ok_S.
  destruct (is_unnamed_prim t); [reflexivity|].
  destruct (atlas_get A t) as [e|].
  - unfold entry_ok. destruct (ae_kind e); try reflexivity. apply IH.
  - destruct (is_any (strip_named t)); [|reflexivity].
    destruct tg as [g|]; [|reflexivity]. cbn [any_ok].
    destruct (atlas_by_tag A g); [apply IH | reflexivity].
Qed.

Lemma wire_ok_chain_none A : forall n t, wire_ok A n t = true -> chain_ok A n None t = true.
Proof.
  induction n as [|m IH]; intros t; [discriminate|].
  cbn [wire_ok]. rewrite chain_ok_S. destruct (is_unnamed_prim t); [reflexivity|].
  destruct (atlas_get A t) as [e|].
  - unfold entry_ok. destruct (ae_kind e); try reflexivity.
    replace (strip_tag (ae_tag e) None) with (@None Z) by (destruct (ae_tag e); reflexivity). apply IH.
  - destruct (is_any (strip_named t)); reflexivity.
Qed.

Lemma find_tag_some es g e : find_tag es g = Some e -> In e es /\ ae_tag e = Some g.
Proof.
  induction es as [|x r IH]; cbn [find_tag]; [discriminate|].
  destruct (ae_tag x) as [t|] eqn:Et.
  - destruct (t =? g) eqn:Eg.
    + intros H; inversion H; subst. split; [left; reflexivity|]. rewrite Et. f_equal. lia.
    + intros H. destruct (IH H). split; [right|]; assumption.
  - intros H. destruct (IH H). split; [right|]; assumption.
Qed.

Section Wires.
  Variable A : atlas.
  Variable d : nat.
  Hypothesis Hw : wires_ranked A d = true.
  Hypothesis Ho : tags_own_type A = true.

  Lemma wire_entry e kind w : In e (a_entries A) -> ae_kind e = ETransform kind w -> wire_ok A d w = true.
  Proof.
    intros Hin K. unfold wires_ranked in Hw. rewrite forallb_forall in Hw. specialize (Hw e Hin).
    rewrite K in Hw. exact Hw.
  Qed.

  (* from the type of the entry a tag selects: one visit, the tag goes, then a wire chain *)
  Lemma tagged_start g e : atlas_by_tag A g = Some e -> chain_ok A (S (S d)) (Some g) (ae_type e) = true.
  Proof.
    intros G. apply find_tag_some in G. destruct G as [Hin Ht].
    unfold tags_own_type in Ho. rewrite forallb_forall in Ho. specialize (Ho e Hin). rewrite Ht in Ho.
    rewrite chain_ok_S. destruct (is_unnamed_prim (ae_type e)); [reflexivity|]. cbn [orb] in Ho.
    destruct (atlas_get A (ae_type e)) as [e'|] eqn:G'; [|discriminate].
    unfold entry_ok. destruct (ae_kind e') as [fields|kind w|members|mode] eqn:K; try reflexivity.
    destruct (ae_tag e') as [g'|]; [|discriminate]. cbn in Ho.
    assert (g' = g) by lia. subst g'. cbn [strip_tag]. rewrite Z.eqb_refl.
    replace (S d) with (d + 1)%nat by lia. apply chain_ok_mono. apply wire_ok_chain_none.
    eapply wire_entry; [eapply atlas_get_In; exact G' | exact K].
  Qed.

  Lemma wire_ok_chain : forall n tg t, wire_ok A n t = true -> chain_ok A (n + S (S d)) tg t = true.
  Proof.
    induction n as [|m IH]; intros tg t; [discriminate|].
    cbn [wire_ok]. change (S m + S (S d))%nat with (S (m + S (S d))). rewrite chain_ok_S.
    destruct (is_unnamed_prim t); [reflexivity|].
    destruct (atlas_get A t) as [e|].
    - unfold entry_ok. destruct (ae_kind e); try reflexivity. apply IH.
    - intros _. destruct (is_any (strip_named t)); [|reflexivity].
      destruct tg as [g|]; [|reflexivity]. cbn [any_ok].
      destruct (atlas_by_tag A g) as [e|] eqn:G; [|reflexivity].
      replace (m + S (S d))%nat with (S (S d) + m)%nat by lia.
      apply chain_ok_mono. apply tagged_start. exact G.
  Qed.

  Lemma wires_cranked : cranked A (2 * d + 2) = true.
  Proof.
    unfold cranked. apply forallb_forall. intros tg _. apply andb_true_iff. split.
    - apply forallb_forall. intros e Hin. unfold entry_ok.
      destruct (ae_kind e) as [fields|kind w|members|mode] eqn:K; try reflexivity.
      replace (2 * d + 2)%nat with (d + S (S d))%nat by lia.
      apply wire_ok_chain. eapply wire_entry; [exact Hin | exact K].
    - destruct tg as [g|]; [|reflexivity]. cbn [any_ok].
      destruct (atlas_by_tag A g) as [e|] eqn:G; [|reflexivity].
      replace (2 * d + 2)%nat with (S (S d) + d)%nat by lia.
      apply chain_ok_mono. apply tagged_start. exact G.
  Qed.
End Wires.

Theorem unmarshal_total_wires : forall E A d, wires_ranked A d = true -> tags_own_type A = true ->
  forall f t cur ts, ((6 * d + 11) + (6 * d + 12) * length ts <= f)%nat ->
  unmarshal E A f t cur ts <> UFuel.
Proof.
  intros E A d Hw Ho f t cur ts Hf.
  apply (unmarshal_total_chains E A (2 * d + 2) (wires_cranked A d Hw Ho)). lia.
Qed.
Print Assumptions unmarshal_total_wires.


(* ---------- refutations, and what became of the old one ------------------------- *)

(* (a0) BEFORE the repair of the Go code a tagged transform entry whose wire type is
   interface{} sent a token carrying that tag round and round (any -> entry by tag ->
   wire = any -> ...): this was the refutation of "atlas_ranked suffices".  Now the
   transform hands the token on without the tag, the untyped slot consumes it, and
   the run ends (here in an error: kind 8 wants a byte string, the slot delivers an
   interface value).  The old hypothesis [uranked] still rejects this atlas; the
   new one accepts it. *)
Definition cex_tag_cycle : atlas := Atlas [AE (GStruct 1) (Some 5) (ETransform 8 GAny)] 0.

Lemma cex_tag_cycle_ranked : atlas_ranked cex_tag_cycle.
Proof.
  exists (fun _ => O). intros e t e' Hin Ht Hg.
  destruct Hin as [<-|[]]. cbn in Ht. destruct Ht as [<-|[]]. cbn in Hg. discriminate.
Qed.

Example cex_tag_cycle_now_terminates :
  unmarshal [] cex_tag_cycle 20 GAny (VAny None) [Tok (Byt []) (Some 5)] = UErr 1 /\
  unmarshal_top [] cex_tag_cycle GAny [Tok (Byt []) (Some 5)] = UTErr 1 /\
  unmarshal_top [] (Atlas [AE (GStruct 1) (Some 5) (ETransform 9 GAny)] 0) GAny [Tok (Byt []) (Some 5)] =
    UTDone 1 (VAny (Some (GStruct 1, VStruct [VAny (Some (GBytes, VBytes (Some [])))]))) /\
  uranked cex_tag_cycle 100 = false /\ cranked cex_tag_cycle 2 = true /\
  wires_ranked cex_tag_cycle 1 = true /\ tags_own_type cex_tag_cycle = true.
Proof. vm_compute. repeat split; reflexivity. Qed.

(* (a) [atlas_ranked] (the marshaller's hypothesis) still does not make the
   unmarshaller terminate: it looks at the wire type behind pointers
   (marshal peels them), the unmarshaller's transform machine does not.  A tagged
   transform entry for a pointer type whose wire type is that pointer type: *)
Definition cex_ptr_cycle : atlas := Atlas [AE (GPtr GStr) (Some 5) (ETransform 1 (GPtr GStr))] 0.

Lemma cex_ptr_cycle_ranked : atlas_ranked cex_ptr_cycle.
Proof.
  exists (fun _ => O). intros e t e' Hin Ht Hg.
  destruct Hin as [<-|[]]. cbn in Ht. destruct Ht as [<-|[]]. cbn in Hg. discriminate.
Qed.

Lemma cex_ptr_cycle_bare : forall f cur ts,
  unmarshal_bare [] cex_ptr_cycle f (GPtr GStr) cur ts = UFuel.
Proof.
  induction f as [f IH] using lt_wf_ind. intros cur ts.
  destruct f as [|f]; [reflexivity|]. rewrite unmarshal_bare_S.
  change (is_unnamed_prim (GPtr GStr)) with false. cbv iota.
  change (atlas_get cex_ptr_cycle (GPtr GStr)) with (Some (AE (GPtr GStr) (Some 5) (ETransform 1 (GPtr GStr)))).
  cbv iota.
  destruct f as [|f]; [reflexivity|]. rewrite unmarshal_entry_S. cbn [ae_kind].
  rewrite IH by lia. reflexivity.
Qed.

Theorem unmarshal_total_ranked_refuted :
  atlas_ranked cex_ptr_cycle /\
  forall f, unmarshal [] cex_ptr_cycle f GAny (VAny None) [Tok (Str []) (Some 5)] = UFuel.
Proof.
  split; [apply cex_ptr_cycle_ranked|].
  intros f. destruct f as [|f]; [reflexivity|]. rewrite unmarshal_S. cbn [peel].
  destruct f as [|f]; [reflexivity|]. rewrite unmarshal_bare_S.
  change (is_unnamed_prim GAny) with false. cbv iota.
  change (atlas_get cex_ptr_cycle GAny) with (@None atlas_entry). cbv iota.
  change (strip_named GAny) with GAny.
  destruct f as [|f]; [reflexivity|]. rewrite unmarshal_kind_S.
  destruct f as [|f]; [reflexivity|]. rewrite unmarshal_any_S.
  change (atlas_by_tag cex_ptr_cycle 5) with (Some (AE (GPtr GStr) (Some 5) (ETransform 1 (GPtr GStr)))).
  cbv iota zeta. cbn [ae_type]. rewrite cex_ptr_cycle_bare. reflexivity.
Qed.

Example cex_ptr_cycle_not_ranked :
  wires_ranked cex_ptr_cycle 100 = false /\ cranked cex_ptr_cycle 100 = false /\ uranked cex_ptr_cycle 100 = false.
Proof. vm_compute. repeat split; reflexivity. Qed.

(* (a') acyclic wires alone are not enough either: [tags_own_type] is needed.  Two
   entries for one type (atlas.Build refuses this) with different tags: the tag 5
   selects the second, its type finds the first, which strips 7 only. *)
Definition cex_dup_type : atlas :=
  Atlas [AE (GStruct 1) (Some 7) (ETransform 9 GAny); AE (GStruct 1) (Some 5) (ETransform 9 GAny)] 0.

Lemma cex_dup_type_bare : forall f cur r,
  unmarshal_bare [] cex_dup_type f GAny cur (Tok (Byt []) (Some 5) :: r) = UFuel.
Proof.
  induction f as [f IH] using lt_wf_ind. intros cur r.
  destruct f as [|f]; [reflexivity|]. rewrite unmarshal_bare_S.
  change (is_unnamed_prim GAny) with false. cbv iota.
  change (atlas_get cex_dup_type GAny) with (@None atlas_entry). cbv iota.
  change (strip_named GAny) with GAny.
  destruct f as [|f]; [reflexivity|]. rewrite unmarshal_kind_S.
  destruct f as [|f]; [reflexivity|]. rewrite unmarshal_any_S.
  change (atlas_by_tag cex_dup_type 5) with (Some (AE (GStruct 1) (Some 5) (ETransform 9 GAny))).
  cbv iota zeta. cbn [ae_type].
  destruct f as [|f]; [reflexivity|]. rewrite unmarshal_bare_S.
  change (is_unnamed_prim (GStruct 1)) with false. cbv iota.
  change (atlas_get cex_dup_type (GStruct 1)) with (Some (AE (GStruct 1) (Some 7) (ETransform 9 GAny))).
  cbv iota.
  destruct f as [|f]; [reflexivity|]. rewrite unmarshal_entry_S. cbn [ae_kind ae_tag].
  change (untag_own (Some 7) (Tok (Byt []) (Some 5) :: r)) with (Tok (Byt []) (Some 5) :: r).
  rewrite IH by lia. reflexivity.
Qed.

Theorem unmarshal_total_wires_needs_own_type :
  wires_ranked cex_dup_type 1 = true /\ tags_own_type cex_dup_type = false /\
  cranked cex_dup_type 100 = false /\
  forall f, unmarshal [] cex_dup_type f GAny (VAny None) [Tok (Byt []) (Some 5)] = UFuel.
Proof.
  split; [vm_compute; reflexivity|]. split; [vm_compute; reflexivity|]. split; [vm_compute; reflexivity|].
  intros f. destruct f as [|f]; [reflexivity|]. rewrite unmarshal_S. cbn [peel].
  apply cex_dup_type_bare.
Qed.

(* (b) the slope 4 that [unmarshal_top] had before is too small even with an empty
   atlas: an untyped target takes 5 calls per nested array (any, slice, unmarshal,
   bare, kind).  60 array heads and nothing else: with 50 + 4 * 60 the answer
   would be "out of fuel"; with the present 64 + 16 * 60 it is "starved". *)
Definition empty_atlas : atlas := Atlas [] 0.

Example unmarshal_old_top_fuel_refuted :
  cranked empty_atlas 0 = true /\ uranked empty_atlas 0 = true /\
  unmarshal [] empty_atlas (50 + 4 * 60) GAny (VAny None) (repeat (Tok (ArrOpen 1) None) 60) = UFuel /\
  unmarshal_top [] empty_atlas GAny (repeat (Tok (ArrOpen 1) None) 60) = UTStarved.
Proof. vm_compute. repeat split; reflexivity. Qed.

(* in general: n array heads need 5 n calls *)
Lemma any_nest_fuel : forall n f cur, (f < 5 * n)%nat ->
  unmarshal [] empty_atlas f GAny cur (repeat (Tok (ArrOpen 1) None) n) = UFuel.
Proof.
  induction n as [|n IH]; intros f cur Hf; [lia|].
  destruct f as [|f]; [reflexivity|]. rewrite unmarshal_S. cbn [peel].
  destruct f as [|f]; [reflexivity|]. rewrite unmarshal_bare_S.
  change (is_unnamed_prim GAny) with false. cbv iota.
  change (atlas_get empty_atlas GAny) with (@None atlas_entry). cbv iota.
  change (strip_named GAny) with GAny.
  destruct f as [|f]; [reflexivity|]. rewrite unmarshal_kind_S.
  destruct f as [|f]; [reflexivity|]. rewrite unmarshal_any_S. cbn [repeat].
  destruct f as [|f]; [reflexivity|]. rewrite unmarshal_slice_S.
  destruct n as [|n]; [lia|]. cbn [repeat].
  change (Tok (ArrOpen 1) None :: repeat (Tok (ArrOpen 1) None) n) with (repeat (Tok (ArrOpen 1) None) (S n)).
  rewrite IH by lia. reflexivity.
Qed.

(* so no constant c makes "c + 4 * tokens" enough, even without any atlas *)
Theorem unmarshal_slope4_refuted : forall c : nat,
  exists ts, unmarshal [] empty_atlas (c + 4 * length ts) GAny (VAny None) ts = UFuel.
Proof.
  intros c. exists (repeat (Tok (ArrOpen 1) None) (S c)).
  apply any_nest_fuel. rewrite repeat_length. lia.
Qed.
Print Assumptions unmarshal_slope4_refuted.

(* the hypotheses are satisfiable by an atlas with tags and transforms *)
Example uranked_ok_atlas :
  uranked ok_atlas 1 = true /\ uranked ok_atlas 0 = false /\
  cranked ok_atlas 1 = true /\ cranked ok_atlas 0 = false /\
  wires_ranked ok_atlas 1 = true /\ tags_own_type ok_atlas = true.
Proof. vm_compute. repeat split; reflexivity. Qed.

(* ---------- unmarshal_top ---------------------------------------------------- *)

Definition unmarshal_top_with (E : tenv) (A : atlas) (fuel : nat) (t : gtype) (ts : list token) : utop :=
  if reset_fails A 20 t then UTBindErr
  else
    match unmarshal E A fuel t (zero 50 E t) ts with
    | UOk v rest => UTDone (length ts - length rest) v
    | UErr remaining => UTErr (S (length ts - remaining))
    | UStarved => UTStarved
    | UFuel => UTFuel
    end.

Lemma unmarshal_top_is_with E A t ts :
  unmarshal_top E A t ts = unmarshal_top_with E A (64 + 16 * length ts) t ts.
Proof. reflexivity. Qed.

(* with fuel (3d+5) + (3d+6) * tokens the driver never runs out *)
Theorem unmarshal_top_with_total : forall E A d fuel t ts, cranked A d = true ->
  ((3 * d + 5) + (3 * d + 6) * length ts <= fuel)%nat ->
  unmarshal_top_with E A fuel t ts <> UTFuel.
Proof.
  intros E A d fuel t ts Hr Hf. unfold unmarshal_top_with.
  destruct (reset_fails A 20 t); [discriminate|].
  pose proof (unmarshal_total_chains E A d Hr fuel t (zero 50 E t) ts Hf) as H.
  destruct (unmarshal E A fuel t (zero 50 E t) ts); try discriminate. contradiction.
Qed.

(* and any answer other than "out of fuel" is stable under more fuel *)
Theorem unmarshal_top_with_mono : forall E A f f' t ts,
  unmarshal_top_with E A f t ts <> UTFuel -> (f <= f')%nat ->
  unmarshal_top_with E A f' t ts = unmarshal_top_with E A f t ts.
Proof.
  intros E A f f' t ts H Hle. unfold unmarshal_top_with in *.
  destruct (reset_fails A 20 t); [reflexivity|].
  destruct (unmarshal E A f t (zero 50 E t) ts) as [v rest|k| |] eqn:U.
  - rewrite (unmarshal_fuel_mono _ _ _ _ _ _ _ _ U ltac:(discriminate) Hle). reflexivity.
  - rewrite (unmarshal_fuel_mono _ _ _ _ _ _ _ _ U ltac:(discriminate) Hle). reflexivity.
  - rewrite (unmarshal_fuel_mono _ _ _ _ _ _ _ _ U ltac:(discriminate) Hle). reflexivity.
  - contradiction.
Qed.

(* [unmarshal_top] itself (fuel 64 + 16 * tokens): never out of fuel, whatever the
   length of the input, when the token-free chains end within 3 visits *)
Theorem unmarshal_top_total : forall E A t ts, cranked A 3 = true -> unmarshal_top E A t ts <> UTFuel.
Proof.
  intros E A t ts Hr. rewrite unmarshal_top_is_with.
  apply (unmarshal_top_with_total E A 3 _ t ts Hr). lia.
Qed.

Lemma cranked_mono A d d' : (d <= d')%nat -> cranked A d = true -> cranked A d' = true.
Proof.
  intros Hle. unfold cranked. rewrite !forallb_forall. intros H tg Hin. specialize (H tg Hin).
  apply andb_true_iff in H. destruct H as [H1 H2]. apply andb_true_iff. split.
  - rewrite forallb_forall in *. intros e He. specialize (H1 e He). unfold entry_ok in *.
    destruct (ae_kind e); try reflexivity.
    replace d' with (d + (d' - d))%nat by lia. apply chain_ok_mono. exact H1.
  - destruct tg as [g|]; [|reflexivity]. cbn [any_ok] in *.
    destruct (atlas_by_tag A g); [|reflexivity].
    replace d' with (d + (d' - d))%nat by lia. apply chain_ok_mono. exact H2.
Qed.

(* the same under the older hypothesis, and the general form for longer chains
   (then only inputs short enough for the budget are covered) *)
Corollary unmarshal_top_total_uranked : forall E A t ts, uranked A 3 = true -> unmarshal_top E A t ts <> UTFuel.
Proof. intros E A t ts Hr. apply unmarshal_top_total. apply uranked_cranked. exact Hr. Qed.

Corollary unmarshal_top_total_short : forall E A d t ts, cranked A d = true ->
  ((3 * d + 5) + (3 * d + 6) * length ts <= 64 + 16 * length ts)%nat ->
  unmarshal_top E A t ts <> UTFuel.
Proof. intros E A d t ts Hr Hf. rewrite unmarshal_top_is_with. eapply unmarshal_top_with_total; eauto. Qed.

(* an atlas without transform entries, whatever else it contains, satisfies cranked A 0;
   transforms whose wire types are not transforms again give cranked A 2 *)
Example unmarshal_top_total_applies :
  cranked empty_atlas 3 = true /\ cranked ok_atlas 3 = true /\ cranked cex_tag_cycle 3 = true.
Proof. vm_compute. repeat split; reflexivity. Qed.

(* beyond 3 the slope 16 is not enough: a chain of seven transforms in front of a
   slice costs 18 calls per array head *)
Definition chain_atlas (k : nat) : atlas :=
  Atlas (map (fun i => AE (GStruct (Z.of_nat i)) None
                          (ETransform 5 (if Nat.eqb i k then GSlice (GStruct 1) else GStruct (Z.of_nat (S i)))))
             (seq 1 k)) 0.

Example unmarshal_top_fuel_refuted :
  cranked (chain_atlas 7) 7 = true /\ cranked (chain_atlas 7) 6 = false /\
  unmarshal_top [] (chain_atlas 7) (GStruct 1) (repeat (Tok (ArrOpen 1) None) 40) = UTFuel /\
  unmarshal [] (chain_atlas 7) 2000 (GStruct 1) (VStruct []) (repeat (Tok (ArrOpen 1) None) 40) = UStarved.
Proof. vm_compute. repeat split; reflexivity. Qed.

Print Assumptions unmarshal_total_ranked_refuted.
Print Assumptions unmarshal_total_wires_needs_own_type.
Print Assumptions unmarshal_top_with_total.
Print Assumptions unmarshal_top_with_mono.
Print Assumptions unmarshal_top_total.
Print Assumptions unmarshal_top_total_short.


(* ====================================================================== *)
(* 4. The unmarshaller: what is built is covered by what was consumed       *)
(* ====================================================================== *)

(* The dynamically sized part of a value: payload bytes of strings and byte
   slices, and one unit per slice element and per map entry.  Everything whose
   extent is fixed by the static type (array slots and their zero padding,
   struct fields, pointers, [n]byte) counts nothing: that part is bounded by
   the type, not by the input. *)
Fixpoint dsize (v : gval) : nat :=
  match v with
  | GVStr s => length s
  | VBytes (Some s) => length s
  | VSlice (Some l) =>
      (length l + (fix go (l : list gval) : nat := match l with [] => O | x :: r => (dsize x + go r)%nat end) l)%nat
  | GVArr l | VStruct l =>
      (fix go (l : list gval) : nat := match l with [] => O | x :: r => (dsize x + go r)%nat end) l
  | GVMap (Some es) =>
      (length es + (fix go (l : list (gval * gval)) : nat :=
            match l with [] => O | (k, x) :: r => (dsize k + dsize x + go r)%nat end) es)%nat
  | VPtr (Some x) => dsize x
  | VAny (Some (_, x)) => dsize x
  | _ => O
  end.

Definition dsum (l : list gval) : nat := sumf dsize l.
Definition desum (es : list (gval * gval)) : nat :=
  sumf (fun kv => (dsize (fst kv) + dsize (snd kv))%nat) es.

Lemma dsize_go_list l :
  (fix go (l : list gval) : nat := match l with [] => O | x :: r => (dsize x + go r)%nat end) l = dsum l.
Proof. induction l as [|x r IH]; [reflexivity|]. unfold dsum. cbn [sumf]. rewrite IH. reflexivity. Qed.

Lemma dsize_go_map es :
  (fix go (l : list (gval * gval)) : nat :=
     match l with [] => O | (k, x) :: r => (dsize k + dsize x + go r)%nat end) es = desum es.
Proof.
  induction es as [|[k x] r IH]; [reflexivity|]. unfold desum. cbn [sumf fst snd].
  rewrite IH. reflexivity.
Qed.

Lemma dsize_slice l : dsize (VSlice (Some l)) = (length l + dsum l)%nat.
Proof. rewrite <- dsize_go_list. reflexivity. Qed.
Lemma dsize_arr l : dsize (GVArr l) = dsum l.
Proof. rewrite <- dsize_go_list. reflexivity. Qed.
Lemma dsize_struct l : dsize (VStruct l) = dsum l.
Proof. rewrite <- dsize_go_list. reflexivity. Qed.
Lemma dsize_map es : dsize (GVMap (Some es)) = (length es + desum es)%nat.
Proof. rewrite <- dsize_go_map. reflexivity. Qed.

Lemma sumf_app {X} (g : X -> nat) a b : sumf g (a ++ b) = (sumf g a + sumf g b)%nat.
Proof. induction a as [|x a IH]; cbn [sumf app]; lia. Qed.

Lemma sumf_rev {X} (g : X -> nat) a : sumf g (rev a) = sumf g a.
Proof. induction a as [|x a IH]; [reflexivity|]. cbn [rev]. rewrite sumf_app, IH. cbn [sumf]. lia. Qed.

Lemma sumf_repeat0 {X} (g : X -> nat) x n : g x = O -> sumf g (repeat x n) = O.
Proof. intros H. induction n as [|n IH]; cbn [repeat sumf]; lia. Qed.

Lemma sumf_map0 {X Y} (g : Y -> nat) (h : X -> Y) l : (forall x, g (h x) = O) -> sumf g (map h l) = O.
Proof. intros H. induction l as [|x r IH]; cbn [map sumf]; [reflexivity|]. rewrite H, IH. reflexivity. Qed.

(* zero values have no dynamic part *)
Lemma dsize_zero : forall n E t, dsize (zero n E t) = O.
Proof.
  induction n as [|n IH]; intros E t; [reflexivity|].
  destruct t; cbn [zero]; try reflexivity.
  - rewrite dsize_arr. apply sumf_repeat0. apply IH.
  - destruct (env_fields E id) as [fs|]; [|reflexivity].
    rewrite dsize_struct. apply sumf_map0. intros x. apply IH.
  - apply IH.
Qed.

Lemma dsize_zero_of E t : dsize (zero_of E t) = O.
Proof. unfold zero_of. apply dsize_zero. Qed.

(* token weight: one unit plus the payload bytes *)
Definition tweight1 (t : token) : nat :=
  match tv t with Str s | Byt s => S (length s) | _ => 1%nat end.
Definition tweight (ts : list token) : nat := sumf tweight1 ts.

Lemma tweight_cons t ts : tweight (t :: ts) = (tweight1 t + tweight ts)%nat.
Proof. reflexivity. Qed.

Lemma tweight_untag tg ts : tweight (untag_own tg ts) = tweight ts.
Proof.
  destruct tg as [t|]; [|reflexivity]. destruct ts as [|[v [t'|]] r]; try reflexivity.
  cbn [untag_own]. destruct (t =? t'); reflexivity.
Qed.

Lemma tweight1_pos t : (1 <= tweight1 t)%nat.
Proof. unfold tweight1. destruct (tv t); lia. Qed.

Lemma split_at_len c : forall s acc a b, split_at c s acc = Some (a, b) ->
  (length a + length b + 1 = length acc + length s)%nat.
Proof.
  induction s as [|x r IH]; intros acc a b; cbn [split_at]; [discriminate|].
  destruct (x =? c).
  - intros H; inversion H; subst. rewrite rev_length. cbn [length]. lia.
  - intros H. apply IH in H. cbn [length] in *. lia.
Qed.

Lemma tr_bwd_dsize kind w x : tr_bwd kind w = Some x -> (dsize x <= dsize w)%nat.
Proof.
  unfold tr_bwd.
  repeat match goal with |- context [if ?c then _ else _] => destruct c end;
    try discriminate;
    (destruct w as [| | |s| | | | | | | |fs|]; try discriminate);
    try (match goal with |- context [split_at ?c ?s ?a] =>
           destruct (split_at c s a) as [[a0 b0]|] eqn:S; [|discriminate];
           apply split_at_len in S; intros H; inversion H; subst;
           rewrite dsize_struct; cbn [dsum sumf dsize length] in *; lia end);
    repeat match goal with
           | |- context [match ?l with _ => _ end] => is_var l; destruct l; try discriminate
           end;
    intros H; inversion H; subst; rewrite ?dsize_struct; cbn; lia.
Qed.

Lemma key_destr_dsize A kt destr k kv :
  key_destringer A kt = Some destr -> destr k = Some kv -> (dsize kv <= length k)%nat.
Proof.
  unfold key_destringer. destruct (is_string_kind kt).
  - intros H; inversion H; subst. intros H2; inversion H2; subst. cbn [dsize]. lia.
  - destruct (atlas_get A kt) as [[ty tg [fs|kind wire|ms|md]]|]; try discriminate.
    destruct (is_string_kind wire); [|discriminate].
    intros H; inversion H; subst. intros H2. apply tr_bwd_dsize in H2. cbn [dsize] in H2. exact H2.
Qed.

Lemma wrap_ptrs_dsize n v : dsize (wrap_ptrs n v) = dsize v.
Proof. induction n as [|n IH]; cbn [wrap_ptrs dsize]; [reflexivity | exact IH]. Qed.

Lemma inner_cur_dsize E : forall n t v, (dsize (inner_cur E n t v) <= dsize v)%nat.
Proof.
  induction n as [|n IH]; intros t v; [destruct t; destruct v; cbn [inner_cur]; lia|].
  destruct t; cbn [inner_cur]; try lia.
  destruct v; try (eapply Nat.le_trans; [apply IH|]; unfold zero_of; rewrite dsize_zero; lia).
  destruct o as [x|].
  - eapply Nat.le_trans; [apply IH|]. cbn [dsize]. lia.
  - eapply Nat.le_trans; [apply IH|]. unfold zero_of; rewrite dsize_zero; lia.
Qed.

Lemma dsum_replace_nth : forall fs i fv x, nth_error fs i = Some fv ->
  (dsum (replace_nth fs i x) + dsize fv = dsum fs + dsize x)%nat.
Proof.
  induction fs as [|y r IH]; intros i fv x; destruct i as [|i]; cbn [nth_error replace_nth]; try discriminate.
  - intros H; inversion H; subst. unfold dsum. cbn [sumf]. lia.
  - intros H. specialize (IH i fv x H). unfold dsum in *. cbn [sumf]. lia.
Qed.

(* field routes: what [route_set] puts back is what [route_get] took out, with
   the field replaced *)
Definition rview (E : tenv) (t : gtype) (v : gval) : gtype * gval * bool :=
  match t, v with
  | GPtr t', VPtr (Some x) => (t', x, true)
  | GPtr t', VPtr None => (t', zero_of E t', true)
  | _, _ => (t, v, false)
  end.

Lemma route_get_S E f t v i r : route_get E (S f) t v (i :: r) =
  let '(st, sv, _) := rview E t v in
  match strip_named st, sv with
  | GStruct id, VStruct fs =>
      match env_fields E id, nth_error fs i with
      | Some fts, Some fv =>
          match nth_error fts i with
          | Some ft => route_get E f ft fv r
          | None => None
          end
      | _, _ => None
      end
  | _, _ => None
  end.
Proof. destruct t; destruct v; try reflexivity; try (destruct o; reflexivity). Qed.

Lemma route_set_S E f t v i r nv : route_set E (S f) t v (i :: r) nv =
  let '(st, sv, wrap) := rview E t v in
  match strip_named st, sv with
  | GStruct id, VStruct fs =>
      match env_fields E id, nth_error fs i with
      | Some fts, Some fv =>
          match nth_error fts i with
          | Some ft =>
              match route_set E f ft fv r nv with
              | Some fv' =>
                  let s' := VStruct (replace_nth fs i fv') in
                  Some (if wrap then VPtr (Some s') else s')
              | None => None
              end
          | None => None
          end
      | _, _ => None
      end
  | _, _ => None
  end.
Proof. destruct t; destruct v; try reflexivity; try (destruct o; reflexivity). Qed.

Lemma rview_dsize E t v st sv w : rview E t v = (st, sv, w) -> dsize sv = dsize v.
Proof.
  unfold rview. destruct t; destruct v; try (intros H; inversion H; subst; reflexivity).
  destruct o; intros H; inversion H; subst; [reflexivity|].
  unfold zero_of. rewrite dsize_zero. reflexivity.
Qed.

Lemma route_dsize E : forall fuel t v route g nv v',
  route_get E fuel t v route = Some g -> route_set E fuel t v route nv = Some v' ->
  (dsize v' + dsize g <= dsize v + dsize nv)%nat.
Proof.
  induction fuel as [|f IH]; intros t v route g nv v'; [discriminate|].
  destruct route as [|i r].
  - cbn [route_get route_set]. intros H1 H2; inversion H1; inversion H2; subst. lia.
  - rewrite route_get_S, route_set_S.
    destruct (rview E t v) as [[st sv] w] eqn:V. apply rview_dsize in V.
    destruct (strip_named st); try discriminate.
    destruct sv; try discriminate.
    destruct (env_fields E id) as [fts|]; [|discriminate].
    destruct (nth_error fields i) as [fv|] eqn:N; [|discriminate].
    destruct (nth_error fts i) as [ft|]; [|discriminate].
    intros H1.
    destruct (route_set E f ft fv r nv) as [fv'|] eqn:RS; [|discriminate].
    intros H2. inversion H2; subst v'. clear H2.
    specialize (IH _ _ _ _ _ _ H1 RS).
    pose proof (dsum_replace_nth fields i fv fv' N) as Hr.
    rewrite dsize_struct in V.
    assert (Hs : dsize (if w then VPtr (Some (VStruct (replace_nth fields i fv'))) else VStruct (replace_nth fields i fv'))
                 = dsum (replace_nth fields i fv')).
    { destruct w; cbn [dsize]; rewrite dsize_go_list; reflexivity. }
    cbv zeta. rewrite Hs. lia.
Qed.

Lemma uprim_dsize t cur ts v rest : uprim t cur ts = UOk v rest ->
  (dsize v + 1 + tweight rest <= dsize cur + tweight ts)%nat.
Proof.
  unfold uprim. destruct ts as [|[tv tg] r]; [discriminate|].
  rewrite tweight_cons. unfold tweight1. cbn [Tok.tv].
  destruct t; destruct tv; try discriminate;
    try (intros H; inversion H; subst; cbn [dsize]; lia);
    match goal with |- context [if ?c then _ else _] => destruct c end; try discriminate;
    intros H; inversion H; subst; cbn [dsize]; lia.
Qed.

Lemma uany_scalar_dsize v x tg : uany_scalar v = Some x -> (dsize x + 1 <= tweight1 (Tok v tg))%nat.
Proof.
  unfold tweight1. cbn [tv].
  destruct v; cbn [uany_scalar]; try discriminate; intros H; inversion H; subst; cbn [dsize]; try lia.
  destruct (u <=? max_i64); cbn [dsize]; lia.
Qed.

Lemma ubind_ok_inv r k v rest : ubind r k = UOk v rest ->
  exists v1 r1, r = UOk v1 r1 /\ k v1 r1 = UOk v rest.
Proof. destruct r; cbn [ubind]; try discriminate. eauto. Qed.

Section USize.
  Variable E : tenv.
  Variable A : atlas.

  Definition sz_all (f : nat) : Prop :=
    (forall t cur ts v rest, unmarshal E A f t cur ts = UOk v rest ->
        (dsize v + 1 + tweight rest <= dsize cur + tweight ts)%nat) /\
    (forall t cur ts v rest, unmarshal_bare E A f t cur ts = UOk v rest ->
        (dsize v + 1 + tweight rest <= dsize cur + tweight ts)%nat) /\
    (forall t cur ts v rest, unmarshal_kind E A f t cur ts = UOk v rest ->
        (dsize v + 1 + tweight rest <= dsize cur + tweight ts)%nat) /\
    (forall ts v rest, unmarshal_any E A f ts = UOk v rest ->
        (dsize v + 1 + tweight rest <= tweight ts)%nat) /\
    (forall et acc ts v rest, unmarshal_slice E A f et acc ts = UOk v rest ->
        (dsize v + 1 + tweight rest <= length acc + dsum acc + tweight ts)%nat) /\
    (forall n et acc ts v rest, unmarshal_array E A f n et acc ts = UOk v rest ->
        (dsize v + 1 + tweight rest <= dsum acc + tweight ts)%nat) /\
    (forall kt vt cur ts v rest, unmarshal_map E A f kt vt cur ts = UOk v rest ->
        (dsize v + 1 + tweight rest <= dsize cur + tweight ts)%nat) /\
    (forall ds vt es ts v rest,
        (forall k kv, ds k = Some kv -> (dsize kv <= length k)%nat) ->
        unmarshal_map_entries E A f ds vt es ts = UOk v rest ->
        (dsize v + 1 + tweight rest <= length es + desum es + tweight ts)%nat) /\
    (forall e cur ts v rest, unmarshal_entry E A f e cur ts = UOk v rest ->
        (dsize v + 1 + tweight rest <= dsize cur + tweight ts)%nat) /\
    (forall st fs len cur cnt ts v rest, unmarshal_fields E A f st fs len cur cnt ts = UOk v rest ->
        (dsize v + 1 + tweight rest <= dsize cur + tweight ts)%nat).

  Lemma sz_zero : sz_all 0.
  Proof. repeat split; intros; discriminate. Qed.

  Ltac tw := rewrite ?tweight_cons in *; unfold tweight1 in *; cbn [tv] in *.
  Ltac zz := rewrite ?dsize_zero_of in *.

  Lemma sz_step f : sz_all f -> sz_all (S f).
  Proof.
    intros (Hu & Hb & Hk & Ha & Hs & Har & Hm & Hme & He & Hf).
    repeat split.
    - (* unmarshal *)
      intros t cur ts v rest. rewrite unmarshal_S. destruct (peel t) as [n base].
      destruct n as [|n]; [apply Hb|].
      destruct ts as [|[tv0 tg] r]; [discriminate|].
      assert (Hgen : ubind (unmarshal_bare E A f base (inner_cur E (S n) t cur) (Tok tv0 tg :: r))
                        (fun v r => UOk (wrap_ptrs (S n) v) r) = UOk v rest ->
                     (dsize v + 1 + tweight rest <= dsize cur + tweight (Tok tv0 tg :: r))%nat).
      { intros H. apply ubind_ok_inv in H. destruct H as (v1 & r1 & H1 & H2).
        inversion H2; subst. apply Hb in H1.
        change (VPtr (Some (wrap_ptrs n v1))) with (wrap_ptrs (S n) v1). rewrite wrap_ptrs_dsize.
        pose proof (inner_cur_dsize E (S n) t cur). lia. }
      destruct tv0; try exact Hgen.
      intros H; inversion H; subst. tw. cbn [dsize]. lia.
    - (* bare *)
      intros t cur ts v rest. rewrite unmarshal_bare_S.
      destruct (is_unnamed_prim t); [apply uprim_dsize|].
      destruct (atlas_get A t); [apply He | apply Hk].
    - (* kind *)
      intros t cur ts v rest. rewrite unmarshal_kind_S.
      destruct t; try apply uprim_dsize; try apply Hm;
        try (destruct ts; discriminate).
      + destruct ts as [|[tv0 tg] r]; [discriminate|].
        destruct tv0; try discriminate.
        * intros H. apply Hs in H. tw. cbn [length dsum sumf] in H. lia.
        * intros H; inversion H; subst. tw. cbn [dsize]. lia.
      + destruct ts as [|[tv0 tg] r]; [discriminate|].
        destruct tv0; try discriminate.
        * intros H. apply Har in H. tw. cbn [length dsum sumf] in H. lia.
        * intros H; inversion H; subst. tw. zz. lia.
      + intros H. apply Ha in H. lia.
      + intros H. apply Ha in H. lia.
    - (* any *)
      intros ts v rest. rewrite unmarshal_any_S.
      destruct ts as [|[tv0 [tg|]] r]; [discriminate| |].
      + destruct (atlas_by_tag A tg) as [e|]; [|discriminate]. cbv zeta.
        intros H. apply ubind_ok_inv in H. destruct H as (v1 & r1 & H1 & H2).
        inversion H2; subst. apply Hb in H1. zz. cbn [dsize]. lia.
      + destruct tv0; try discriminate;
          try (destruct (uany_scalar _) as [x|] eqn:U; [|discriminate];
               intros H; inversion H; subst;
               apply (uany_scalar_dsize _ _ None) in U; rewrite tweight_cons; lia).
        * intros H. apply ubind_ok_inv in H. destruct H as (v1 & r1 & H1 & H2).
          inversion H2; subst. apply Hm in H1. change (dsize (GVMap (Some []))) with O in H1.
          change (dsize (VAny (Some (GMap GStr GAny, v1)))) with (dsize v1). lia.
        * intros H. apply ubind_ok_inv in H. destruct H as (v1 & r1 & H1 & H2).
          inversion H2; subst. apply Hs in H1. tw. cbn [length dsum sumf] in H1.
          change (dsize (VAny (Some (GSlice GAny, v1)))) with (dsize v1). lia.
    - (* slice *)
      intros et acc ts v rest. rewrite unmarshal_slice_S.
      destruct ts as [|[tv0 tg] r]; [discriminate|].
      assert (Hgen : ubind (unmarshal E A f et (zero_of E et) (Tok tv0 tg :: r))
                        (fun x r => unmarshal_slice E A f et (x :: acc) r) = UOk v rest ->
                     (dsize v + 1 + tweight rest <= length acc + dsum acc + tweight (Tok tv0 tg :: r))%nat).
      { intros H. apply ubind_ok_inv in H. destruct H as (x & r1 & H1 & H2).
        apply Hu in H1. apply Hs in H2. zz. cbn [length] in H2. unfold dsum in *. cbn [sumf] in H2. lia. }
      destruct tv0; try exact Hgen; try discriminate.
      intros H; inversion H; subst. rewrite dsize_slice, rev_length. unfold dsum. rewrite sumf_rev. tw. lia.
    - (* array *)
      intros n et acc ts v rest. rewrite unmarshal_array_S.
      destruct ts as [|[tv0 tg] r]; [discriminate|].
      assert (Hgen : (if Nat.leb n (length acc) then UErr (length (Tok tv0 tg :: r))
                      else ubind (unmarshal E A f et (zero_of E et) (Tok tv0 tg :: r))
                             (fun x r => unmarshal_array E A f n et (x :: acc) r)) = UOk v rest ->
                     (dsize v + 1 + tweight rest <= dsum acc + tweight (Tok tv0 tg :: r))%nat).
      { destruct (Nat.leb n (length acc)); [discriminate|].
        intros H. apply ubind_ok_inv in H. destruct H as (x & r1 & H1 & H2).
        apply Hu in H1. apply Har in H2. zz. unfold dsum in *. cbn [sumf] in H2. lia. }
      destruct tv0; try exact Hgen; try discriminate.
      intros H; inversion H; subst. rewrite dsize_arr. unfold dsum. rewrite sumf_app, sumf_rev.
      rewrite sumf_repeat0 by apply dsize_zero_of. tw. lia.
    - (* map *)
      intros kt vt cur ts v rest. rewrite unmarshal_map_S.
      destruct (key_destringer A kt) as [destr|] eqn:K; [|destruct ts; discriminate].
      destruct ts as [|[tv0 tg] r]; [discriminate|].
      destruct tv0; try discriminate.
      + cbv zeta. intros H. apply Hme in H.
        * tw. destruct cur; try (cbn [length desum sumf] in H; lia).
          destruct o as [es|]; [|cbn [length desum sumf] in H; lia].
          rewrite dsize_map. lia.
        * intros k kv. apply (key_destr_dsize A kt destr k kv K).
      + intros H; inversion H; subst. tw. cbn [dsize]. lia.
    - (* map entries *)
      intros ds vt es ts v rest Hds. rewrite unmarshal_map_entries_S.
      destruct ts as [|[tv0 tg] r]; [discriminate|].
      destruct tv0; try discriminate.
      + intros H; inversion H; subst. rewrite dsize_map. tw. lia.
      + destruct (ds s) as [kv|] eqn:D; [|discriminate].
        destruct (existsb _ es); [discriminate|].
        intros H. apply ubind_ok_inv in H. destruct H as (x & r1 & H1 & H2).
        apply Hu in H1. apply (Hme _ _ _ _ _ _ Hds) in H2. apply Hds in D. zz.
        rewrite app_length in H2. unfold desum in *. rewrite sumf_app in H2. cbn [sumf fst snd length] in H2.
        tw. lia.
    - (* entry *)
      intros e cur ts v rest. rewrite unmarshal_entry_S.
      destruct (ae_kind e) as [fields|kind wire|members|mode].
      + destruct ts as [|[tv0 tg] r]; [discriminate|].
        destruct tv0; try discriminate.
        * intros H. apply Hf in H. tw. lia.
        * intros H; inversion H; subst. tw. zz. lia.
      + intros H. apply ubind_ok_inv in H. destruct H as (w & r1 & H1 & H2).
        apply Hb in H1. rewrite tweight_untag in H1. destruct (tr_bwd kind w) as [x|] eqn:T; [|discriminate].
        inversion H2; subst. apply tr_bwd_dsize in T. zz. lia.
      + destruct ts as [|[tv0 tg] r]; [discriminate|].
        destruct tv0; try discriminate.
        destruct ((len =? -1) || (len =? 1)); [|discriminate].
        destruct r as [|[v2 tg2] r2]; [discriminate|].
        destruct v2; try discriminate.
        destruct (find _ members) as [[nm mt]|]; [|discriminate].
        destruct (atlas_get A mt) as [me|]; [|discriminate].
        intros H. apply ubind_ok_inv in H. destruct H as (mv & r3 & H1 & H2).
        apply He in H1.
        destruct r3 as [|[v3 tg3] r4]; [discriminate|]. destruct v3; try discriminate.
        inversion H2; subst. tw. zz. cbn [dsize]. lia.
      + destruct (strip_named (ae_type e)); try (destruct ts; discriminate). apply Hm.
    - (* fields *)
      intros st fs len cur cnt ts v rest. rewrite unmarshal_fields_S.
      destruct ts as [|[tv0 tg] r]; [discriminate|].
      destruct tv0; try discriminate.
      + destruct ((0 <=? len) && negb (len =? cnt)); [discriminate|].
        intros H; inversion H; subst. tw. lia.
      + destruct (find _ fs) as [fe|]; [|discriminate].
        destruct (fe_ignore fe).
        * intros H. apply ubind_ok_inv in H. destruct H as (x & r1 & H1 & H2).
          apply Ha in H1. apply Hf in H2. tw. lia.
        * destruct r as [|t0 r0]; [discriminate|].
          destruct (route_get E 50 st cur (fe_route fe)) as [fcur|] eqn:RG; [|discriminate].
          intros H. apply ubind_ok_inv in H. destruct H as (fv & r1 & H1 & H2).
          destruct (route_set E 50 st cur (fe_route fe) fv) as [cur'|] eqn:RS; [|discriminate].
          apply Hu in H1. apply Hf in H2.
          pose proof (route_dsize E _ _ _ _ _ _ _ RG RS) as HR.
          rewrite (tweight_cons (Tok (Str s) tg)). unfold tweight1 at 1. cbn [tv]. lia.
  Qed.

  Lemma sz_all_holds f : sz_all f.
  Proof. induction f; [apply sz_zero | apply sz_step; assumption]. Qed.
End USize.

(* the dynamic part of the value stored is strictly covered by the weight of the
   tokens consumed (one unit per token plus its payload bytes) and what the slot
   held before; no declared length, no type size appears *)
Theorem unmarshal_size_linear : forall E A f t cur ts v rest,
  unmarshal E A f t cur ts = UOk v rest ->
  (dsize v + 1 + tweight rest <= dsize cur + tweight ts)%nat.
Proof. intros E A f t cur ts v rest H. destruct (sz_all_holds E A f) as (Hu & _). eapply Hu; eauto. Qed.
Print Assumptions unmarshal_size_linear.


Lemma tweight_app a b : tweight (a ++ b) = (tweight a + tweight b)%nat.
Proof. apply sumf_app. Qed.

Lemma tweight_ge_length ts : (length ts <= tweight ts)%nat.
Proof.
  induction ts as [|t r IH]; [cbn; lia|]. rewrite tweight_cons. pose proof (tweight1_pos t). cbn [length]. lia.
Qed.

(* in terms of the tokens used *)
Corollary unmarshal_size_used : forall E A f t cur used rest v,
  unmarshal E A f t cur (used ++ rest) = UOk v rest ->
  (dsize v < dsize cur + tweight used)%nat.
Proof.
  intros E A f t cur used rest v H. apply unmarshal_size_linear in H.
  rewrite tweight_app in H. lia.
Qed.

(* a fixed-size array has exactly the length its type says, whatever arrived *)
Lemma unmarshal_array_length E A : forall f n et acc ts v rest,
  unmarshal_array E A f n et acc ts = UOk v rest -> (length acc <= n)%nat ->
  exists l, v = GVArr l /\ length l = n.
Proof.
  induction f as [|f IH]; intros n et acc ts v rest; [discriminate|].
  rewrite unmarshal_array_S.
  destruct ts as [|[tv0 tg] r]; [discriminate|].
  assert (Hgen : (if Nat.leb n (length acc) then UErr (length (Tok tv0 tg :: r))
                  else ubind (unmarshal E A f et (zero_of E et) (Tok tv0 tg :: r))
                         (fun x r => unmarshal_array E A f n et (x :: acc) r)) = UOk v rest ->
                 (length acc <= n)%nat -> exists l, v = GVArr l /\ length l = n).
  { destruct (Nat.leb n (length acc)) eqn:L; [discriminate|].
    intros H Hle. apply ubind_ok_inv in H. destruct H as (x & r1 & H1 & H2).
    apply IH in H2; [exact H2|]. cbn [length]. apply Nat.leb_gt in L. lia. }
  destruct tv0; try exact Hgen; try discriminate.
  intros H Hle; inversion H; subst. eexists; split; [reflexivity|].
  rewrite app_length, rev_length, repeat_length. lia.
Qed.

(* ---------- the structural size does need the type --------------------------- *)

(* [gsize v <= gsize cur + K * tokens] is false for every K: four tokens build a
   slice holding one zero-padded array of any length N *)
Lemma lsum_repeat x n : lsum (repeat x n) = (n * gsize x)%nat.
Proof. induction n as [|n IH]; [reflexivity|]. cbn [repeat]. rewrite lsum_cons, IH. lia. Qed.

Theorem gsize_bound_needs_type_term : forall K : nat,
  exists t ts v,
    unmarshal [] empty_atlas 20 t (zero 50 [] t) ts = UOk v [] /\
    (gsize v > gsize (zero 50 [] t) + K * length ts)%nat.
Proof.
  intros K.
  exists (GSlice (GArr (4 * K) (GNum I64))),
         [Tok (ArrOpen 1) None; Tok (ArrOpen 0) None; Tok ArrClose None; Tok ArrClose None],
         (VSlice (Some [GVArr (repeat (VNum 0) (4 * K - 0))])).
  split; [reflexivity|].
  change (zero 50 [] (GSlice (GArr (4 * K) (GNum I64)))) with (VSlice None).
  rewrite gsize_slice, lsum_cons, gsize_arr, lsum_repeat. cbn [lsum sumf gsize length]. lia.
Qed.

(* and it grows with every element, so a type-size term added once is not enough
   either: ten empty arrays (22 tokens) into []([1000]int64) *)
Example gsize_grows_by_type_size_per_element :
  match unmarshal [] empty_atlas 40 (GSlice (GArr 1000 (GNum I64))) (VSlice None)
          (Tok (ArrOpen 10) None ::
           flat_map (fun _ => [Tok (ArrOpen 0) None; Tok ArrClose None]) (seq 0 10) ++ [Tok ArrClose None]) with
  | UOk v [] => gsize v = (10 * 1001 + 1)%nat /\ dsize v = 10%nat
  | _ => False
  end.
Proof. vm_compute. split; reflexivity. Qed.

(* ---------- declared lengths are not used to size anything ------------------- *)

Example ex_declared_length_ignored_slice :
  unmarshal [] empty_atlas 20 (GSlice (GNum I64)) (VSlice None)
    [Tok (ArrOpen 4611686018427387904) None; Tok (Int 7) None; Tok ArrClose None]
  = UOk (VSlice (Some [VNum 7])) [].
Proof. vm_compute. reflexivity. Qed.

Example ex_declared_length_ignored_map :
  unmarshal [] empty_atlas 20 GAny (VAny None)
    [Tok (MapOpen 4611686018427387904) None; Tok (Str [107]) None; Tok (Int 7) None; Tok MapClose None]
  = UOk (VAny (Some (GMap GStr GAny,
                     GVMap (Some [(GVStr [107], VAny (Some (GNum IInt, VNum 7)))])))) [].
Proof. vm_compute. reflexivity. Qed.

Example ex_declared_length_starved :
  unmarshal [] empty_atlas 20 (GSlice (GNum I64)) (VSlice None)
    [Tok (ArrOpen 4611686018427387904) None] = UStarved.
Proof. vm_compute. reflexivity. Qed.

Print Assumptions unmarshal_size_used.
Print Assumptions unmarshal_array_length.
Print Assumptions gsize_bound_needs_type_term.
