(* FaultProof.v — write faults are reported (C16): if the faulty Write call is
   one of the calls the document needs, the run returns the error, at or
   before the token on which the fault-free run would have finished. *)
From Coq Require Import List ZArith Bool Lia.
Require Import Tok CborEnc JsonEnc Writer.
Import ListNotations.
Open Scope Z_scope.

(* ---------- auxiliary lemmas ---------------------------------------------- *)

Lemma hits_cons : forall p nw c rest,
  hits p nw (c :: rest) =
  ((Nat.eqb (S nw) (wk p) || (wstop p && Nat.leb (wk p) (S nw))) && effective (wkind p) c)
  || hits p (S nw) rest.
Proof. reflexivity. Qed.

Lemma hits_false : forall p (out : list chunk) nw,
  (nw + length out < wk p)%nat -> hits p nw out = false.
Proof.
  intros p out; induction out as [|c rest IH]; intros nw H.
  - reflexivity.
  - rewrite hits_cons. simpl length in H. rewrite IH by lia.
    assert (E1 : Nat.eqb (S nw) (wk p) = false) by (apply Nat.eqb_neq; lia).
    assert (E2 : Nat.leb (wk p) (S nw) = false) by (apply Nat.leb_gt; lia).
    rewrite E1, E2. rewrite andb_false_r. reflexivity.
Qed.

Lemma hits_true : forall p (out : list chunk) nw,
  (nw < wk p <= nw + length out)%nat ->
  effective (wkind p) (nth (wk p - 1 - nw) out []) = true ->
  hits p nw out = true.
Proof.
  intros p out; induction out as [|c rest IH]; intros nw H E.
  - simpl in H. lia.
  - rewrite hits_cons. simpl length in H.
    destruct (Nat.eq_dec (S nw) (wk p)) as [Heq|Hne].
    + replace (wk p - 1 - nw)%nat with 0%nat in E by lia.
      simpl in E. apply Nat.eqb_eq in Heq. rewrite Heq, E. reflexivity.
    + rewrite (IH (S nw)).
      * apply orb_true_r.
      * lia.
      * destruct (wk p - 1 - nw)%nat as [|k] eqn:K; [lia|].
        replace (wk p - 1 - S nw)%nat with k by lia. simpl in E. exact E.
Qed.

(* ---------- CBOR ------------------------------------------------------------ *)

Lemma enc_run_finished : forall ts s acc n chunks used,
  enc_run s ts acc n = Finished chunks used ->
  (n < used)%nat /\ exists more, chunks = acc ++ more.
Proof.
  induction ts as [|t rest IH]; intros s acc n chunks used H; simpl in H.
  - discriminate.
  - destruct (enc_step s t) as [[s' out] r] eqn:ES.
    destruct r; try discriminate.
    + apply IH in H. destruct H as [Hn [more Hm]].
      split; [lia|]. exists (out ++ more). rewrite Hm, app_assoc. reflexivity.
    + inversion H; subst. split; [lia|]. exists out. reflexivity.
Qed.

Lemma nth_step_chunk : forall (acc out more : list chunk) k,
  (length acc < k <= length acc + length out)%nat ->
  nth (k - 1) ((acc ++ out) ++ more) [] = nth (k - 1 - length acc) out [].
Proof.
  intros acc out more k H.
  rewrite app_nth1 by (rewrite app_length; lia).
  rewrite app_nth2 by lia. reflexivity.
Qed.

Lemma cbor_fault_gen : forall ts s acc n chunks used p,
  enc_run s ts acc n = Finished chunks used ->
  (length acc < wk p <= length chunks)%nat ->
  effective (wkind p) (nth (wk p - 1) chunks []) = true ->
  exists j, (n < j <= used)%nat /\ enc_run_w p s ts (length acc) n = WReported j.
Proof.
  induction ts as [|t rest IH]; intros s acc n chunks used p H R E; simpl in H.
  - discriminate.
  - simpl. destruct (enc_step s t) as [[s' out] r] eqn:ES.
    destruct r; try discriminate.
    + (* RCont *)
      destruct (hits p (length acc) out) eqn:HH.
      * exists (S n). apply enc_run_finished in H. destruct H as [Hn _].
        split; [lia|reflexivity].
      * pose proof (enc_run_finished _ _ _ _ _ _ H) as [Hn [more Hm]].
        assert (G : (length acc + length out < wk p)%nat).
        { destruct (le_lt_dec (wk p) (length acc + length out)) as [Hle|Hgt]; [|exact Hgt].
          exfalso. rewrite Hm in E. rewrite nth_step_chunk in E by lia.
          assert (HT : hits p (length acc) out = true) by (apply hits_true; [lia|exact E]).
          congruence. }
        destruct (IH s' (acc ++ out) (S n) chunks used p H) as [j [Hj Hr]].
        { rewrite app_length. lia. }
        { exact E. }
        exists j. split; [lia|]. rewrite app_length in Hr. exact Hr.
    + (* RDone *)
      inversion H; subst chunks used.
      rewrite app_length in R.
      replace (acc ++ out) with ((acc ++ out) ++ []) in E by apply app_nil_r.
      rewrite nth_step_chunk in E by lia.
      assert (HT : hits p (length acc) out = true) by (apply hits_true; [lia|exact E]).
      rewrite HT.
      exists (S n). split; [lia|reflexivity].
Qed.

Lemma cbor_nofault_gen : forall ts s acc n chunks used p,
  enc_run s ts acc n = Finished chunks used ->
  (length chunks < wk p)%nat ->
  enc_run_w p s ts (length acc) n = WFinished used.
Proof.
  induction ts as [|t rest IH]; intros s acc n chunks used p H R; simpl in H.
  - discriminate.
  - simpl. destruct (enc_step s t) as [[s' out] r] eqn:ES.
    destruct r; try discriminate.
    + pose proof (enc_run_finished _ _ _ _ _ _ H) as [Hn [more Hm]].
      assert (L : (length acc + length out <= length chunks)%nat).
      { rewrite Hm. rewrite !app_length. lia. }
      rewrite hits_false by lia.
      specialize (IH s' (acc ++ out) (S n) chunks used p H R).
      rewrite app_length in IH. exact IH.
    + inversion H; subst chunks used. rewrite app_length in R.
      rewrite hits_false by lia. reflexivity.
Qed.

(* ---------- JSON ------------------------------------------------------------ *)

Lemma jprepend_finished : forall out r chunks used,
  jprepend out r = JFinished chunks used ->
  exists c', r = JFinished c' used /\ chunks = out ++ c'.
Proof.
  intros out r chunks used H. destruct r; simpl in H; try discriminate.
  inversion H; subst. eexists; split; reflexivity.
Qed.

Lemma jenc_run_used : forall sh o ts s n chunks used,
  jenc_run sh o s ts n = JFinished chunks used -> (n < used)%nat.
Proof.
  intros sh o; induction ts as [|t rest IH]; intros s n chunks used H; simpl in H.
  - discriminate.
  - destruct (jenc_step sh o s t) as [[s' out] r] eqn:ES.
    destruct r; try discriminate.
    + apply jprepend_finished in H. destruct H as [c' [Hr _]].
      apply IH in Hr. lia.
    + inversion H; subst. lia.
Qed.

Lemma json_fault_gen : forall sh o ts s n nw chunks used p,
  jenc_run sh o s ts n = JFinished chunks used ->
  (nw < wk p <= nw + length chunks)%nat ->
  effective (wkind p) (nth (wk p - 1 - nw) chunks []) = true ->
  exists j, (n < j <= used)%nat /\ jenc_run_w sh o p s ts nw n = WReported j.
Proof.
  intros sh o; induction ts as [|t rest IH]; intros s n nw chunks used p H R E; simpl in H.
  - discriminate.
  - simpl. destruct (jenc_step sh o s t) as [[s' out] r] eqn:ES.
    destruct r; try discriminate.
    + (* RCont *)
      apply jprepend_finished in H. destruct H as [c' [Hr Hc]]. subst chunks.
      rewrite app_length in R.
      pose proof (jenc_run_used _ _ _ _ _ _ _ Hr) as Hn.
      destruct (hits p nw out) eqn:HH.
      * exists (S n). split; [lia|reflexivity].
      * assert (G : (nw + length out < wk p)%nat).
        { destruct (le_lt_dec (wk p) (nw + length out)) as [Hle|Hgt]; [|exact Hgt].
          exfalso. rewrite app_nth1 in E by lia.
          assert (HT : hits p nw out = true) by (apply hits_true; [lia|exact E]).
          congruence. }
        rewrite app_nth2 in E by lia.
        destruct (IH s' (S n) (nw + length out)%nat c' used p Hr) as [j [Hj Hw]].
        { lia. }
        { replace (wk p - 1 - (nw + length out))%nat
            with (wk p - 1 - nw - length out)%nat by lia. exact E. }
        exists j. split; [lia|exact Hw].
    + (* RDone *)
      inversion H; subst chunks used.
      assert (HT : hits p nw out = true) by (apply hits_true; [lia|exact E]).
      rewrite HT.
      exists (S n). split; [lia|reflexivity].
Qed.

(* STATEMENTS TO PROVE (do not change them) *)

Theorem cbor_write_fault_reported : forall ts chunks used p,
  enc_tokens ts = Finished chunks used ->
  (1 <= wk p <= length chunks)%nat ->
  effective (wkind p) (nth (wk p - 1) chunks []) = true ->
  exists j, (1 <= j <= used)%nat /\ cbor_write_faulty p ts = WReported j.
Proof.
  intros ts chunks used p H R E. unfold enc_tokens in H. unfold cbor_write_faulty.
  destruct (cbor_fault_gen ts enc_init [] 0%nat chunks used p H) as [j [Hj Hr]].
  - simpl. lia.
  - exact E.
  - exists j. split; [lia|exact Hr].
Qed.

Theorem json_write_fault_reported : forall sh o ts chunks used p,
  jenc_tokens sh o ts = JFinished chunks used ->
  (1 <= wk p <= length chunks)%nat ->
  effective (wkind p) (nth (wk p - 1) chunks []) = true ->
  exists j, (1 <= j <= used)%nat /\ json_write_faulty sh o p ts = WReported j.
Proof.
  intros sh o ts chunks used p H R E. unfold jenc_tokens in H. unfold json_write_faulty.
  destruct (json_fault_gen sh o ts jenc_init 0%nat 0%nat chunks used p H) as [j [Hj Hr]].
  - lia.
  - rewrite Nat.sub_0_r. exact E.
  - exists j. split; [lia|exact Hr].
Qed.

(* and without an effective fault the run is unchanged *)
Theorem cbor_no_fault_unchanged : forall ts chunks used p,
  enc_tokens ts = Finished chunks used -> (length chunks < wk p)%nat ->
  cbor_write_faulty p ts = WFinished used.
Proof.
  intros ts chunks used p H R. unfold enc_tokens in H. unfold cbor_write_faulty.
  exact (cbor_nofault_gen ts enc_init [] 0%nat chunks used p H R).
Qed.

Print Assumptions cbor_write_fault_reported.
Print Assumptions json_write_fault_reported.
Print Assumptions cbor_no_fault_unchanged.
