(* Properties_C20.v — C20: CBOR tags identify registered types and are never
   silently dropped.  Statements only; proofs in TagProof.v (object layer);
   the byte level — the encoder writes a token's tag head directly before the
   item and the decoder folds it back into the token — is C02/C04
   (rfc_enc / parse_item carry the tag of every node). *)
From Coq Require Import List ZArith.
Require Import Tok GoVal Marshal Unmarshal TagProof.
Import ListNotations.
Open Scope Z_scope.

(* Every value of a type registered with a tag is emitted with exactly that tag on the first token of
   its item.  [marshal_bare] is what every position — top level, struct field, map value, slice element,
   pointer target, untyped slot — calls for the value, so the statement is position-independent. *)
Theorem C20_registered_type_emits_its_tag : forall A f t v ts e tg,
  is_unnamed_prim t = false -> atlas_get A t = Some e -> ae_tag e = Some tg ->
  (match ae_kind e with EStruct _ | ETransform _ _ => True | _ => False end) ->
  marshal_bare A f t v = MOk ts ->
  exists v0 r, ts = Tok v0 (Some tg) :: r.
Proof. exact tagged_type_emits_tag. Qed.
Print Assumptions C20_registered_type_emits_its_tag.

(* tags sit on the first token of an item and nowhere else: the stream is the flattening of a value tree *)
Theorem C20_tags_only_on_item_heads : forall A f t v ts,
  marshal A f t v = MOk ts -> exists n, ts = flatten n.
Proof. exact tags_only_on_item_heads. Qed.

(* untyped position, registered tag: the registered Go type is reconstructed *)
Theorem C20_registered_tag_selects_type : forall E A f v tg r e,
  atlas_by_tag A tg = Some e ->
  unmarshal_any E A (S f) (Tok v (Some tg) :: r) =
  ubind (unmarshal_bare E A f (ae_type e) (zero 50 E (ae_type e)) (Tok v (Some tg) :: r))
        (fun x r' => UOk (VAny (Some (ae_type e, x))) r').
Proof. exact registered_tag_reconstructs_type. Qed.

(* untyped position, unregistered tag: an error on that token, not ignored *)
Theorem C20_unregistered_tag_is_error : forall E A f v tg r,
  atlas_by_tag A tg = None ->
  unmarshal_any E A (S f) (Tok v (Some tg) :: r) = UErr (S (length r)).
Proof. exact unregistered_tag_rejected. Qed.
Theorem C20_unregistered_tag_is_error_top : forall E A f v tg r,
  atlas_by_tag A tg = None -> atlas_get A GAny = None ->
  unmarshal E A (S (S (S (S f)))) GAny (VAny None) (Tok v (Some tg) :: r) = UErr (S (length r)).
Proof. exact untyped_target_unregistered_tag. Qed.
Print Assumptions C20_unregistered_tag_is_error_top.

(* the tag of a transform entry belongs to the transformed type: its serial form is read without it *)
Theorem C20_transform_serial_form_read_without_own_tag : forall E A f e kind wire cur v tg r,
  ae_kind e = ETransform kind wire -> ae_tag e = Some tg ->
  unmarshal_entry E A (S f) e cur (Tok v (Some tg) :: r) =
  ubind (unmarshal_bare E A f wire (zero 50 E wire) (Tok v None :: r))
        (fun w r' => match tr_bwd kind w with Some x => UOk x r' | None => UErr (S (length r')) end).
Proof. exact tagged_transform_hands_on_untagged. Qed.

(* kernel-evaluated: a tagged transform whose serial form is interface{} (the shape of D20), in an untyped slot *)
Definition c20_A9 := Atlas [AE (GStruct 4) (Some 60) (ETransform 9 GAny)] 0.
Example C20_tagged_transform_with_untyped_serial_form :
  let v := VAny (Some (GStruct 4, VStruct [VAny (Some (GStr, GVStr [118]))])) in
  marshal_top [(4, [GAny])] c20_A9 GAny v = MOk [Tok (Str [118]) (Some 60)] /\
  unmarshal_top [(4, [GAny])] c20_A9 GAny [Tok (Str [118]) (Some 60)] = UTDone 1 v.
Proof. vm_compute. split; reflexivity. Qed.

(* kernel-evaluated: a tagged transform inside a slice inside an untyped slot, there and back *)
Definition c20_A := Atlas [AE (GNamed 5 GStr) (Some 50) (ETransform 1 GStr)] 0.
Example C20_tag_inside_untyped_slice :
  marshal_top [] c20_A GAny (VAny (Some (GSlice GAny, VSlice (Some [VAny (Some (GNamed 5 GStr, GVStr [97]))])))) =
  MOk [Tok (ArrOpen 1) None; Tok (Str [110; 58; 97]) (Some 50); Tok ArrClose None] /\
  unmarshal_top [] c20_A GAny [Tok (ArrOpen 1) None; Tok (Str [110; 58; 97]) (Some 50); Tok ArrClose None] =
  UTDone 3 (VAny (Some (GSlice GAny, VSlice (Some [VAny (Some (GNamed 5 GStr, GVStr [97]))])))) /\
  unmarshal_top [] c20_A GAny [Tok (Str [97]) (Some 51)] = UTErr 1.
Proof. vm_compute. repeat split; reflexivity. Qed.
