(* Properties_C20.v — C20: CBOR tags identify registered types and are never
   silently dropped.  Statements only; proofs in TagProof.v (object layer);
   the byte level — the encoder writes a token's tag head directly before the
   item and the decoder folds it back into the token — is C02/C04
   (rfc_enc / parse_item carry the tag of every node). *)
From Coq Require Import List ZArith.
Require Import Tok GoVal Marshal Unmarshal ObjProof TagProof TagPositions.
Import ListNotations.
Open Scope Z_scope.

(* Every value of a type registered with a tag is emitted with exactly that tag on the first token of
   its item.  [marshal_bare] is what every position — top level, struct field, map value, slice element,
   pointer target, untyped slot — calls for the value, so the statement is position-independent. *)
Theorem C20_registered_type_emits_its_tag : forall A f t v ts e tg,
  is_unnamed_prim t = false -> atlas_get A t = Some e -> ae_tag e = Some tg ->
  (match ae_kind e with EStruct _ | ETransform _ _ => True | _ => False end) ->
  marshal_bare A f t v = MOk ts ->
  exists v0 r, ts = Tok v0 (Some tg) :: r.
Proof. exact tagged_type_emits_tag. Qed.
Print Assumptions C20_registered_type_emits_its_tag.

(* tags sit on the first token of an item and nowhere else: the stream is the flattening of a value tree *)
Theorem C20_tags_only_on_item_heads : forall A f t v ts,
  marshal A f t v = MOk ts -> exists n, ts = flatten n.
Proof. exact tags_only_on_item_heads. Qed.

(* untyped position, registered tag: the registered Go type is reconstructed *)
Theorem C20_registered_tag_selects_type : forall E A f v tg r e,
  atlas_by_tag A tg = Some e ->
  unmarshal_any E A (S f) (Tok v (Some tg) :: r) =
  ubind (unmarshal_bare E A f (ae_type e) (zero 50 E (ae_type e)) (Tok v (Some tg) :: r))
        (fun x r' => UOk (VAny (Some (ae_type e, x))) r').
Proof. exact registered_tag_reconstructs_type. Qed.

(* untyped position, unregistered tag: an error on that token, not ignored *)
Theorem C20_unregistered_tag_is_error : forall E A f v tg r,
  atlas_by_tag A tg = None ->
  unmarshal_any E A (S f) (Tok v (Some tg) :: r) = UErr (S (length r)).
Proof. exact unregistered_tag_rejected. Qed.
Theorem C20_unregistered_tag_is_error_top : forall E A f v tg r,
  atlas_by_tag A tg = None -> atlas_get A GAny = None ->
  unmarshal E A (S (S (S (S f)))) GAny (VAny None) (Tok v (Some tg) :: r) = UErr (S (length r)).
Proof. exact untyped_target_unregistered_tag. Qed.
Print Assumptions C20_unregistered_tag_is_error_top.

(* the tag of a transform entry belongs to the transformed type: its serial form is read without it *)
Theorem C20_transform_serial_form_read_without_own_tag : forall E A f e kind wire cur v tg r,
  ae_kind e = ETransform kind wire -> ae_tag e = Some tg ->
  unmarshal_entry E A (S f) e cur (Tok v (Some tg) :: r) =
  ubind (unmarshal_bare E A f wire (zero 50 E wire) (Tok v None :: r))
        (fun w r' => match tr_bwd kind w with Some x => UOk x r' | None => UErr (S (length r')) end).
Proof. exact tagged_transform_hands_on_untagged. Qed.

(* kernel-evaluated: a tagged transform whose serial form is interface{} (the shape of D20), in an untyped slot *)
Definition c20_A9 := Atlas [AE (GStruct 4) (Some 60) (ETransform 9 GAny)] 0.
Example C20_tagged_transform_with_untyped_serial_form :
  let v := VAny (Some (GStruct 4, VStruct [VAny (Some (GStr, GVStr [118]))])) in
  marshal_top [(4, [GAny])] c20_A9 GAny v = MOk [Tok (Str [118]) (Some 60)] /\
  unmarshal_top [(4, [GAny])] c20_A9 GAny [Tok (Str [118]) (Some 60)] = UTDone 1 v.
Proof. vm_compute. split; reflexivity. Qed.

(* kernel-evaluated: a tagged transform inside a slice inside an untyped slot, there and back *)
Definition c20_A := Atlas [AE (GNamed 5 GStr) (Some 50) (ETransform 1 GStr)] 0.
Example C20_tag_inside_untyped_slice :
  marshal_top [] c20_A GAny (VAny (Some (GSlice GAny, VSlice (Some [VAny (Some (GNamed 5 GStr, GVStr [97]))])))) =
  MOk [Tok (ArrOpen 1) None; Tok (Str [110; 58; 97]) (Some 50); Tok ArrClose None] /\
  unmarshal_top [] c20_A GAny [Tok (ArrOpen 1) None; Tok (Str [110; 58; 97]) (Some 50); Tok ArrClose None] =
  UTDone 3 (VAny (Some (GSlice GAny, VSlice (Some [VAny (Some (GNamed 5 GStr, GVStr [97]))])))) /\
  unmarshal_top [] c20_A GAny [Tok (Str [97]) (Some 51)] = UTErr 1.
Proof. vm_compute. repeat split; reflexivity. Qed.

(* ---- "wherever the value occurs": one theorem per position (TagPositions.v) --------------------------------
   [ptrs n t] is t behind n pointers; [tag_or_null tg ts]: ts starts with a token carrying exactly tg, or is the
   single token null (a nil pointer on the way has no item to tag).  The stream of a container is cut into the
   segments of its members; each member of (a pointer to ...) the tagged type starts with the tag. *)
Theorem C20_tag_behind_pointers : forall A f n t v ts e tg,
  peel t = (O, t) -> is_unnamed_prim t = false -> atlas_get A t = Some e -> ae_tag e = Some tg ->
  (match ae_kind e with EStruct _ | ETransform _ _ => True | _ => False end) ->
  marshal A f (ptrs n t) v = MOk ts ->
  (ts = [Tok Null None] /\ deref n v = None) \/ tagged_start tg ts.
Proof. exact tagged_behind_pointers. Qed.
Print Assumptions C20_tag_behind_pointers.

Theorem C20_tag_inside_untyped_slot : forall A f n t v ts e tg,
  peel t = (O, t) -> is_unnamed_prim t = false -> atlas_get A t = Some e -> ae_tag e = Some tg ->
  (match ae_kind e with EStruct _ | ETransform _ _ => True | _ => False end) ->
  marshal_kind A f GAny (VAny (Some (ptrs n t, v))) = MOk ts -> tag_or_null tg ts.
Proof. exact tagged_in_untyped_slot. Qed.

Theorem C20_tag_on_every_slice_element : forall A t e tg n,
  peel t = (O, t) -> is_unnamed_prim t = false -> atlas_get A t = Some e -> ae_tag e = Some tg ->
  (match ae_kind e with EStruct _ | ETransform _ _ => True | _ => False end) ->
  forall f items ts,
  marshal_kind A f (GSlice (ptrs n t)) (VSlice (Some items)) = MOk ts ->
  exists segs, ts = Tok (ArrOpen (Z.of_nat (length items))) None :: concat segs ++ [Tok ArrClose None] /\
    length segs = length items /\ Forall (tag_or_null tg) segs.
Proof. exact tagged_as_slice_element. Qed.

Theorem C20_tag_on_every_array_element : forall A t e tg n,
  peel t = (O, t) -> is_unnamed_prim t = false -> atlas_get A t = Some e -> ae_tag e = Some tg ->
  (match ae_kind e with EStruct _ | ETransform _ _ => True | _ => False end) ->
  forall f k items ts,
  marshal_kind A f (GArr k (ptrs n t)) (GVArr items) = MOk ts ->
  exists segs, ts = Tok (ArrOpen (Z.of_nat (length items))) None :: concat segs ++ [Tok ArrClose None] /\
    length segs = length items /\ Forall (tag_or_null tg) segs.
Proof. exact tagged_as_array_element. Qed.

Theorem C20_tag_on_every_map_value : forall A t e tg n,
  peel t = (O, t) -> is_unnamed_prim t = false -> atlas_get A t = Some e -> ae_tag e = Some tg ->
  (match ae_kind e with EStruct _ | ETransform _ _ => True | _ => False end) ->
  forall f mode kt es ts,
  marshal_map A f mode kt (ptrs n t) (Some es) = MOk ts ->
  exists segs, ts = Tok (MapOpen (Z.of_nat (length es))) None :: concat (map entry_tokens segs) ++ [Tok MapClose None] /\
    length segs = length es /\ Forall (fun ks => tag_or_null tg (snd ks)) segs.
Proof. exact tagged_as_map_value. Qed.

Theorem C20_tag_on_every_struct_field : forall A t e tg n,
  peel t = (O, t) -> is_unnamed_prim t = false -> atlas_get A t = Some e -> ae_tag e = Some tg ->
  (match ae_kind e with EStruct _ | ETransform _ _ => True | _ => False end) ->
  forall f se fields v ts,
  ae_kind se = EStruct fields ->
  marshal_entry A f se v = MOk ts ->
  exists segs, ts = Tok (MapOpen (Z.of_nat (length (live_fields fields v)))) (ae_tag se)
                      :: concat (map field_tokens segs) ++ [Tok MapClose None] /\
    map fst segs = live_fields fields v /\
    Forall (fun fs => fe_type (fst fs) = ptrs n t -> tag_or_null tg (snd fs)) segs.
Proof. exact tagged_as_struct_field. Qed.
Print Assumptions C20_tag_on_every_struct_field.

(* kernel-evaluated, so that the hypotheses are seen to be met: a tagged struct (tag 70000) as a slice element behind
   a pointer (one nil), as a map value and as a field of another struct *)
Definition c20_P := Atlas [AE (GStruct 7) (Some 70000) (EStruct [FE [120] [0%nat] (GNum I64) false false]);
                           AE (GStruct 8) None (EStruct [FE [112] [0%nat] (GPtr (GStruct 7)) false false])] 0.
Example C20_positions_hypotheses_met :
  peel (GStruct 7) = (O, GStruct 7) /\ is_unnamed_prim (GStruct 7) = false /\
  (exists e, atlas_get c20_P (GStruct 7) = Some e /\ ae_tag e = Some 70000) /\
  marshal_top [] c20_P (GSlice (GPtr (GStruct 7))) (VSlice (Some [VPtr (Some (VStruct [VNum 5])); VPtr None])) =
    MOk [Tok (ArrOpen 2) None; Tok (MapOpen 1) (Some 70000); Tok (Str [120]) None; Tok (Int 5) None; Tok MapClose None;
         Tok Null None; Tok ArrClose None] /\
  marshal_top [] c20_P (GStruct 8) (VStruct [VPtr (Some (VStruct [VNum 5]))]) =
    MOk [Tok (MapOpen 1) None; Tok (Str [112]) None; Tok (MapOpen 1) (Some 70000); Tok (Str [120]) None; Tok (Int 5) None;
         Tok MapClose None; Tok MapClose None].
Proof. vm_compute. repeat split; try reflexivity. eexists; split; reflexivity. Qed.
