(* Properties_C20.v — statements are added as the proofs land (see DESIGN.md). *)
From Coq Require Import List ZArith.
Require Import Tok GoVal Marshal Unmarshal.
Import ListNotations.
Open Scope Z_scope.

Example C20_model_runs :
  unmarshal_top [] (Atlas [] 0) GAny [Tok (ArrOpen 1) None; Tok (Uint 18446744073709551615) None; Tok ArrClose None] =
  UTDone 3 (VAny (Some (GSlice GAny, VSlice (Some [VAny (Some (GNum U64, VNum 18446744073709551615))])))).
Proof. vm_compute. reflexivity. Qed.
