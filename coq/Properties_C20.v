(* Properties_C20.v — C20: CBOR tags identify registered types and are never
   silently dropped.  Statements only; proofs in TagProof.v (object layer);
   the byte level — the encoder writes a token's tag head directly before the
   item and the decoder folds it back into the token — is C02/C04
   (rfc_enc / parse_item carry the tag of every node). *)
From Coq Require Import List ZArith.
Require Import Tok GoVal Marshal Unmarshal TagProof.
Import ListNotations.
Open Scope Z_scope.

(* Every value of a type registered with a tag is emitted with exactly that tag on the first token of
   its item.  [marshal_bare] is what every position — top level, struct field, map value, slice element,
   pointer target, untyped slot — calls for the value, so the statement is position-independent. *)
Theorem C20_registered_type_emits_its_tag : forall A f t v ts e tg,
  is_unnamed_prim t = false -> atlas_get A t = Some e -> ae_tag e = Some tg ->
  (match ae_kind e with EStruct _ | ETransform _ _ => True | _ => False end) ->
  marshal_bare A f t v = MOk ts ->
  exists v0 r, ts = Tok v0 (Some tg) :: r.
Proof. exact tagged_type_emits_tag. Qed.
Print Assumptions C20_registered_type_emits_its_tag.

(* tags sit on the first token of an item and nowhere else: the stream is the flattening of a value tree *)
Theorem C20_tags_only_on_item_heads : forall A f t v ts,
  marshal A f t v = MOk ts -> exists n, ts = flatten n.
Proof. exact tags_only_on_item_heads. Qed.

(* untyped position, registered tag: the registered Go type is reconstructed *)
Theorem C20_registered_tag_selects_type : forall E A f v tg r e,
  atlas_by_tag A tg = Some e ->
  unmarshal_any E A (S f) (Tok v (Some tg) :: r) =
  ubind (unmarshal_bare E A f (ae_type e) (zero 50 E (ae_type e)) (Tok v (Some tg) :: r))
        (fun x r' => UOk (VAny (Some (ae_type e, x))) r').
Proof. exact registered_tag_reconstructs_type. Qed.

(* untyped position, unregistered tag: an error on that token, not ignored *)
Theorem C20_unregistered_tag_is_error : forall E A f v tg r,
  atlas_by_tag A tg = None ->
  unmarshal_any E A (S f) (Tok v (Some tg) :: r) = UErr (S (length r)).
Proof. exact unregistered_tag_rejected. Qed.
Theorem C20_unregistered_tag_is_error_top : forall E A f v tg r,
  atlas_by_tag A tg = None -> atlas_get A GAny = None ->
  unmarshal E A (S (S (S (S f)))) GAny (VAny None) (Tok v (Some tg) :: r) = UErr (S (length r)).
Proof. exact untyped_target_unregistered_tag. Qed.
Print Assumptions C20_unregistered_tag_is_error_top.

(* kernel-evaluated: a tagged transform inside a slice inside an untyped slot, there and back *)
Definition c20_A := Atlas [AE (GNamed 5 GStr) (Some 50) (ETransform 1 GStr)] 0.
Example C20_tag_inside_untyped_slice :
  marshal_top [] c20_A GAny (VAny (Some (GSlice GAny, VSlice (Some [VAny (Some (GNamed 5 GStr, GVStr [97]))])))) =
  MOk [Tok (ArrOpen 1) None; Tok (Str [110; 58; 97]) (Some 50); Tok ArrClose None] /\
  unmarshal_top [] c20_A GAny [Tok (ArrOpen 1) None; Tok (Str [110; 58; 97]) (Some 50); Tok ArrClose None] =
  UTDone 3 (VAny (Some (GSlice GAny, VSlice (Some [VAny (Some (GNamed 5 GStr, GVStr [97]))])))) /\
  unmarshal_top [] c20_A GAny [Tok (Str [97]) (Some 51)] = UTErr 1.
Proof. vm_compute. repeat split; reflexivity. Qed.
