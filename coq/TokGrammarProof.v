(* TokGrammarProof.v — the specification context machine (TokGrammar.v)
   recognises exactly the token renderings of value trees:
   G1 it signals done exactly at the end of a [flatten] image,
   G2 whenever it signals done the tokens consumed are a [flatten] image,
   G3 a prefix it has not rejected can always be completed to a value,
   G4 the token it rejects cannot continue any value. *)
From Coq Require Import List ZArith Bool Lia.
Require Import Tok TokGrammar.
Import ListNotations.
Open Scope Z_scope.

(* all map keys are scalars the format allows as keys *)
Fixpoint wf_keys (key_ok : tokv -> bool) (n : tnode) : Prop :=
  match n with
  | Node _ v =>
    match v with
    | VArr _ items => fold_right (fun x acc => wf_keys key_ok x /\ acc) True items
    | VMap _ es =>
        fold_right (fun kv acc =>
           (match fst kv with Node _ kvv => is_leaf kvv = true /\ key_ok (leaf_tok kvv) = true end
            /\ wf_keys key_ok (snd kv)) /\ acc) True es
    | _ => True
    end
  end.

(* close tokens carry no tag in a [flatten] image; a consumer ignores it *)
Definition norm_tok (t : token) : token :=
  match tv t with MapClose | ArrClose => Tok (tv t) None | _ => t end.

(* ====================================================================== *)
(* Auxiliary development                                                   *)
(* ====================================================================== *)

Lemma fold_and_Forall {A} (P : A -> Prop) (l : list A) :
  fold_right (fun x acc => P x /\ acc) True l <-> Forall P l.
Proof.
  induction l as [|x xs IH]; simpl.
  - split; intros; [constructor | exact I].
  - split; intros H.
    + destruct H as [H1 H2]. constructor; [exact H1 | apply IH; exact H2].
    + inversion H; subst. split; [assumption | apply IH; assumption].
Qed.

Section Proofs.
Variable key_ok : tokv -> bool.

Definition key_wf (k : tnode) : Prop :=
  match k with Node _ kvv => is_leaf kvv = true /\ key_ok (leaf_tok kvv) = true end.
Definition entry_wf (kv : tnode * tnode) : Prop :=
  key_wf (fst kv) /\ wf_keys key_ok (snd kv).
Definition flat_entry (kv : tnode * tnode) : list token :=
  flatten (fst kv) ++ flatten (snd kv).

Lemma wf_arr tg d items :
  wf_keys key_ok (Node tg (VArr d items)) <-> Forall (wf_keys key_ok) items.
Proof. exact (fold_and_Forall (wf_keys key_ok) items). Qed.

Lemma wf_map tg d es :
  wf_keys key_ok (Node tg (VMap d es)) <-> Forall entry_wf es.
Proof. exact (fold_and_Forall entry_wf es). Qed.

Lemma flatten_arr tg d items :
  flatten (Node tg (VArr d items)) =
  Tok (ArrOpen d) tg :: flat_map flatten items ++ [Tok ArrClose None].
Proof. reflexivity. Qed.

Lemma flatten_map tg d es :
  flatten (Node tg (VMap d es)) =
  Tok (MapOpen d) tg :: flat_map flat_entry es ++ [Tok MapClose None].
Proof. reflexivity. Qed.

(* ---------- the run, one step at a time -------------------------------- *)

Definition run_cont (r : cres) (rest : list token) (k : nat) : crun :=
  match r with
  | CCont c' => ctx_run key_ok c' rest k
  | CDone => CRDone k
  | CErr => CRErr k
  end.

Lemma ctx_run_cons c t rest k :
  ctx_run key_ok c (t :: rest) k = run_cont (ctx_step key_ok c (tv t)) rest (S k).
Proof. reflexivity. Qed.

Definition val_due (c : ctx) : Prop :=
  match c with FMapKey :: _ => False | _ => True end.

Lemma after_close_eq r : after_close r = after_value_ctx r.
Proof. destruct r as [|[] r]; reflexivity. Qed.

Lemma step_leaf c v :
  val_due c -> is_leaf v = true -> ctx_step key_ok c (leaf_tok v) = after_value_ctx c.
Proof.
  destruct c as [|[] r]; destruct v; simpl; intros Hc Hl;
    try reflexivity; try discriminate; try contradiction.
Qed.

Lemma step_key r v :
  is_leaf v = true -> key_ok (leaf_tok v) = true ->
  ctx_step key_ok (FMapKey :: r) (leaf_tok v) = CCont (FMapVal :: r).
Proof.
  destruct v; simpl; intros H1 H2; try discriminate; rewrite H2; reflexivity.
Qed.

(* ---------- G1: completeness ------------------------------------------- *)

Definition runs_ok (n : tnode) : Prop :=
  wf_keys key_ok n -> forall c rest k, val_due c ->
  ctx_run key_ok c (flatten n ++ rest) k =
  run_cont (after_value_ctx c) rest (k + length (flatten n)).

Lemma run_items c items :
  Forall runs_ok items -> Forall (wf_keys key_ok) items ->
  forall rest k,
  ctx_run key_ok (FArr :: c) (flat_map flatten items ++ rest) k =
  ctx_run key_ok (FArr :: c) rest (k + length (flat_map flatten items)).
Proof.
  induction 1 as [|x xs Hx _ IH]; intros Hwf rest k.
  - simpl. f_equal. lia.
  - inversion Hwf as [|? ? Hwx Hwxs]; subst.
    cbn [flat_map]. rewrite <- app_assoc.
    rewrite (Hx Hwx (FArr :: c) _ k I).
    cbn [after_value_ctx run_cont].
    rewrite (IH Hwxs). f_equal. rewrite app_length. lia.
Qed.

Lemma run_entries c es :
  Forall (fun kv => runs_ok (fst kv) /\ runs_ok (snd kv)) es -> Forall entry_wf es ->
  forall rest k,
  ctx_run key_ok (FMapKey :: c) (flat_map flat_entry es ++ rest) k =
  ctx_run key_ok (FMapKey :: c) rest (k + length (flat_map flat_entry es)).
Proof.
  induction 1 as [|[kn vn] xs [_ Hv] _ IH]; intros Hwf rest k.
  - simpl. f_equal. lia.
  - inversion Hwf as [|? ? [Hwk Hwv] Hwxs]; subst.
    cbn [fst snd] in *.
    cbn [flat_map]. unfold flat_entry at 1. cbn [fst snd].
    destruct kn as [tgk kvv]. destruct Hwk as [Hleaf Hok].
    rewrite (flatten_leaf tgk kvv Hleaf).
    rewrite <- !app_assoc. cbn [app].
    rewrite ctx_run_cons. cbn [tv].
    rewrite (step_key c kvv Hleaf Hok). cbn [run_cont].
    rewrite (Hv Hwv (FMapVal :: c) _ (S k) I).
    cbn [after_value_ctx run_cont].
    rewrite (IH Hwxs). f_equal.
    unfold flat_entry at 2. cbn [fst snd]. rewrite (flatten_leaf tgk kvv Hleaf).
    rewrite !app_length. cbn [length]. lia.
Qed.

Lemma run_flatten n : runs_ok n.
Proof.
  induction n as [tg v Hv | tg d items IH | tg d es IH] using tnode_ind'.
  - intros _ c rest k Hc.
    assert (Hl : is_leaf v = true) by (destruct v; try contradiction; reflexivity).
    rewrite (flatten_leaf tg v Hl). cbn [app length].
    rewrite ctx_run_cons. cbn [tv]. rewrite (step_leaf c v Hc Hl).
    f_equal. lia.
  - intros Hwf c rest k Hc. apply wf_arr in Hwf.
    rewrite flatten_arr. cbn [app].
    rewrite ctx_run_cons. cbn [tv].
    assert (Hs : ctx_step key_ok c (ArrOpen d) = CCont (FArr :: c))
      by (destruct c as [|[] r]; try contradiction; reflexivity).
    rewrite Hs. cbn [run_cont].
    rewrite <- app_assoc. rewrite (run_items c items IH Hwf).
    cbn [app]. rewrite ctx_run_cons. cbn [tv ctx_step].
    rewrite after_close_eq. f_equal.
    cbn [length]. rewrite app_length. cbn [length]. lia.
  - intros Hwf c rest k Hc. apply wf_map in Hwf.
    rewrite flatten_map. cbn [app].
    rewrite ctx_run_cons. cbn [tv].
    assert (Hs : ctx_step key_ok c (MapOpen d) = CCont (FMapKey :: c))
      by (destruct c as [|[] r]; try contradiction; reflexivity).
    rewrite Hs. cbn [run_cont].
    rewrite <- app_assoc. rewrite (run_entries c es IH Hwf).
    cbn [app]. rewrite ctx_run_cons. cbn [tv ctx_step].
    rewrite after_close_eq. f_equal.
    cbn [length]. rewrite app_length. cbn [length]. lia.
Qed.

(* ---------- G2/G3: soundness via a stack of partial containers ---------- *)

Inductive pframe :=
| PArr (tg : option Z) (d : Z) (ritems : list tnode)
| PMap (tg : option Z) (d : Z) (rentries : list (tnode * tnode)) (pk : option tnode).

Definition pf_frame (f : pframe) : frame :=
  match f with
  | PArr _ _ _ => FArr
  | PMap _ _ _ None => FMapKey
  | PMap _ _ _ (Some _) => FMapVal
  end.

Definition pctx (s : list pframe) : ctx := map pf_frame s.

Definition pf_render (f : pframe) : list token :=
  match f with
  | PArr tg d ri => Tok (ArrOpen d) tg :: flat_map flatten (rev ri)
  | PMap tg d re pk =>
      Tok (MapOpen d) tg :: flat_map flat_entry (rev re)
        ++ match pk with Some k => flatten k | None => [] end
  end.

Fixpoint prender (s : list pframe) : list token :=
  match s with
  | [] => []
  | f :: r => prender r ++ pf_render f
  end.

Definition pf_wf (f : pframe) : Prop :=
  match f with
  | PArr _ _ ri => Forall (wf_keys key_ok) ri
  | PMap _ _ re pk =>
      Forall entry_wf re /\ match pk with Some k => key_wf k | None => True end
  end.

Definition fval_due (f : pframe) : Prop :=
  match f with PMap _ _ _ None => False | _ => True end.

Definition pwf (s : list pframe) : Prop :=
  Forall pf_wf s /\ Forall fval_due (tl s).

Definition pushv (f : pframe) (n : tnode) : pframe :=
  match f with
  | PArr tg d ri => PArr tg d (n :: ri)
  | PMap tg d re (Some k) => PMap tg d ((k, n) :: re) None
  | PMap tg d re None => f
  end.

Lemma pushv_ok f r n :
  pwf (f :: r) -> fval_due f -> wf_keys key_ok n ->
  after_value_ctx (pctx (f :: r)) = CCont (pctx (pushv f n :: r)) /\
  pwf (pushv f n :: r) /\
  prender (pushv f n :: r) = prender (f :: r) ++ flatten n.
Proof.
  intros [Hw Hd] Hf Hn. inversion Hw as [|? ? Hwf Hwr]; subst.
  cbn [tl] in Hd.
  destruct f as [tg d ri | tg d re [k|]]; cbn in Hf; try contradiction.
  - split; [reflexivity|]. split.
    + split; [|exact Hd]. constructor; [|exact Hwr].
      cbn. constructor; assumption.
    + cbn [pushv prender pf_render rev]. rewrite flat_map_app.
      cbn [flat_map]. rewrite app_nil_r.
      rewrite <- !app_assoc. reflexivity.
  - split; [reflexivity|]. destruct Hwf as [Hre Hk]. split.
    + split; [|exact Hd]. constructor; [|exact Hwr].
      cbn. split; [|exact I]. constructor; [|exact Hre].
      split; assumption.
    + cbn [pushv prender pf_render rev]. rewrite flat_map_app.
      cbn [flat_map]. unfold flat_entry at 2. cbn [fst snd].
      rewrite !app_nil_r.
      rewrite <- !app_assoc. cbn [app]. rewrite <- !app_assoc. reflexivity.
Qed.

Definition step_good (res : cres) (toks : list token) : Prop :=
  match res with
  | CCont c' => exists s', pctx s' = c' /\ pwf s' /\ prender s' = toks
  | CDone => exists n, wf_keys key_ok n /\ flatten n = toks
  | CErr => True
  end.

Lemma push_value_ok s n :
  pwf s -> match s with f :: _ => fval_due f | [] => True end -> wf_keys key_ok n ->
  step_good (after_value_ctx (pctx s)) (prender s ++ flatten n).
Proof.
  intros Hs Hd Hn. destruct s as [|f r].
  - cbn. exists n. split; [assumption | reflexivity].
  - destruct (pushv_ok f r n Hs Hd Hn) as (E & Hw & Hr).
    rewrite E. cbn [step_good]. exists (pushv f n :: r). auto.
Qed.

Lemma pwf_tail f r : pwf (f :: r) -> pwf r /\ match r with g :: _ => fval_due g | [] => True end.
Proof.
  intros [Hw Hd]. inversion Hw; subst. cbn [tl] in Hd.
  split.
  - split; [assumption|]. destruct r; [constructor|]. inversion Hd; assumption.
  - destruct r; [exact I|]. inversion Hd; assumption.
Qed.

Lemma pwf_push_new f s :
  pwf s -> match s with g :: _ => fval_due g | [] => True end -> pf_wf f -> pwf (f :: s).
Proof.
  intros [Hw Hd] Hh Hf. split.
  - constructor; assumption.
  - cbn [tl]. destruct s as [|g r]; [constructor|]. constructor; assumption.
Qed.

Lemma norm_open_or_scalar v tg :
  match v with MapClose | ArrClose => False | _ => True end ->
  norm_tok (Tok v tg) = Tok v tg.
Proof. destruct v; intros H; try contradiction; reflexivity. Qed.

Lemma leaf_of_tok v l : leaf_of v = Some l -> is_leaf l = true /\ leaf_tok l = v.
Proof. destruct v; simpl; intros H; inversion H; subst; split; reflexivity. Qed.

Lemma wf_leaf tg l : is_leaf l = true -> wf_keys key_ok (Node tg l).
Proof. destruct l; simpl; intros H; try exact I; discriminate. Qed.

(* a scalar token arriving where a value is due *)
Lemma step_scalar_ok s v tg l :
  pwf s -> match s with f :: _ => fval_due f | [] => True end ->
  leaf_of v = Some l ->
  step_good (ctx_step key_ok (pctx s) v) (prender s ++ [norm_tok (Tok v tg)]).
Proof.
  intros Hs Hd Hl. destruct (leaf_of_tok v l Hl) as [Hleaf Hv].
  assert (Hc : val_due (pctx s)).
  { destruct s as [|[? ? ?|? ? ? [?|]] r]; cbn in *; auto. }
  rewrite <- Hv at 1. rewrite (step_leaf _ l Hc Hleaf).
  replace [norm_tok (Tok v tg)] with (flatten (Node tg l)).
  - apply push_value_ok; auto. apply wf_leaf; assumption.
  - rewrite (flatten_leaf tg l Hleaf), Hv.
    rewrite norm_open_or_scalar; [reflexivity|].
    destruct v; try exact I; discriminate.
Qed.

Lemma step_open_val_due s v :
  match s with f :: _ => fval_due f | [] => True end ->
  ctx_step key_ok (pctx s) v =
  match v with
  | MapOpen _ => CCont (FMapKey :: pctx s)
  | ArrOpen _ => CCont (FArr :: pctx s)
  | ArrClose => match pctx s with FArr :: r => after_close r | _ => CErr end
  | MapClose => CErr
  | _ => after_value_ctx (pctx s)
  end.
Proof.
  destruct s as [|[? ? ?|? ? ? [?|]] r]; cbn; intros H; try contradiction; reflexivity.
Qed.

Lemma pstep_ok s t :
  pwf s -> step_good (ctx_step key_ok (pctx s) (tv t)) (prender s ++ [norm_tok t]).
Proof.
  intros Hs. destruct t as [v tg]. cbn [tv].
  assert (Hdue : forall f r, s = f :: r -> fval_due f ->
                 match s with g :: _ => fval_due g | [] => True end).
  { intros f r -> H; exact H. }
  destruct s as [|f r].
  - (* top level *)
    destruct v; try exact I;
      try (eapply step_scalar_ok; [exact Hs | exact I | reflexivity]).
    + cbn. exists [PMap tg len [] None]. split; [reflexivity|]. split; [|reflexivity].
      split; [|constructor]. constructor; [|constructor]. cbn. split; [constructor|exact I].
    + cbn. exists [PArr tg len []]. split; [reflexivity|]. split; [|reflexivity].
      split; [|constructor]. constructor; [|constructor]. cbn. constructor.
  - destruct (pwf_tail f r Hs) as [Hr Hrd].
    assert (Hwf : pf_wf f) by (destruct Hs as [Hw _]; inversion Hw; assumption).
    destruct f as [tg0 d0 ri | tg0 d0 re [k|]].
    + (* inside an array *)
      destruct v;
        try (eapply step_scalar_ok; [exact Hs | exact I | reflexivity]).
      * cbn [pctx map pf_frame ctx_step step_good].
        exists (PMap tg len [] None :: PArr tg0 d0 ri :: r).
        split; [reflexivity|]. split; [|reflexivity].
        apply pwf_push_new; [exact Hs | exact I |]. cbn. split; [constructor|exact I].
      * exact I.
      * cbn [pctx map pf_frame ctx_step step_good].
        exists (PArr tg len [] :: PArr tg0 d0 ri :: r).
        split; [reflexivity|]. split; [|reflexivity].
        apply pwf_push_new; [exact Hs | exact I |]. cbn. constructor.
      * (* ArrClose *)
        cbn [pctx map pf_frame ctx_step]. rewrite after_close_eq.
        cbn [prender pf_render]. unfold norm_tok. cbn [tv].
        rewrite <- app_assoc.
        change (Tok (ArrOpen d0) tg0 :: flat_map flatten (rev ri)) with
               ([Tok (ArrOpen d0) tg0] ++ flat_map flatten (rev ri)).
        rewrite <- app_assoc. cbn [app].
        rewrite <- (flatten_arr tg0 d0 (rev ri)).
        apply push_value_ok; [exact Hr | exact Hrd |].
        apply wf_arr. apply Forall_rev. exact Hwf.
    + (* map, value due *)
      destruct v;
        try (eapply step_scalar_ok; [exact Hs | exact I | reflexivity]).
      * cbn [pctx map pf_frame ctx_step step_good].
        exists (PMap tg len [] None :: PMap tg0 d0 re (Some k) :: r).
        split; [reflexivity|]. split; [|reflexivity].
        apply pwf_push_new; [exact Hs | exact I |]. cbn. split; [constructor|exact I].
      * exact I.
      * cbn [pctx map pf_frame ctx_step step_good].
        exists (PArr tg len [] :: PMap tg0 d0 re (Some k) :: r).
        split; [reflexivity|]. split; [|reflexivity].
        apply pwf_push_new; [exact Hs | exact I |]. cbn. constructor.
      * exact I.
    + (* map, key due *)
      destruct Hwf as [Hre _].
      assert (Hkey : forall l, leaf_of v = Some l ->
                step_good (if key_ok v then CCont (FMapVal :: pctx r) else CErr)
                          (prender (PMap tg0 d0 re None :: r) ++ [norm_tok (Tok v tg)])).
      { intros l Hl. destruct (leaf_of_tok v l Hl) as [Hleaf Hv].
        destruct (key_ok v) eqn:Hk; [|exact I].
        cbn [step_good].
        exists (PMap tg0 d0 re (Some (Node tg l)) :: r).
        split; [reflexivity|]. split.
        - split.
          + constructor; [|destruct Hr; assumption].
            cbn. split; [exact Hre|]. split; [exact Hleaf|]. rewrite Hv; exact Hk.
          + cbn [tl]. destruct Hr as [_ Hrt].
            destruct r as [|g r']; [constructor|]. constructor; assumption.
        - cbn [prender pf_render]. rewrite (flatten_leaf tg l Hleaf), Hv.
          rewrite norm_open_or_scalar by (destruct v; try exact I; discriminate).
          rewrite app_nil_r. rewrite <- ?app_assoc. cbn [app].
          rewrite <- ?app_assoc. reflexivity. }
      destruct v; try exact I;
        try (cbn [pctx map pf_frame ctx_step]; eapply Hkey; reflexivity).
      (* MapClose *)
      cbn [pctx map pf_frame ctx_step]. rewrite after_close_eq.
      cbn [prender pf_render]. unfold norm_tok. cbn [tv].
      rewrite app_nil_r. rewrite <- app_assoc.
      change (Tok (MapOpen d0) tg0 :: flat_map flat_entry (rev re)) with
             ([Tok (MapOpen d0) tg0] ++ flat_map flat_entry (rev re)).
      rewrite <- app_assoc. cbn [app].
      rewrite <- (flatten_map tg0 d0 (rev re)).
      apply push_value_ok; [exact Hr | exact Hrd |].
      apply wf_map. apply Forall_rev. exact Hre.
Qed.

Lemma pwf_nil : pwf [].
Proof. split; constructor. Qed.

Lemma run_inv ts : forall s k, pwf s ->
  match ctx_run key_ok (pctx s) ts k with
  | CRDone u => exists j n, u = (k + j)%nat /\ (j <= length ts)%nat /\
                 wf_keys key_ok n /\ flatten n = prender s ++ map norm_tok (firstn j ts)
  | CRStarved c => exists s', pctx s' = c /\ pwf s' /\
                 prender s' = prender s ++ map norm_tok ts
  | CRErr _ => True
  end.
Proof.
  induction ts as [|t rest IH]; intros s k Hs.
  - cbn. exists s. rewrite app_nil_r. auto.
  - rewrite ctx_run_cons. pose proof (pstep_ok s t Hs) as Hstep.
    destruct (ctx_step key_ok (pctx s) (tv t)) as [c'| |]; cbn [run_cont step_good] in *.
    + destruct Hstep as (s' & Hc & Hw & Hr). subst c'.
      specialize (IH s' (S k) Hw).
      destruct (ctx_run key_ok (pctx s') rest (S k)) as [u|u|c].
      * destruct IH as (j & n & Hu & Hj & Hn & Hf).
        exists (S j), n. split; [lia|]. split; [cbn [length]; lia|]. split; [exact Hn|].
        rewrite Hf, Hr. cbn [firstn map]. rewrite <- app_assoc. reflexivity.
      * exact I.
      * destruct IH as (s'' & Hc & Hw' & Hr'). exists s''.
        split; [exact Hc|]. split; [exact Hw'|].
        rewrite Hr', Hr. cbn [map]. rewrite <- app_assoc. reflexivity.
    + destruct Hstep as (n & Hn & Hf). exists 1%nat, n.
      split; [lia|]. split; [cbn [length]; lia|]. split; [exact Hn|].
      rewrite Hf. cbn [firstn map]. reflexivity.
    + exact I.
Qed.

(* closing one partial container *)
Definition pf_close (f : pframe) : list token * tnode :=
  match f with
  | PArr tg d ri => ([Tok ArrClose None], Node tg (VArr d (rev ri)))
  | PMap tg d re None => ([Tok MapClose None], Node tg (VMap d (rev re)))
  | PMap tg d re (Some k) =>
      ([Tok Null None; Tok MapClose None],
       Node tg (VMap d (rev ((k, Node None VNull) :: re))))
  end.

Lemma pf_close_ok f :
  pf_wf f ->
  wf_keys key_ok (snd (pf_close f)) /\
  map norm_tok (fst (pf_close f)) = fst (pf_close f) /\
  flatten (snd (pf_close f)) = pf_render f ++ fst (pf_close f).
Proof.
  destruct f as [tg d ri | tg d re [k|]]; cbn [pf_wf pf_close fst snd]; intros Hw.
  - split; [apply wf_arr, Forall_rev, Hw|]. split; [reflexivity|].
    rewrite flatten_arr. reflexivity.
  - destruct Hw as [Hre Hk]. split.
    + apply wf_map, Forall_rev. constructor; [|exact Hre]. split; [exact Hk | exact I].
    + split; [reflexivity|]. rewrite flatten_map. cbn [rev pf_render].
      rewrite flat_map_app. cbn [flat_map]. unfold flat_entry at 2. cbn [fst snd].
      rewrite app_nil_r. cbn [flatten]. rewrite <- ?app_assoc. cbn [app].
      rewrite <- ?app_assoc. reflexivity.
  - destruct Hw as [Hre _]. split; [apply wf_map, Forall_rev, Hre|].
    split; [reflexivity|]. rewrite flatten_map. cbn [pf_render].
    rewrite app_nil_r. reflexivity.
Qed.

Lemma complete_ne : forall r f, pwf (f :: r) ->
  exists suffix n, wf_keys key_ok n /\ map norm_tok suffix = suffix /\
                   flatten n = prender (f :: r) ++ suffix.
Proof.
  induction r as [|g r' IH]; intros f Hs.
  - assert (Hwf : pf_wf f) by (destruct Hs as [Hw _]; inversion Hw; assumption).
    destruct (pf_close_ok f Hwf) as (H1 & H2 & H3).
    exists (fst (pf_close f)), (snd (pf_close f)). auto.
  - assert (Hwf : pf_wf f) by (destruct Hs as [Hw _]; inversion Hw; assumption).
    destruct (pf_close_ok f Hwf) as (H1 & H2 & H3).
    destruct (pwf_tail f (g :: r') Hs) as [Hr Hg].
    destruct (pushv_ok g r' _ Hr Hg H1) as (_ & Hw' & Hr').
    destruct (IH _ Hw') as (suf & n & Hn & Hsuf & Hfl).
    exists (fst (pf_close f) ++ suf), n.
    split; [exact Hn|]. split.
    + rewrite map_app, H2, Hsuf. reflexivity.
    + rewrite Hfl, Hr', H3. cbn [prender]. rewrite <- !app_assoc. reflexivity.
Qed.

(* ---------- G4 helpers --------------------------------------------------- *)

Lemma tv_norm t : tv (norm_tok t) = tv t.
Proof. destruct t as [v tg]; destruct v; reflexivity. Qed.

Lemma run_norm ts : forall c k,
  ctx_run key_ok c (map norm_tok ts) k = ctx_run key_ok c ts k.
Proof.
  induction ts as [|t rest IH]; intros c k; [reflexivity|].
  cbn [map]. rewrite !ctx_run_cons. rewrite tv_norm.
  destruct (ctx_step key_ok c (tv t)); cbn [run_cont]; auto.
Qed.

Lemma err_prefix ts : forall c k u,
  ctx_run key_ok c ts k = CRErr u ->
  exists j, u = (k + S j)%nat /\
    forall suffix, ctx_run key_ok c (firstn (S j) ts ++ suffix) k = CRErr u.
Proof.
  induction ts as [|t rest IH]; intros c k u H.
  - discriminate.
  - rewrite ctx_run_cons in H.
    destruct (ctx_step key_ok c (tv t)) as [c'| |] eqn:E; cbn [run_cont] in H.
    + apply IH in H. destruct H as (j & Hu & Hs). exists (S j).
      split; [lia|]. intros suffix.
      change (firstn (S (S j)) (t :: rest)) with (t :: firstn (S j) rest).
      rewrite <- app_comm_cons. rewrite ctx_run_cons, E. cbn [run_cont]. apply Hs.
    + discriminate.
    + inversion H; subst. exists 0%nat. split; [lia|]. intros suffix.
      cbn [firstn app]. rewrite ctx_run_cons, E. reflexivity.
Qed.

End Proofs.

(* ====================================================================== *)
(* The four theorems                                                       *)
(* ====================================================================== *)

Theorem ctx_accepts_flatten : forall key_ok n rest k,
  wf_keys key_ok n -> ctx_run key_ok [] (flatten n ++ rest) k = CRDone (k + length (flatten n)).
Proof.
  intros key_ok n rest k Hwf.
  exact (run_flatten key_ok n Hwf [] rest k I).
Qed.

Theorem ctx_done_is_value : forall key_ok ts k used,
  ctx_run key_ok [] ts k = CRDone used ->
  exists n, wf_keys key_ok n /\ (used = k + length (flatten n))%nat /\
            map norm_tok (firstn (length (flatten n)) ts) = flatten n.
Proof.
  intros key_ok ts k used H.
  pose proof (run_inv key_ok ts [] k (pwf_nil key_ok)) as Hinv.
  cbn [pctx map] in Hinv. rewrite H in Hinv.
  destruct Hinv as (j & n & Hu & Hj & Hn & Hf). cbn [prender app] in Hf.
  assert (Hlen : length (flatten n) = j).
  { rewrite Hf, map_length, firstn_length. lia. }
  exists n. split; [exact Hn|]. split; [lia|].
  rewrite Hlen. symmetry. exact Hf.
Qed.

Theorem ctx_starved_is_viable : forall key_ok ts k c,
  ctx_run key_ok [] ts k = CRStarved c ->
  exists suffix n, wf_keys key_ok n /\ map norm_tok (ts ++ suffix) = flatten n.
Proof.
  intros key_ok ts k c H.
  pose proof (run_inv key_ok ts [] k (pwf_nil key_ok)) as Hinv.
  cbn [pctx map] in Hinv. rewrite H in Hinv.
  destruct Hinv as (s' & _ & Hw & Hr). cbn [prender app] in Hr.
  destruct s' as [|f r].
  - exists [Tok Null None], (Node None VNull).
    split; [exact I|]. rewrite map_app, <- Hr. reflexivity.
  - destruct (complete_ne key_ok r f Hw) as (suf & n & Hn & Hsuf & Hfl).
    exists suf, n. split; [exact Hn|].
    rewrite map_app, Hsuf, <- Hr. symmetry. exact Hfl.
Qed.

Theorem ctx_err_not_viable : forall key_ok ts k used,
  ctx_run key_ok [] ts k = CRErr used ->
  ~ exists suffix n, wf_keys key_ok n /\ map norm_tok (firstn (used - k) ts ++ suffix) = flatten n.
Proof.
  intros key_ok ts k used H [suffix [n [Hwf Heq]]].
  destruct (err_prefix key_ok ts [] k used H) as (j & Hu & Hs).
  replace (used - k)%nat with (S j) in Heq by lia.
  specialize (Hs suffix). rewrite <- run_norm in Hs. rewrite Heq in Hs.
  pose proof (ctx_accepts_flatten key_ok n [] k Hwf) as Hd.
  rewrite app_nil_r in Hd. rewrite Hd in Hs. discriminate.
Qed.

Print Assumptions ctx_accepts_flatten.
Print Assumptions ctx_done_is_value.
Print Assumptions ctx_starved_is_viable.
Print Assumptions ctx_err_not_viable.
