(* ReuseFaultProof.v — every call of a history on one long-lived encoder, write faults included, ends as it does on
   a fresh encoder (C17); the behaviour before the fix of D24 is exhibited as a refutation. *)
From Coq Require Import List ZArith Bool Lia.
Require Import Tok CborEnc JsonEnc Writer Reuse ReuseFault.
Import ListNotations.
Open Scope Z_scope.

Lemma healthy_never_hits : forall out nw, hits healthy nw out = false.
Proof. induction out as [|c r IH]; intros nw; cbn [hits healthy wk wstop wkind]; [reflexivity|]. rewrite IH. reflexivity. Qed.

(* with nothing remembered, the explicit-memory run is the run of Writer.v *)
Lemma sticky_is_run_w p : forall ts s nw n, fst (enc_run_sticky p s false ts nw n) = enc_run_w p s ts nw n.
Proof.
  induction ts as [|t rest IH]; intros s nw n; [reflexivity|].
  cbn [enc_run_sticky enc_run_w]. destruct (enc_step s t) as [[s' out] r]. cbn [orb].
  destruct r; try reflexivity; destruct (hits p nw out); try reflexivity. apply IH.
Qed.
Lemma jsticky_is_run_w sh o p : forall ts s nw n, fst (jenc_run_sticky sh o p s false ts nw n) = jenc_run_w sh o p s ts nw n.
Proof.
  induction ts as [|t rest IH]; intros s nw n; [reflexivity|].
  cbn [jenc_run_sticky jenc_run_w]. destruct (jenc_step sh o s t) as [[s' out] r]. cbn [orb].
  destruct r; try reflexivity; destruct (hits p nw out); try reflexivity. apply IH.
Qed.

(* Every call of any history on one long-lived encoder — calls that failed in the writer, in the token stream,
   or were abandoned included — returns what a fresh encoder returns for that call alone. *)
Theorem history_equals_fresh : forall calls st,
  history true st calls = map (fun c => cbor_write_faulty (fst c) (snd c)) calls.
Proof.
  induction calls as [|[p ts] r IH]; intros st; [reflexivity|].
  cbn [history map fst snd]. destruct (call_sticky true p st ts) as [res st'] eqn:E.
  rewrite IH. f_equal. unfold call_sticky in E. unfold cbor_write_faulty.
  rewrite <- (sticky_is_run_w p ts enc_init 0 0). change (enc_reset (fst st)) with enc_init in E. rewrite E. reflexivity.
Qed.
Theorem jhistory_equals_fresh : forall sh o calls st,
  jhistory sh o true st calls = map (fun c => json_write_faulty sh o (fst c) (snd c)) calls.
Proof.
  intros sh o. induction calls as [|[p ts] r IH]; intros st; [reflexivity|].
  cbn [jhistory map fst snd]. destruct (jcall_sticky sh o true p st ts) as [res st'] eqn:E.
  rewrite IH. f_equal. unfold jcall_sticky in E. unfold json_write_faulty.
  rewrite <- (jsticky_is_run_w sh o p ts jenc_init 0 0). change (jenc_reset (fst st)) with jenc_init in E. rewrite E. reflexivity.
Qed.

(* ... in particular a call with a healthy writer after any history finishes exactly like [enc_tokens] *)
Lemma run_w_healthy : forall ts s nw n,
  enc_run_w healthy s ts nw n =
  match enc_run s ts [] n with
  | Finished _ k => WFinished k | Errored _ k => WTokenErr k | Panicked _ _ => WPanic | Starved _ _ => WStarved
  end.
Proof.
  induction ts as [|t rest IH]; intros s nw n; [reflexivity|].
  cbn [enc_run_w enc_run]. destruct (enc_step s t) as [[s' out] r]. rewrite healthy_never_hits.
  destruct r; try reflexivity. rewrite IH.
  (* the accumulated output does not influence the verdict *)
  assert (G : forall ts s a b n, match enc_run s ts a n with
                                 | Finished _ k => WFinished k | Errored _ k => WTokenErr k | Panicked _ _ => WPanic | Starved _ _ => WStarved end =
                                 match enc_run s ts b n with
                                 | Finished _ k => WFinished k | Errored _ k => WTokenErr k | Panicked _ _ => WPanic | Starved _ _ => WStarved end).
  { clear. induction ts as [|t rest IH]; intros s a b n; [reflexivity|].
    cbn [enc_run]. destruct (enc_step s t) as [[s' out] r]. destruct r; try reflexivity. apply IH. }
  apply G.
Qed.

(* the behaviour before the fix of D24: Reset that keeps the remembered error.  One failed write, and the next
   call — healthy writer, valid tokens — reports an error on its first token where a fresh encoder finishes. *)
Example history_without_clearing_refuted :
  let calls := [(WPlan 1 false WErr, [Tok (Int 1) None]); (healthy, [Tok (Int 1) None])] in
  history false (enc_init, false) calls = [WReported 1; WReported 1] /\
  history true (enc_init, false) calls = [WReported 1; WFinished 1] /\
  map (fun c => cbor_write_faulty (fst c) (snd c)) calls = [WReported 1; WFinished 1].
Proof. vm_compute. repeat split; reflexivity. Qed.
