(* JsonFloat.v — decimal text to float64: the correctly rounded value of
   m * 10^e10 (round to nearest, ties to even), as strconv.ParseFloat computes
   it, by exact integer arithmetic.  This is an executable stand-in for
   strconv (not proved against IEEE-754; validated against strconv.ParseFloat
   by the correspondence runs: see DESIGN.md section 4, oracles). *)
From Coq Require Import List ZArith Bool Lia.
Require Import Tok.
Import ListNotations.
Open Scope Z_scope.

Inductive fres := FBits (bits : Z) | FRange.   (* FRange = strconv.ErrRange (overflow) *)

(* round-half-even quotient of num/den (den > 0) *)
Definition div_rne (num den : Z) : Z :=
  let q := num / den in
  let r := num mod den in
  if (den <? 2 * r) || ((den =? 2 * r) && Z.odd q) then q + 1 else q.

Fixpoint ndigits_fuel (fuel : nat) (m : Z) : Z :=
  match fuel with O => 0 | S f => if m <? 10 then 1 else 1 + ndigits_fuel f (m / 10) end.

(* magnitude m * 10^e10 (m >= 0) to the bit pattern of the nearest double (sign bit clear) *)
Definition nearest_pos (m e10 : Z) (nd : Z) : fres :=
  if m =? 0 then FBits 0
  else if 310 <? e10 + nd then FRange
  else if e10 + nd <? -330 then FBits 0
  else
    let num := if 0 <=? e10 then m * 10 ^ e10 else m in
    let den := if 0 <=? e10 then 1 else 10 ^ (- e10) in
    (* e2 = floor(log2 (num/den)) *)
    let g := Z.log2 num - Z.log2 den in
    let e2 := if (if 0 <=? g then num <? den * 2 ^ g else num * 2 ^ (- g) <? den) then g - 1 else g in
    let e2' := Z.max e2 (-1022) in            (* subnormals share the exponent of 2^-1022 *)
    let s := 52 - e2' in                       (* mantissa = round (v * 2^s) *)
    let q := if 0 <=? s then div_rne (num * 2 ^ s) den else div_rne num (den * 2 ^ (- s)) in
    (* q < 2^52: subnormal (field 0); q in [2^52, 2^53]: field e2'+1023, carry handled by addition *)
    let bits := if q <? 4503599627370496 then q else (e2' + 1022) * 4503599627370496 + q in
    if 9218868437227405312 <=? bits then FRange else FBits bits.

Definition nearest (neg : bool) (m e10 : Z) (nd : Z) : fres :=
  match nearest_pos m e10 nd with
  | FBits b => FBits (if neg then b + 9223372036854775808 else b)
  | FRange => FRange
  end.
