(* JsonStrProof.v — the JSON string escaper (JsonEnc.emit_string) and the
   decoder's string reader (JsonDec.dec_string) are inverse up to UTF-8
   coercion, for EVERY byte string; the escaped text contains no raw control
   character, quote or invalid UTF-8. *)
From Coq Require Import List ZArith Bool Lia.
From Coq Require Import ZifyBool ZifyNat.
Require Import Tok CborSpec Utf8 CborDec JsonEnc JsonDec.
Import ListNotations.
Open Scope Z_scope.

(* the characters between the quotes *)
Definition escaped_body (s : bytes) : bytes := concat (emit_str_loop (S (length s)) s []).

(* ======================================================================== *)
(* Auxiliary development                                                     *)
(* ======================================================================== *)

Local Arguments decode_rune : simpl never.
Local Arguments encode_rune : simpl never.
Local Arguments hexdigit : simpl never.
Local Arguments Z.shiftr : simpl never.
Local Arguments Z.land : simpl never.

(* ---------- list helpers -------------------------------------------------- *)

Lemma firstn_len_app {A} (p X : list A) : firstn (length p) (p ++ X) = p.
Proof. induction p as [|a p IH]; cbn; [reflexivity | now rewrite IH]. Qed.

Lemma skipn_len_app {A} (p X : list A) : skipn (length p) (p ++ X) = X.
Proof. induction p as [|a p IH]; cbn; [reflexivity | exact IH]. Qed.

(* brute-force enumeration of the 32 control bytes *)
Lemma below32 (P : Z -> Prop) :
  (forall n, (n < 32)%nat -> P (Z.of_nat n)) -> forall b, 0 <= b < 32 -> P b.
Proof. intros H b Hb. rewrite <- (Z2Nat.id b) by lia. apply H. lia. Qed.

Ltac enum32 tac :=
  match goal with
  | |- forall n, (n < 32)%nat -> _ =>
      let n := fresh "n" in let Hn := fresh "Hn" in
      intros n Hn; do 32 (destruct n as [|n]; [tac|]); exfalso; lia
  end.

(* ---------- well-formed multi-byte sequences ------------------------------ *)

Inductive wf_seq : bytes -> Z -> Prop :=
| wf2 b0 b1 : 194 <= b0 < 224 -> is_cont b1 = true ->
    wf_seq [b0; b1] ((b0 - 192) * 64 + (b1 - 128))
| wf3 b0 b1 b2 : 224 <= b0 < 240 ->
    ((if b0 =? 224 then 160 else 128) <=? b1) && (b1 <=? (if b0 =? 237 then 159 else 191))
      && is_cont b2 = true ->
    wf_seq [b0; b1; b2] ((b0 - 224) * 4096 + (b1 - 128) * 64 + (b2 - 128))
| wf4 b0 b1 b2 b3 : 240 <= b0 < 245 ->
    ((if b0 =? 240 then 144 else 128) <=? b1) && (b1 <=? (if b0 =? 244 then 143 else 191))
      && is_cont b2 && is_cont b3 = true ->
    wf_seq [b0; b1; b2; b3]
           ((b0 - 240) * 262144 + (b1 - 128) * 4096 + (b2 - 128) * 64 + (b3 - 128)).

Ltac ltb_f x y := rewrite (proj2 (Z.ltb_ge x y)) by lia.
Ltac ltb_t x y := rewrite (proj2 (Z.ltb_lt x y)) by lia.

Lemma decode_ascii b r : b < 128 -> decode_rune (b :: r) = (b, 1).
Proof. intros H. unfold decode_rune. ltb_t b 128. reflexivity. Qed.

Lemma wf_seq_decode p c : wf_seq p c -> forall Y, decode_rune (p ++ Y) = (c, Z.of_nat (length p)).
Proof.
  intros H Y. destruct H as [b0 b1 Hb H1 | b0 b1 b2 Hb H1 | b0 b1 b2 b3 Hb H1];
    cbn [app length]; unfold decode_rune.
  - ltb_f b0 128. ltb_f b0 194. ltb_t b0 224. rewrite H1. reflexivity.
  - ltb_f b0 128. ltb_f b0 194. ltb_f b0 224. ltb_t b0 240. cbv zeta. rewrite H1. reflexivity.
  - ltb_f b0 128. ltb_f b0 194. ltb_f b0 224. ltb_f b0 240. ltb_t b0 245. cbv zeta.
    rewrite H1. reflexivity.
Qed.

Lemma decode_rune_inv b0 r0 c n : 128 <= b0 -> decode_rune (b0 :: r0) = (c, n) ->
  (c = rune_error /\ n = 1) \/
  exists p X, b0 :: r0 = p ++ X /\ wf_seq p c /\ n = Z.of_nat (length p).
Proof.
  intros Hb D. unfold decode_rune in D.
  destruct (b0 <? 128) eqn:E0; [lia|].
  destruct (b0 <? 194) eqn:E1; [left; inversion D; auto|].
  destruct (b0 <? 224) eqn:E2.
  { destruct r0 as [|b1 r1]; [left; inversion D; auto|].
    destruct (is_cont b1) eqn:C1; [|left; inversion D; auto].
    right. exists [b0; b1], r1. inversion D; subst.
    split; [reflexivity|]. split; [|reflexivity]. apply wf2; [lia | exact C1]. }
  destruct (b0 <? 240) eqn:E3.
  { destruct r0 as [|b1 [|b2 r2]]; try (left; inversion D; auto; fail).
    cbv zeta in D.
    match type of D with (if ?c then _ else _) = _ => destruct c eqn:C1 end;
      [|left; inversion D; auto].
    right. exists [b0; b1; b2], r2. inversion D; subst.
    split; [reflexivity|]. split; [|reflexivity]. apply wf3; [lia | exact C1]. }
  destruct (b0 <? 245) eqn:E4.
  { destruct r0 as [|b1 [|b2 [|b3 r3]]]; try (left; inversion D; auto; fail).
    cbv zeta in D.
    match type of D with (if ?c then _ else _) = _ => destruct c eqn:C1 end;
      [|left; inversion D; auto].
    right. exists [b0; b1; b2; b3], r3. inversion D; subst.
    split; [reflexivity|]. split; [|reflexivity]. apply wf4; [lia | exact C1]. }
  left; inversion D; auto.
Qed.

Lemma decode_rune_size_pos b r c n : decode_rune (b :: r) = (c, n) -> 1 <= n.
Proof.
  destruct (Z_lt_ge_dec b 128) as [H|H].
  - rewrite decode_ascii by assumption. intros D; inversion D; lia.
  - intros D. destruct (decode_rune_inv b r c n ltac:(lia) D) as [[_ ->] | (p & X & _ & Hw & ->)].
    + lia.
    + destruct Hw; cbn [length]; lia.
Qed.

Lemma wf_seq_bytes p c : wf_seq p c -> Forall (fun b => 128 <= b < 256) p.
Proof.
  intros H. destruct H as [b0 b1 Hb H1 | b0 b1 b2 Hb H1 | b0 b1 b2 b3 Hb H1];
    unfold is_cont in *; repeat constructor; try lia;
    destruct (b0 =? 224) eqn:Ea in H1; destruct (b0 =? 237) eqn:Eb in H1; try lia;
    destruct (b0 =? 240) eqn:Ec in H1; destruct (b0 =? 244) eqn:Ed in H1; lia.
Qed.

Lemma wf_seq_head p c : wf_seq p c -> exists b0 p', p = b0 :: p' /\ 194 <= b0 < 245.
Proof. intros H; destruct H; eexists; eexists; (split; [reflexivity | lia]). Qed.

Lemma wf_seq_len p c : wf_seq p c -> (2 <= length p)%nat.
Proof. intros H; destruct H; cbn [length]; lia. Qed.

Lemma wf_seq_nonerr p c : wf_seq p c -> (c =? rune_error) && (Z.of_nat (length p) =? 1) = false.
Proof. intros H. apply wf_seq_len in H. lia. Qed.

(* decoding then encoding a well-formed sequence is the identity *)
Lemma wf_seq_encode p c : wf_seq p c -> encode_rune c = p.
Proof.
  intros H. destruct H as [b0 b1 Hb H1 | b0 b1 b2 Hb H1 | b0 b1 b2 b3 Hb H1];
    unfold is_cont in H1.
  - set (c := (b0 - 192) * 64 + (b1 - 128)).
    assert (Hc : 128 <= c < 2048) by (subst c; lia).
    unfold encode_rune.
    destruct ((0 <=? c) && (c <? 128)) eqn:T1; [lia|].
    destruct ((0 <=? c) && (c <? 2048)) eqn:T2; [|lia].
    subst c. repeat f_equal; Z.div_mod_to_equations; lia.
  - set (c := (b0 - 224) * 4096 + (b1 - 128) * 64 + (b2 - 128)).
    assert (Hc : 2048 <= c < 65536 /\ ~ (55296 <= c <= 57343)).
    { subst c. destruct (b0 =? 224) eqn:Ea; destruct (b0 =? 237) eqn:Eb; lia. }
    assert (Hb1 : 128 <= b1 <= 191 /\ 128 <= b2 <= 191).
    { destruct (b0 =? 224) eqn:Ea; destruct (b0 =? 237) eqn:Eb; lia. }
    clear H1.
    unfold encode_rune.
    destruct ((0 <=? c) && (c <? 128)) eqn:T1; [lia|].
    destruct ((0 <=? c) && (c <? 2048)) eqn:T2; [lia|].
    destruct ((c <? 0) || (1114111 <? c) || ((55296 <=? c) && (c <=? 57343))) eqn:T3; [lia|].
    destruct (c <? 65536) eqn:T4; [|lia].
    clear T1 T2 T3 T4 Hc.
    subst c. repeat f_equal; Z.div_mod_to_equations; lia.
  - set (c := (b0 - 240) * 262144 + (b1 - 128) * 4096 + (b2 - 128) * 64 + (b3 - 128)).
    assert (Hc : 65536 <= c <= 1114111).
    { subst c. destruct (b0 =? 240) eqn:Ea; destruct (b0 =? 244) eqn:Eb; lia. }
    assert (Hb1 : 128 <= b1 <= 191 /\ 128 <= b2 <= 191 /\ 128 <= b3 <= 191).
    { destruct (b0 =? 240) eqn:Ea; destruct (b0 =? 244) eqn:Eb; lia. }
    clear H1.
    unfold encode_rune.
    destruct ((0 <=? c) && (c <? 128)) eqn:T1; [lia|].
    destruct ((0 <=? c) && (c <? 2048)) eqn:T2; [lia|].
    destruct ((c <? 0) || (1114111 <? c) || ((55296 <=? c) && (c <=? 57343))) eqn:T3; [lia|].
    destruct (c <? 65536) eqn:T4; [lia|].
    clear T1 T2 T3 T4 Hc.
    subst c. repeat f_equal; Z.div_mod_to_equations; lia.
Qed.

(* ---------- the specification-level escaper ------------------------------- *)

Definition esc_ascii (b : Z) : bytes :=
  if (32 <=? b) && negb (b =? 92) && negb (b =? 34) then [b]
  else if (b =? 92) || (b =? 34) then [92; b]
  else if b =? 10 then [92; 110]
  else if b =? 13 then [92; 114]
  else if b =? 9 then [92; 116]
  else [92; 117; 48; 48; hexdigit (Z.shiftr b 4); hexdigit (Z.land b 15)].

Definition esc_hi (c size : Z) (s : bytes) (rec : bytes -> bytes) : bytes :=
  if (c =? rune_error) && (size =? 1) then
    [92; 117; 102; 102; 102; 100] ++ rec (skipn 1 s)
  else if (c =? 8232) || (c =? 8233) then
    [92; 117; 50; 48; 50; hexdigit (Z.land c 15)] ++ rec (skipn (Z.to_nat size) s)
  else firstn (Z.to_nat size) s ++ rec (skipn (Z.to_nat size) s).

Fixpoint esc_spec (fuel : nat) (s : bytes) : bytes :=
  match fuel with
  | O => []
  | S f =>
    match s with
    | [] => []
    | b :: r =>
      if b <? 128 then esc_ascii b ++ esc_spec f r
      else esc_hi (fst (decode_rune s)) (snd (decode_rune s)) s (esc_spec f)
    end
  end.

Lemma concat_flush pending : concat (flush pending) = rev pending.
Proof. destruct pending; [reflexivity|]. unfold flush. cbn [concat]. apply app_nil_r. Qed.

Lemma concat_emit : forall fuel s pending, (length s < fuel)%nat ->
  concat (emit_str_loop fuel s pending) = rev pending ++ esc_spec fuel s.
Proof.
  induction fuel as [|f IH]; intros s pending L; [lia|].
  destruct s as [|b r].
  - cbn [emit_str_loop esc_spec]. rewrite app_nil_r. apply (concat_flush pending).
  - cbn [emit_str_loop esc_spec]. cbn [length] in L.
    destruct (b <? 128) eqn:Eb.
    + unfold esc_ascii.
      destruct ((32 <=? b) && negb (b =? 92) && negb (b =? 34)) eqn:E1.
      * rewrite IH by lia. cbn [rev]. rewrite <- app_assoc. reflexivity.
      * rewrite !concat_app, concat_flush, IH by lia. cbn [rev app]. f_equal.
        destruct ((b =? 92) || (b =? 34)); [reflexivity|].
        destruct (b =? 10); [reflexivity|].
        destruct (b =? 13); [reflexivity|].
        destruct (b =? 9); reflexivity.
    + destruct (decode_rune (b :: r)) as [c size] eqn:D. cbn [fst snd]. unfold esc_hi.
      assert (Lk : (length (skipn (Z.to_nat size) (b :: r)) < f)%nat).
      { rewrite skipn_length. cbn [length]. apply decode_rune_size_pos in D. lia. }
      destruct ((c =? rune_error) && (size =? 1)) eqn:E1.
      * rewrite !concat_app, concat_flush, IH by lia. reflexivity.
      * destruct ((c =? 8232) || (c =? 8233)) eqn:E2.
        -- rewrite !concat_app, concat_flush.
           rewrite IH by exact Lk. reflexivity.
        -- rewrite IH by exact Lk.
           rewrite rev_app_distr, rev_involutive, <- app_assoc. reflexivity.
Qed.

Lemma escaped_body_spec s : escaped_body s = esc_spec (S (length s)) s.
Proof. unfold escaped_body. rewrite concat_emit by lia. reflexivity. Qed.

(* ---------- pieces: one escaper round ------------------------------------- *)

(* piece p e c: source bytes p are escaped as e, and reading e back gives c *)
Inductive piece : bytes -> bytes -> bytes -> Prop :=
| P_raw b : 32 <= b < 128 -> b <> 34 -> b <> 92 -> piece [b] [b] [b]
| P_q b : b = 34 \/ b = 92 -> piece [b] [92; b] [b]
| P_n : piece [10] [92; 110] [10]
| P_r : piece [13] [92; 114] [13]
| P_t : piece [9] [92; 116] [9]
| P_ctl b : 0 <= b < 32 ->
    piece [b] [92; 117; 48; 48; hexdigit (Z.shiftr b 4); hexdigit (Z.land b 15)] [b]
| P_err b : piece [b] [92; 117; 102; 102; 102; 100] [239; 191; 189]
| P_ls p c : wf_seq p c -> c = 8232 \/ c = 8233 ->
    piece p [92; 117; 50; 48; 50; hexdigit (Z.land c 15)] p
| P_multi p c : wf_seq p c -> piece p p p.

Inductive esc_rel : bytes -> bytes -> bytes -> Prop :=
| ER_nil : esc_rel [] [] []
| ER_piece p X e c E C : piece p e c -> esc_rel X E C -> esc_rel (p ++ X) (e ++ E) (c ++ C).

Lemma piece_ascii b : 0 <= b < 128 -> piece [b] (esc_ascii b) [b].
Proof.
  intros Hb. unfold esc_ascii.
  destruct ((32 <=? b) && negb (b =? 92) && negb (b =? 34)) eqn:E1.
  { apply P_raw; lia. }
  destruct ((b =? 92) || (b =? 34)) eqn:E2.
  { apply P_q; lia. }
  destruct (b =? 10) eqn:E3.
  { assert (b = 10) by lia; subst. apply P_n. }
  destruct (b =? 13) eqn:E4.
  { assert (b = 13) by lia; subst. apply P_r. }
  destruct (b =? 9) eqn:E5.
  { assert (b = 9) by lia; subst. apply P_t. }
  apply P_ctl; lia.
Qed.

Lemma coerce_S f b r :
  coerce_utf8_fuel (S f) (b :: r) =
  if (fst (decode_rune (b :: r)) =? rune_error) && (snd (decode_rune (b :: r)) =? 1)
  then [239; 191; 189] ++ coerce_utf8_fuel f (skipn 1 (b :: r))
  else firstn (Z.to_nat (snd (decode_rune (b :: r)))) (b :: r)
       ++ coerce_utf8_fuel f (skipn (Z.to_nat (snd (decode_rune (b :: r)))) (b :: r)).
Proof. cbn [coerce_utf8_fuel]. destruct (decode_rune (b :: r)); reflexivity. Qed.

Lemma valid_S f b r :
  valid_utf8_fuel (S f) (b :: r) =
  if (fst (decode_rune (b :: r)) =? rune_error) && (snd (decode_rune (b :: r)) =? 1)
  then false
  else valid_utf8_fuel f (skipn (Z.to_nat (snd (decode_rune (b :: r)))) (b :: r)).
Proof. cbn [valid_utf8_fuel]. destruct (decode_rune (b :: r)); reflexivity. Qed.

Lemma esc_rel_spec : forall f1 s f2, (length s < f1)%nat -> (length s <= f2)%nat -> bytes_ok s ->
  esc_rel s (esc_spec f1 s) (coerce_utf8_fuel f2 s).
Proof.
  induction f1 as [|f1 IH]; intros s f2 L1 L2 Hok; [lia|].
  destruct s as [|b r].
  - destruct f2; cbn; constructor.
  - destruct f2 as [|f2]; [cbn [length] in L2; lia|].
    cbn [length] in L1, L2.
    rewrite coerce_S. cbn [esc_spec].
    assert (Hb : byte_ok b) by (inversion Hok; assumption).
    unfold byte_ok in Hb.
    destruct (b <? 128) eqn:Eb.
    + rewrite decode_ascii by lia. cbn [fst snd].
      replace ((b =? rune_error) && (1 =? 1)) with false by (unfold rune_error; lia).
      change (Z.to_nat 1) with 1%nat. cbn [firstn skipn].
      change (b :: r) with ([b] ++ r).
      apply ER_piece; [apply piece_ascii; lia|].
      apply IH; [lia | lia | inversion Hok; assumption].
    + destruct (decode_rune (b :: r)) as [c size] eqn:D. cbn [fst snd]. unfold esc_hi.
      destruct (decode_rune_inv b r c size ltac:(lia) D) as [[-> ->] | (p & X & Hs & Hw & ->)].
      * change ((rune_error =? rune_error) && (1 =? 1)) with true. cbv iota.
        cbn [skipn]. change (b :: r) with ([b] ++ r).
        apply ER_piece; [apply P_err|].
        apply IH; [lia | lia | inversion Hok; assumption].
      * rewrite (wf_seq_nonerr _ _ Hw). rewrite Nat2Z.id. rewrite Hs.
        rewrite firstn_len_app, skipn_len_app.
        assert (HokX : bytes_ok X).
        { rewrite Hs in Hok. apply Forall_app in Hok. tauto. }
        assert (LX : (length X < length (b :: r))%nat).
        { rewrite Hs, app_length. apply wf_seq_len in Hw. lia. }
        cbn [length] in LX.
        destruct ((c =? 8232) || (c =? 8233)) eqn:E2.
        -- apply ER_piece; [apply (P_ls _ _ Hw); lia|]. apply IH; [lia | lia | assumption].
        -- apply ER_piece; [apply (P_multi _ _ Hw)|]. apply IH; [lia | lia | assumption].
Qed.

(* ---------- the scanner on pieces ------------------------------------------ *)

Lemma scan_hi p : Forall (fun b => 128 <= b < 256) p -> forall Y acc,
  str_scan SNormal (p ++ Y) acc = str_scan SNormal Y (rev p ++ acc).
Proof.
  induction 1 as [|b p Hb Hp IH]; intros Y acc; [reflexivity|].
  cbn [app str_scan].
  destruct (b =? 34) eqn:E1; [lia|].
  destruct (b =? 92) eqn:E2; [lia|].
  destruct (b <? 32) eqn:E3; [lia|].
  rewrite IH. cbn [rev]. rewrite <- app_assoc. reflexivity.
Qed.

Lemma scan_piece p e c : piece p e c -> forall Y acc,
  str_scan SNormal (e ++ Y) acc = str_scan SNormal Y (rev e ++ acc).
Proof.
  intros H. destruct H as [b H1 H2 H3 | b H1 | | | | b H1 | b | p c Hw Hc | p c Hw]; intros Y acc.
  - cbn [app str_scan].
    destruct (b =? 34) eqn:E1; [lia|].
    destruct (b =? 92) eqn:E2; [lia|].
    destruct (b <? 32) eqn:E3; [lia|]. reflexivity.
  - destruct H1; subst; reflexivity.
  - reflexivity.
  - reflexivity.
  - reflexivity.
  - revert b H1. apply below32. enum32 reflexivity.
  - reflexivity.
  - destruct Hc; subst; reflexivity.
  - apply scan_hi. eapply wf_seq_bytes; eassumption.
Qed.

Lemma scan_rel s E C : esc_rel s E C -> forall rest acc,
  str_scan SNormal (E ++ 34 :: rest) acc = inl (rev acc ++ E, rest).
Proof.
  induction 1 as [|p X e c E C Hp Hr IH]; intros rest acc.
  - cbn [app str_scan]. change (34 =? 34) with true. cbv iota. rewrite app_nil_r. reflexivity.
  - rewrite <- app_assoc. rewrite (scan_piece _ _ _ Hp). rewrite IH.
    rewrite rev_app_distr, rev_involutive, <- app_assoc. reflexivity.
Qed.

(* ---------- the unescaper on pieces ---------------------------------------- *)

Definition ocons (c : bytes) (o : option bytes) : option bytes :=
  match o with Some t => Some (c ++ t) | None => None end.

Lemma unesc_hi f b r : 128 <= b ->
  unescape (S f) (b :: r) =
  ocons (encode_rune (fst (decode_rune (b :: r))))
        (unescape f (skipn (Z.to_nat (snd (decode_rune (b :: r)))) (b :: r))).
Proof.
  intros Hb. cbn [unescape].
  destruct (b =? 92) eqn:E1; [lia|].
  destruct (b =? 34) eqn:E2; [lia|].
  destruct (b <? 32) eqn:E3; [lia|].
  destruct (b <? 128) eqn:E4; [lia|].
  cbn [orb]. destruct (decode_rune (b :: r)); reflexivity.
Qed.

Lemma unesc_piece p e c : piece p e c -> forall f Y,
  unescape (S f) (e ++ Y) = ocons c (unescape f Y).
Proof.
  intros H. destruct H as [b H1 H2 H3 | b H1 | | | | b H1 | b | p c Hw Hc | p c Hw]; intros f Y.
  - cbn [app unescape].
    destruct (b =? 92) eqn:E1; [lia|].
    destruct (b =? 34) eqn:E2; [lia|].
    destruct (b <? 32) eqn:E3; [lia|].
    destruct (b <? 128) eqn:E4; [|lia].
    reflexivity.
  - destruct H1; subst; reflexivity.
  - reflexivity.
  - reflexivity.
  - reflexivity.
  - revert b H1. apply below32. enum32 reflexivity.
  - reflexivity.
  - rewrite <- (wf_seq_encode _ _ Hw). destruct Hc; subst; reflexivity.
  - destruct (wf_seq_head _ _ Hw) as (b0 & p' & Hp & Hb0).
    pose proof (wf_seq_decode _ _ Hw Y) as D.
    pose proof (wf_seq_encode _ _ Hw) as En.
    pose proof (skipn_len_app p Y) as Sk.
    rewrite Hp in D, Sk |- *. cbn [app] in D, Sk |- *.
    rewrite unesc_hi by lia. rewrite D. cbn [fst snd]. rewrite Nat2Z.id.
    rewrite Sk. rewrite En, Hp. reflexivity.
Qed.

Lemma piece_len p e c : piece p e c -> (1 <= length e)%nat.
Proof. intros H; destruct H; cbn [length]; try lia. apply wf_seq_len in H. lia. Qed.

Lemma unesc_rel s E C : esc_rel s E C -> forall fuel, (length E < fuel)%nat ->
  unescape fuel E = Some C.
Proof.
  induction 1 as [|p X e c E C Hp Hr IH]; intros fuel L.
  - destruct fuel; reflexivity.
  - destruct fuel as [|f]; [lia|].
    rewrite (unesc_piece _ _ _ Hp). rewrite IH; [reflexivity|].
    rewrite app_length in L. apply piece_len in Hp. lia.
Qed.

(* ---------- cleanliness ------------------------------------------------------ *)

Definition clean (b : Z) : Prop := 32 <= b < 256.

(* tokenising check: a quote byte only occurs as the second byte of a
   backslash pair *)
Fixpoint no_bare_quote (e : bytes) : bool :=
  match e with
  | [] => true
  | b :: r =>
    if b =? 92 then match r with [] => false | _ :: r2 => no_bare_quote r2 end
    else negb (b =? 34) && no_bare_quote r
  end.

Lemma nbq_hi p : Forall (fun b => 128 <= b < 256) p -> forall Y,
  no_bare_quote (p ++ Y) = no_bare_quote Y.
Proof.
  induction 1 as [|b p Hb Hp IH]; intros Y; [reflexivity|].
  cbn [app no_bare_quote].
  destruct (b =? 92) eqn:E1; [lia|].
  destruct (b =? 34) eqn:E2; [lia|]. cbn [negb andb]. apply IH.
Qed.

Lemma clean_piece p e c : piece p e c ->
  Forall clean e /\ (In 34 e -> In 34 p) /\
  (forall Y, no_bare_quote (e ++ Y) = no_bare_quote Y) /\
  (Forall (fun b => 0 <= b < 128) e \/ exists r, wf_seq e r).
Proof.
  unfold clean.
  intros H. destruct H as [b H1 H2 H3 | b H1 | | | | b H1 | b | p c Hw Hc | p c Hw].
  - split; [repeat constructor; lia|]. split; [auto|]. split; [|left; repeat constructor; lia].
    intros Y. cbn [app no_bare_quote].
    destruct (b =? 92) eqn:E1; [lia|].
    destruct (b =? 34) eqn:E2; [lia|]. reflexivity.
  - split; [repeat constructor; lia|]. split.
    { cbn [In]. intros [H|[H|[]]]; [lia | auto]. }
    split; [|left; repeat constructor; lia].
    intros Y. reflexivity.
  - split; [repeat constructor; lia|]. split; [cbn [In]; lia|].
    split; [reflexivity | left; repeat constructor; lia].
  - split; [repeat constructor; lia|]. split; [cbn [In]; lia|].
    split; [reflexivity | left; repeat constructor; lia].
  - split; [repeat constructor; lia|]. split; [cbn [In]; lia|].
    split; [reflexivity | left; repeat constructor; lia].
  - revert b H1. apply below32.
    enum32 ltac:(split; [repeat constructor; cbv; intuition congruence|];
                 split; [cbv; intuition congruence|];
                 split; [reflexivity | left; repeat constructor; cbv; intuition congruence]).
  - split; [repeat constructor; lia|]. split; [cbn [In]; lia|].
    split; [reflexivity | left; repeat constructor; lia].
  - destruct Hc; subst;
      (split; [repeat constructor; cbv; intuition congruence|];
       split; [cbv; intuition congruence|];
       split; [reflexivity | left; repeat constructor; cbv; intuition congruence]).
  - pose proof (wf_seq_bytes _ _ Hw) as Hb.
    split; [|split; [auto|split; [apply nbq_hi; exact Hb | right; eauto]]].
    eapply Forall_impl; [|exact Hb].
    intros a Ha; cbv beta in Ha; lia.
Qed.

Definition vu (X : bytes) : Prop := forall fuel, valid_utf8_fuel fuel X = true.

Lemma vu_ascii e : Forall (fun b => 0 <= b < 128) e -> forall Y, vu Y -> vu (e ++ Y).
Proof.
  induction 1 as [|b e Hb He IH]; intros Y HY; [exact HY|].
  intros fuel. destruct fuel as [|f]; [reflexivity|].
  cbn [app]. rewrite valid_S. rewrite decode_ascii by lia. cbn [fst snd].
  replace ((b =? rune_error) && (1 =? 1)) with false by (unfold rune_error; lia).
  change (Z.to_nat 1) with 1%nat. cbn [skipn]. apply IH. exact HY.
Qed.

Lemma vu_multi p c : wf_seq p c -> forall Y, vu Y -> vu (p ++ Y).
Proof.
  intros Hw Y HY fuel. destruct fuel as [|f]; [reflexivity|].
  destruct (wf_seq_head _ _ Hw) as (b0 & p' & Hp & Hb0).
  pose proof (wf_seq_decode _ _ Hw Y) as D.
  pose proof (skipn_len_app p Y) as Sk.
  pose proof (wf_seq_nonerr _ _ Hw) as Ne.
  rewrite Hp in D, Sk, Ne |- *. cbn [app] in D, Sk |- *.
  rewrite valid_S. rewrite D. cbn [fst snd]. rewrite Ne. rewrite Nat2Z.id, Sk. apply HY.
Qed.

Lemma clean_rel s E C : esc_rel s E C ->
  Forall clean E /\ (In 34 E -> In 34 s) /\ no_bare_quote E = true /\ vu E.
Proof.
  induction 1 as [|p X e c E C Hp Hr (IH1 & IH2 & IH3 & IH4)].
  - split; [constructor|]. split; [auto|]. split; [reflexivity|].
    intros fuel; destruct fuel; reflexivity.
  - destruct (clean_piece _ _ _ Hp) as (H1 & H2 & H3 & H4).
    split; [apply Forall_app; auto|].
    split; [rewrite !in_app_iff; tauto|].
    split; [rewrite H3; exact IH3|].
    destruct H4 as [H4 | [r H4]]; [apply vu_ascii; auto | eapply vu_multi; eauto].
Qed.

Lemma coerce_valid_fuel : forall fuel s, (length s <= fuel)%nat ->
  valid_utf8_fuel fuel s = true -> coerce_utf8_fuel fuel s = s.
Proof.
  induction fuel as [|f IH]; intros s L V.
  - destruct s; [reflexivity | cbn [length] in L; lia].
  - destruct s as [|b r]; [reflexivity|].
    rewrite coerce_S. rewrite valid_S in V.
    destruct (decode_rune (b :: r)) as [c n] eqn:D. cbn [fst snd] in *.
    destruct ((c =? rune_error) && (n =? 1)); [discriminate|].
    rewrite IH; [apply firstn_skipn | | exact V].
    rewrite skipn_length. apply decode_rune_size_pos in D. cbn [length] in *. lia.
Qed.

(* ======================================================================== *)
(* STATEMENTS TO PROVE (do not change them)                                  *)
(* ======================================================================== *)

Theorem emit_string_shape : forall s, concat (emit_string s) = [34] ++ escaped_body s ++ [34].
Proof.
  intros s. unfold emit_string, escaped_body. rewrite !concat_app. reflexivity.
Qed.

(* reading the escaped text back yields the string with every byte that is not
   part of a well-formed UTF-8 sequence replaced by U+FFFD, and leaves what follows *)
Theorem dec_string_emit_string : forall s rest, bytes_ok s ->
  dec_string (escaped_body s ++ [34] ++ rest) = inl (coerce_utf8 s, rest).
Proof.
  intros s rest Hok.
  assert (R : esc_rel s (escaped_body s) (coerce_utf8 s)).
  { rewrite escaped_body_spec. unfold coerce_utf8. apply esc_rel_spec; [lia | lia | exact Hok]. }
  unfold dec_string. cbn [app].
  rewrite (scan_rel _ _ _ R). cbn [rev app].
  rewrite (unesc_rel _ _ _ R) by lia. reflexivity.
Qed.

Theorem coerce_valid_utf8 : forall s, valid_utf8 s = true -> coerce_utf8 s = s.
Proof.
  intros s V. unfold coerce_utf8. apply coerce_valid_fuel; [lia | exact V].
Qed.

(* FALSE AS STATED (moved into this comment):

     Theorem escaped_body_clean : forall s, bytes_ok s ->
       Forall (fun b => 32 <= b < 256 /\ b <> 34) (escaped_body s) /\
       valid_utf8 (escaped_body s) = true.

   Counterexample: s = [34] (a string consisting of one quote character).
   [Eval vm_compute in escaped_body [34]] = [92; 34]: the escape sequence for
   the quote itself contains the byte 34, so "b <> 34" fails.  What is true:
   a quote byte only ever occurs as the second byte of a backslash pair
   (escaped_body_clean_weak, via the tokenising check no_bare_quote), and if
   the source string has no quote the original conclusion holds
   (escaped_body_clean_noquote). *)

Example escaped_body_clean_counterexample :
  bytes_ok [34] /\ escaped_body [34] = [92; 34] /\
  ~ Forall (fun b => 32 <= b < 256 /\ b <> 34) (escaped_body [34]).
Proof.
  split; [repeat constructor; unfold byte_ok; lia|]. split; [reflexivity|].
  change (escaped_body [34]) with [92; 34]. intros H.
  inversion H as [|? ? _ H2]; subst. inversion H2 as [|? ? [_ H3] _]; subst. apply H3; reflexivity.
Qed.

(* never emitted raw: control characters, a bare quote; the output is valid UTF-8 *)
Theorem escaped_body_clean_weak : forall s, bytes_ok s ->
  Forall (fun b => 32 <= b < 256) (escaped_body s) /\
  no_bare_quote (escaped_body s) = true /\
  valid_utf8 (escaped_body s) = true.
Proof.
  intros s Hok.
  assert (R : esc_rel s (escaped_body s) (coerce_utf8 s)).
  { rewrite escaped_body_spec. unfold coerce_utf8. apply esc_rel_spec; [lia | lia | exact Hok]. }
  destruct (clean_rel _ _ _ R) as (H1 & _ & H3 & H4).
  split; [exact H1|]. split; [exact H3 | apply H4].
Qed.

(* the original conclusion, for strings without a quote character *)
Theorem escaped_body_clean_noquote : forall s, bytes_ok s -> ~ In 34 s ->
  Forall (fun b => 32 <= b < 256 /\ b <> 34) (escaped_body s) /\ valid_utf8 (escaped_body s) = true.
Proof.
  intros s Hok Hq.
  assert (R : esc_rel s (escaped_body s) (coerce_utf8 s)).
  { rewrite escaped_body_spec. unfold coerce_utf8. apply esc_rel_spec; [lia | lia | exact Hok]. }
  destruct (clean_rel _ _ _ R) as (H1 & H2 & _ & H4).
  split; [|apply H4].
  rewrite Forall_forall in *. intros b Hb. split; [apply H1; exact Hb|].
  intros ->. auto.
Qed.

Print Assumptions emit_string_shape.
Print Assumptions dec_string_emit_string.
Print Assumptions coerce_valid_utf8.
Print Assumptions escaped_body_clean_weak.
Print Assumptions escaped_body_clean_noquote.
