(* Properties_C01.v — C01: Marshal then Unmarshal returns the original value.
   Statements only; proofs in RoundTripProof.v (object layer, token level).
   Together with the codec theorems — C02: the CBOR decoder reads the encoder's
   bytes back as the same tokens (canonical spelling of non-negative integers),
   C03/C05: the JSON decoder reads the encoder's text back as the normalised
   tokens — this is the end-to-end statement; the byte-level composition is
   checked on every case by the roundtrip suite.

   [wt] is well-typedness (integers in range of their kind, float32 values
   representable, array lengths, distinct map keys); [req] is equality up to
   what the wire cannot carry, exactly the list in the property:
     req_ptr_null / req_any_null : null has no shape (a pointer or slot whose content serializes as null comes back nil)
     req_struct                  : omitted-as-empty fields come back empty (nil vs empty under omitempty)
     req_any_num / req_any_f32   : the concrete numeric Go type inside untyped slots
     req_transform               : values of a type with a transform are compared through their serial forms
                                   (plain equality when the serial form is a scalar: req_transform_atom)
   and nothing else: scalars, strings, byte strings, slices, arrays, maps (as sets of entries) are equal.

   [atlas_wf] allows all four kinds of atlas entries: struct maps, transforms (the modelled kinds 1..9, tagged
   or not, as map key types, with an untyped serial form), keyed unions, map morphisms.  [domb] is the domain:
   transformed values lie where the user's backward function undoes the forward one ([tr_dom]); untyped slots
   hold what an untyped slot gives back; no pointer or untyped slot holds a transformed value whose serial
   form is null (null has no shape); a tagged transform with an untyped serial form does not hold a value of a
   tagged type (a token carries one tag).  Each restriction is needed (RoundTripProof.v, examples *_refuted). *)
From Coq Require Import List ZArith.
Require Import Tok GoVal Marshal Unmarshal ObjProof BoundsProof RoundTripProof JsonEnc JsonEncProof EndToEndProof.
Import ListNotations.
Open Scope Z_scope.

(* atlases of struct-map entries (renamed / ignored / omitempty fields, embedded routes, tags), transforms,
   keyed unions and map morphisms; untyped slots hold what an untyped slot can hold natively, or values of
   tagged types *)
Theorem C01_token_roundtrip : forall E A t v f ts,
  atlas_wf E A = true -> wt E A t v -> domb E A t v = true -> marshal A f t v = MOk ts ->
  exists f' v', unmarshal E A f' t (zero 50 E t) ts = UOk v' [] /\ req E A t v v' /\ wt E A t v'.
Proof. exact token_roundtrip. Qed.
Print Assumptions C01_token_roundtrip.

(* ... whatever follows the item in the stream, and for every larger fuel *)
Theorem C01_token_roundtrip_general : forall E A t v f ts,
  atlas_wf E A = true -> wt E A t v -> domb E A t v = true -> marshal A f t v = MOk ts ->
  exists v', req E A t v v' /\ wt E A t v' /\
    (exists F, forall f' rest, (F <= f')%nat -> unmarshal E A f' t (zero 50 E t) (ts ++ rest) = UOk v' rest) /\
    (omit_ok A = true -> rmv v = true -> forall f'', (f <= f'')%nat -> marshal A f'' t v' = MOk ts).
Proof. exact roundtrip_general. Qed.

(* without atlas entries (scalars, byte strings and arrays, slices, arrays, string-keyed maps, pointers, named types) *)
Theorem C01_token_roundtrip_plain : forall E mode t v f ts,
  plain_type t = true -> wt E (Atlas [] mode) t v -> marshal (Atlas [] mode) f t v = MOk ts ->
  exists f' v', unmarshal E (Atlas [] mode) f' t (zero 50 E t) ts = UOk v' [] /\ req E (Atlas [] mode) t v v'.
Proof. exact roundtrip_stage1. Qed.
Print Assumptions C01_token_roundtrip_plain.

(* the modelled transform pairs are inverse to each other on their domains *)
Theorem C01_transform_inverse : forall kind v w,
  tr_dom kind v = true -> tr_fwd kind v = Some w -> tr_bwd kind w = Some v.
Proof. exact tr_roundtrip. Qed.

(* kernel-evaluated instance with every kind of entry (tagged transform with interface{} serial form included) *)
Example C01_token_roundtrip_all_entry_kinds :
  atlas_wf s4_E s4_A = true /\ wtb s4_E s4_A (GStruct 1) s4_v = true /\ domb s4_E s4_A (GStruct 1) s4_v = true /\
  marshal s4_A 40 (GStruct 1) s4_v = MOk s4_ts /\
  unmarshal s4_E s4_A 60 (GStruct 1) (zero 50 s4_E (GStruct 1)) s4_ts = UOk s4_v' [].
Proof. vm_compute. repeat split; reflexivity. Qed.

(* ---------- the byte level (EndToEndProof.v): marshal, encode, decode, unmarshal ---------------------
   cbor_marshal   = marshal_top then the CBOR encoder model;  cbor_unmarshal = the CBOR decoder model on the whole
   input then unmarshal_top — the compositions the Go helpers MarshalAtlased / UnmarshalAtlased perform.
   cranked A 3 : the atlas's token-free chains (transform wires, tags) are at most 3 long (fixed fuel of unmarshal_top);
   cbor_ok     : the marshalled tokens are within the codec's limits (32 MiB per item, tag and length ranges). *)
Theorem C01_cbor_end_to_end : forall E A t v bs,
  atlas_wf E A = true -> cranked A 3 = true ->
  wt E A t v -> domb E A t v = true -> cbor_ok E A t v = true ->
  cbor_marshal E A t v = Some bs ->
  exists n v', cbor_unmarshal E A t bs = Some (UTDone n v') /\ req E A t v v' /\ wt E A t v'.
Proof. exact cbor_end_to_end. Qed.
Print Assumptions C01_cbor_end_to_end.

(* JSON, on the part JSON can represent (json_repr_ff: no byte strings, valid UTF-8, no floats; untyped slots hold
   native values only — domb under the atlas stripped of tags), for every whitespace option — no hypothesis: *)
Theorem C01_json_end_to_end_float_free : forall sh o E A t v bs,
  ws_opts o ->
  atlas_wf E A = true -> cranked A 3 = true ->
  wt E A t v -> domb E (untag_atlas A) t v = true -> json_repr_ff E A t v = true ->
  json_marshal sh o E A t v = Some bs ->
  exists n v', json_unmarshal E A t bs = Some (UTDone n v') /\ req E A t v v' /\ wt E A t v'.
Proof. exact json_end_to_end_float_free. Qed.
Print Assumptions C01_json_end_to_end_float_free.
(* with floats the statement is json_end_to_end / json_end_to_end_floats in EndToEndProof.v, under the shortest-digits
   oracle hypothesis of C03; the exact read-back relation [jrel] records the property's exemptions: -0 reads back as 0,
   an integral float in an untyped slot comes back as an integer. *)

(* kernel-evaluated instance *)
Example C01_token_roundtrip_example :
  let A := Atlas [AE (GStruct 100) (Some 7) (EStruct [FE [107] [0%nat] (GPtr (GNum I8)) true false; FE [118] [1%nat] (GSlice GStr) false false])] 0 in
  let E := [(100, [GPtr (GNum I8); GSlice GStr])] in
  let v := VStruct [VPtr (Some (VNum (-5))); VSlice (Some [GVStr [97]])] in
  match marshal_top E A (GStruct 100) v with
  | MOk ts => unmarshal_top E A (GStruct 100) ts = UTDone (length ts) v
  | _ => False
  end.
Proof. vm_compute. reflexivity. Qed.
