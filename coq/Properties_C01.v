(* Properties_C01.v — C01: Marshal then Unmarshal returns the original value.
   Statements only; proofs in RoundTripProof.v (object layer, token level).
   Together with the codec theorems — C02: the CBOR decoder reads the encoder's
   bytes back as the same tokens (canonical spelling of non-negative integers),
   C03/C05: the JSON decoder reads the encoder's text back as the normalised
   tokens — this is the end-to-end statement; the byte-level composition is
   checked on every case by the roundtrip suite.

   [wt] is well-typedness (integers in range of their kind, float32 values
   representable, array lengths, distinct map keys); [req] is equality up to
   what the wire cannot carry, exactly the list in the property:
     req_ptr_null / req_any_null : null has no shape (a pointer or slot whose content serializes as null comes back nil)
     req_struct                  : omitted-as-empty fields come back empty (nil vs empty under omitempty)
     req_any_num / req_any_f32   : the concrete numeric Go type inside untyped slots
   and nothing else: scalars, strings, byte strings, slices, arrays, maps (as sets of entries) are equal. *)
From Coq Require Import List ZArith.
Require Import Tok GoVal Marshal Unmarshal ObjProof RoundTripProof.
Import ListNotations.
Open Scope Z_scope.

(* atlases of struct-map entries (renamed / ignored / omitempty fields, embedded routes, tags);
   untyped slots hold what an untyped slot can hold natively, or values of tagged types *)
Theorem C01_token_roundtrip : forall E A t v f ts,
  atlas_wf E A = true -> wt E A t v -> domb E A t v = true -> marshal A f t v = MOk ts ->
  exists f' v', unmarshal E A f' t (zero 50 E t) ts = UOk v' [] /\ req E A t v v' /\ wt E A t v'.
Proof. exact token_roundtrip. Qed.
Print Assumptions C01_token_roundtrip.

(* ... whatever follows the item in the stream, and for every larger fuel *)
Theorem C01_token_roundtrip_general : forall E A t v f ts,
  atlas_wf E A = true -> wt E A t v -> domb E A t v = true -> marshal A f t v = MOk ts ->
  exists v', req E A t v v' /\ wt E A t v' /\
    (exists F, forall f' rest, (F <= f')%nat -> unmarshal E A f' t (zero 50 E t) (ts ++ rest) = UOk v' rest) /\
    (omit_ok A = true -> rmv v = true -> forall f'', (f <= f'')%nat -> marshal A f'' t v' = MOk ts).
Proof. exact roundtrip_general. Qed.

(* without atlas entries (scalars, byte strings and arrays, slices, arrays, string-keyed maps, pointers, named types) *)
Theorem C01_token_roundtrip_plain : forall E mode t v f ts,
  plain_type t = true -> wt E (Atlas [] mode) t v -> marshal (Atlas [] mode) f t v = MOk ts ->
  exists f' v', unmarshal E (Atlas [] mode) f' t (zero 50 E t) ts = UOk v' [] /\ req E (Atlas [] mode) t v v'.
Proof. exact roundtrip_stage1. Qed.
Print Assumptions C01_token_roundtrip_plain.

(* kernel-evaluated instance *)
Example C01_token_roundtrip_example :
  let A := Atlas [AE (GStruct 100) (Some 7) (EStruct [FE [107] [0%nat] (GPtr (GNum I8)) true false; FE [118] [1%nat] (GSlice GStr) false false])] 0 in
  let E := [(100, [GPtr (GNum I8); GSlice GStr])] in
  let v := VStruct [VPtr (Some (VNum (-5))); VSlice (Some [GVStr [97]])] in
  match marshal_top E A (GStruct 100) v with
  | MOk ts => unmarshal_top E A (GStruct 100) ts = UTDone (length ts) v
  | _ => False
  end.
Proof. vm_compute. reflexivity. Qed.
