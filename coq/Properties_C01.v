(* Properties_C01.v — statements are added as the proofs land (see DESIGN.md). *)
From Coq Require Import List ZArith.
Require Import Tok GoVal Marshal Unmarshal.
Import ListNotations.
Open Scope Z_scope.

Example C01_token_roundtrip_example :
  let A := Atlas [AE (GStruct 100) (Some 7) (EStruct [FE [107] [0%nat] (GPtr (GNum I8)) true false; FE [118] [1%nat] (GSlice GStr) false false])] 0 in
  let E := [(100, [GPtr (GNum I8); GSlice GStr])] in
  let v := VStruct [VPtr (Some (VNum (-5))); VSlice (Some [GVStr [97]])] in
  match marshal_top E A (GStruct 100) v with
  | MOk ts => unmarshal_top E A (GStruct 100) ts = UTDone (length ts) v
  | _ => False
  end.
Proof. vm_compute. reflexivity. Qed.
