(* Conc.v — concurrent use of per-goroutine instances over a shared, read-only
   atlas (C18).  The system: a shared value [a] nobody writes, and for each
   goroutine its own instance state, its pending calls and the results it has
   obtained so far.  A schedule is any list of goroutine ids; a step lets the
   scheduled goroutine perform its next call on ITS instance.  The theorem:
   whatever the schedule, every goroutine has obtained exactly the results of
   running its own calls sequentially on a fresh instance.

   What this cannot show is the premise itself — that the Go code's instances
   share nothing mutable except the atlas, which they only read.  That part is
   checked on the code (SharedState.v, regenerated from the source, and the
   race-detector run). *)
From Coq Require Import List Arith Lia.
Import ListNotations.

Section Conc.
  Variables (shared call res inst : Type).
  Variable exec : shared -> inst -> call -> inst * res.    (* one call on an instance *)
  Variable fresh : inst.
  (* a call's result does not depend on what the instance did before (C17) *)
  Hypothesis exec_result_fresh : forall a i c, snd (exec a i c) = snd (exec a fresh c).

  Record gor := Gor { g_inst : inst ; g_pending : list call ; g_done : list res }.

  Definition gstep (a : shared) (g : gor) : gor :=
    match g_pending g with
    | [] => g
    | c :: r => let '(i', x) := exec a (g_inst g) c in Gor i' r (g_done g ++ [x])
    end.

  Fixpoint upd (l : list gor) (k : nat) (f : gor -> gor) : list gor :=
    match l, k with
    | [], _ => []
    | g :: r, O => f g :: r
    | g :: r, S k' => g :: upd r k' f
    end.

  Definition run (a : shared) (sched : list nat) (sys : list gor) : list gor :=
    fold_left (fun s k => upd s k (gstep a)) sched sys.

  Definition start (calls : list (list call)) : list gor := map (fun cs => Gor fresh cs []) calls.

  (* the sequential results of a call list on a fresh instance *)
  Definition seq_results (a : shared) (cs : list call) : list res := map (fun c => snd (exec a fresh c)) cs.

  (* invariant: done ++ results-of-pending = sequential results of the goroutine's whole call list *)
  Definition ok (a : shared) (cs : list call) (g : gor) : Prop :=
    exists k, g_pending g = skipn k cs /\ g_done g = seq_results a (firstn k cs) /\ k <= length cs.

  Lemma ok_start a cs : ok a cs (Gor fresh cs []).
  Proof. exists 0. cbn. repeat split; lia. Qed.

  Lemma skipn_cons_nth {X} : forall k (l : list X) c r, skipn k l = c :: r -> skipn (S k) l = r /\ firstn (S k) l = firstn k l ++ [c] /\ k < length l.
  Proof.
    induction k as [|k IH]; intros l c r H.
    - destruct l as [|x l]; [discriminate|]. cbn in H. inversion H; subst. cbn. repeat split; lia.
    - destruct l as [|x l]; [discriminate|]. cbn [skipn] in H. destruct (IH l c r H) as (H1 & H2 & H3).
      split; [exact H1|]. split; [rewrite (firstn_cons (S k)), (firstn_cons k), H2; reflexivity| cbn; lia].
  Qed.

  Lemma ok_step a cs g : ok a cs g -> ok a cs (gstep a g).
  Proof.
    intros (k & Hp & Hd & Hk). unfold gstep. destruct (g_pending g) as [|c r] eqn:E; [exists k; rewrite E; auto|].
    destruct (exec a (g_inst g) c) as [i' x] eqn:Ex. symmetry in Hp.
    destruct (skipn_cons_nth k cs c r Hp) as (H1 & H2 & H3).
    exists (S k). cbn [g_pending g_done]. repeat split; [symmetry; exact H1| |lia].
    rewrite Hd, H2. unfold seq_results. rewrite map_app. cbn [map]. f_equal. f_equal.
    rewrite <- exec_result_fresh with (i := g_inst g). rewrite Ex. reflexivity.
  Qed.

  Lemma upd_Forall2 a : forall css sys k, Forall2 (ok a) css sys -> Forall2 (ok a) css (upd sys k (gstep a)).
  Proof.
    intros css sys k H. revert k. induction H as [|cs g css sys Hg H IH]; intros k; [constructor|].
    destruct k; cbn [upd]; constructor; auto using ok_step.
  Qed.

  Theorem any_interleaving_is_sequential : forall a calls sched,
    Forall2 (ok a) calls (run a sched (start calls)).
  Proof.
    intros a calls sched. unfold run.
    assert (H0 : Forall2 (ok a) calls (start calls)).
    { unfold start. induction calls as [|cs r IH]; cbn; constructor; auto using ok_start. }
    revert H0. generalize (start calls) as sys. induction sched as [|k s IH]; intros sys H; cbn [fold_left]; [exact H|].
    apply IH, upd_Forall2, H.
  Qed.

  (* a goroutine that has finished holds exactly its sequential results *)
  Corollary finished_goroutine_has_sequential_results : forall a calls sched n cs g,
    nth_error calls n = Some cs -> nth_error (run a sched (start calls)) n = Some g ->
    g_pending g = [] -> g_done g = seq_results a cs.
  Proof.
    intros a calls sched n cs g Hc Hg Hp.
    pose proof (any_interleaving_is_sequential a calls sched) as H.
    assert (Hok : ok a cs g).
    { revert n Hc Hg. induction H as [|x y l l' Hxy H IH]; intros n Hc Hg; [destruct n; discriminate|].
      destruct n; cbn in Hc, Hg; [inversion Hc; inversion Hg; subst; exact Hxy| eapply IH; eauto]. }
    destruct Hok as (k & Hpk & Hd & Hk). rewrite Hp in Hpk.
    assert (k = length cs).
    { symmetry in Hpk. pose proof (f_equal (@length _) Hpk) as HL. rewrite skipn_length in HL. cbn in HL. lia. }
    subst k. rewrite firstn_all in Hd. exact Hd.
  Qed.
End Conc.
