(* JsonNumProof.v — integers printed by the JSON encoder are read back by the
   decoder's number reader as the same integer (as Int when it fits int64,
   else as Uint), whatever non-number text follows. *)
From Coq Require Import List ZArith Bool Lia.
From Coq Require Import ZifyBool ZifyNat.
Require Import Tok Utf8 CborDec JsonFloat JsonEnc JsonDec.
Import ListNotations.
Open Scope Z_scope.

(* what may follow a number without being scanned as part of it *)
Definition is_numchar (b : Z) : bool :=
  is_digit b || (b =? 46) || (b =? 101) || (b =? 69) || (b =? 43) || (b =? 45).
Definition terminator_ok (rest : bytes) : Prop :=
  match rest with [] => True | b :: _ => is_numchar b = false end.

(* ---------- auxiliary development ------------------------------------------ *)

Ltac Zify.zify_post_hook ::= Z.div_mod_to_equations.

Definition digitP (x : Z) : Prop := is_digit x = true.

Lemma is_digit_range : forall d, is_digit d = true <-> 48 <= d <= 57.
Proof. intros d; unfold is_digit; lia. Qed.

(* ----- the printer ----- *)

Lemma dec_digits_S : forall f n acc,
  dec_digits (S f) n acc =
  if n <? 10 then (48 + n mod 10) :: acc
  else dec_digits f (n / 10) ((48 + n mod 10) :: acc).
Proof. reflexivity. Qed.

(* no upper bound on n needed: when the fuel runs out the output is still a
   non-empty digit string (the low-order digits) *)
Lemma dec_digits_head : forall f n acc, 0 <= n ->
  exists d ds, dec_digits (S f) n acc = d :: ds /\ is_digit d = true.
Proof.
  induction f as [|f IH]; intros n acc Hn; rewrite dec_digits_S;
    destruct (n <? 10) eqn:E.
  - exists (48 + n mod 10), acc. split; [reflexivity|]. apply is_digit_range. lia.
  - cbn [dec_digits].
    exists (48 + n mod 10), acc. split; [reflexivity|]. apply is_digit_range. lia.
  - exists (48 + n mod 10), acc. split; [reflexivity|]. apply is_digit_range. lia.
  - apply IH. lia.
Qed.

Lemma digits_val_app : forall a b acc,
  digits_val (a ++ b) acc = digits_val b (digits_val a acc).
Proof.
  induction a as [|x a IH]; intros b acc; cbn [app digits_val]; [reflexivity|].
  apply IH.
Qed.

Lemma dec_digits_spec : forall f n acc, 0 <= n < 10 ^ Z.of_nat (S f) ->
  exists d tl,
    dec_digits (S f) n acc = (d :: tl) ++ acc /\
    Forall digitP (d :: tl) /\
    digits_val (d :: tl) 0 = n /\
    (d = 48 -> n = 0 /\ tl = []).
Proof.
  induction f as [|f IH]; intros n acc Hn; rewrite dec_digits_S;
    destruct (n <? 10) eqn:E.
  - exists (48 + n mod 10), []. repeat split.
    + constructor; [|constructor]. apply is_digit_range. lia.
    + cbn [digits_val]. lia.
    + lia.
  - exfalso. change (10 ^ Z.of_nat 1) with 10 in Hn. lia.
  - exists (48 + n mod 10), []. repeat split.
    + constructor; [|constructor]. apply is_digit_range. lia.
    + cbn [digits_val]. lia.
    + lia.
  - rewrite Nat2Z.inj_succ, Z.pow_succ_r in Hn by lia.
    destruct (IH (n / 10) ((48 + n mod 10) :: acc)) as (d & tl & Heq & HF & Hv & H48).
    { lia. }
    exists d, (tl ++ [48 + n mod 10]). split; [|split; [|split]].
    + rewrite Heq. cbn [app]. rewrite <- app_assoc. reflexivity.
    + change (d :: tl ++ [48 + n mod 10]) with ((d :: tl) ++ [48 + n mod 10]).
      apply Forall_app. split; [assumption|].
      constructor; [|constructor]. apply is_digit_range. lia.
    + change (d :: tl ++ [48 + n mod 10]) with ((d :: tl) ++ [48 + n mod 10]).
      rewrite digits_val_app, Hv. cbn [digits_val]. lia.
    + intros Hd. destruct (H48 Hd) as [H0 _]. exfalso. lia.
Qed.

Lemma max_uint64_lt_pow : max_uint64 < 10 ^ Z.of_nat 20.
Proof. vm_compute. reflexivity. Qed.

Lemma print_uint_spec : forall u, 0 <= u <= max_uint64 ->
  exists d tl,
    print_uint u = d :: tl /\
    Forall digitP (d :: tl) /\
    digits_val (d :: tl) 0 = u /\
    (d = 48 -> u = 0 /\ tl = []).
Proof.
  intros u Hu. unfold print_uint.
  destruct (dec_digits_spec 19 u []) as (d & tl & Heq & HF & Hv & H48).
  { pose proof max_uint64_lt_pow. lia. }
  exists d, tl. rewrite Heq, app_nil_r. auto.
Qed.

(* ----- the scanner ----- *)

Lemma numchar_false : forall c, is_numchar c = false ->
  is_digit c = false /\ (c =? 46) = false /\ (c =? 101) = false /\ (c =? 69) = false.
Proof.
  unfold is_numchar. intros c H.
  repeat (apply orb_false_iff in H; destruct H as [H ?]).
  repeat split; assumption.
Qed.

Lemma step_N1_term : forall c, is_numchar c = false -> num_step N1 c = (None, true).
Proof.
  intros c H. destruct (numchar_false c H) as (H1 & H2 & H3 & H4).
  unfold num_step. rewrite H1, H2, H3, H4. reflexivity.
Qed.

Lemma step_N0_term : forall c, is_numchar c = false -> num_step N0 c = (None, true).
Proof.
  intros c H. destruct (numchar_false c H) as (H1 & H2 & H3 & H4).
  unfold num_step. rewrite H2, H3, H4. reflexivity.
Qed.

Lemma step_N1_digit : forall c, is_digit c = true -> num_step N1 c = (Some N1, true).
Proof. intros c H. unfold num_step. rewrite H. reflexivity. Qed.

Lemma step_NNeg_digit : forall c, is_digit c = true ->
  num_step NNeg c = (Some (if c =? 48 then N0 else N1), true).
Proof. intros c H. unfold num_step. rewrite H. destruct (c =? 48); reflexivity. Qed.

Lemma scan_N0 : forall rest acc, terminator_ok rest ->
  num_scan N0 rest acc = inl (rev acc, rest).
Proof.
  intros [|c r] acc HT; [reflexivity|].
  cbn [num_scan]. rewrite (step_N0_term c HT). reflexivity.
Qed.

Lemma scan_N1 : forall ds rest acc, Forall digitP ds -> terminator_ok rest ->
  num_scan N1 (ds ++ rest) acc = inl (rev acc ++ ds, rest).
Proof.
  induction ds as [|d ds IH]; intros rest acc HF HT.
  - cbn [app]. rewrite app_nil_r. destruct rest as [|c r]; [reflexivity|].
    cbn [num_scan]. rewrite (step_N1_term c HT). reflexivity.
  - inversion HF as [|? ? Hd Hds]; subst.
    cbn [app num_scan]. rewrite (step_N1_digit d Hd).
    rewrite (IH rest (d :: acc) Hds HT). cbn [rev]. rewrite <- app_assoc. reflexivity.
Qed.

(* ----- the token reader ----- *)

Lemma take_digits_all : forall ds acc, Forall digitP ds ->
  take_digits ds acc = (rev acc ++ ds, []).
Proof.
  induction ds as [|d ds IH]; intros acc HF.
  - cbn [take_digits]. rewrite app_nil_r. reflexivity.
  - inversion HF as [|? ? Hd Hds]; subst.
    cbn [take_digits]. rewrite Hd. rewrite (IH (d :: acc) Hds).
    cbn [rev]. rewrite <- app_assoc. reflexivity.
Qed.

Lemma strip_neg_not45 : forall (text : bytes) (d : Z) (tl : bytes), text = d :: tl -> d <> 45 ->
  (match text with 45 :: r => (true, r) | _ => (false, text) end) = (false, text).
Proof.
  intros text d tl -> H.
  destruct d as [|p|p]; try reflexivity.
  do 6 (destruct p as [p|p|]; try reflexivity).
  congruence.
Qed.

Lemma num_token_pos : forall d tl, Forall digitP (d :: tl) ->
  num_token (d :: tl) =
  let v := digits_val (d :: tl) 0 in
  if (min_int64 <=? v) && (v <=? max_int64) then inl (Int v)
  else if v <=? max_uint64 then inl (Uint v)
  else inr EMalformed.
Proof.
  intros d tl HF.
  assert (Hd : d <> 45).
  { inversion HF as [|? ? Hd _]; subst. apply is_digit_range in Hd. lia. }
  unfold num_token. rewrite (strip_neg_not45 (d :: tl) d tl eq_refl Hd).
  rewrite (take_digits_all (d :: tl) [] HF). reflexivity.
Qed.

Lemma num_token_neg : forall ds, Forall digitP ds ->
  num_token (45 :: ds) =
  let v := digits_val ds 0 in
  if (min_int64 <=? - v) && (- v <=? max_int64) then inl (Int (- v))
  else inr EMalformed.
Proof.
  intros ds HF. unfold num_token. cbv iota beta.
  rewrite (take_digits_all ds [] HF). reflexivity.
Qed.

(* ----- the number reader on digit strings ----- *)

Lemma dec_number_digits : forall d tl rest,
  Forall digitP (d :: tl) -> (d = 48 -> tl = []) -> terminator_ok rest ->
  dec_number d (tl ++ rest) =
  match num_token (d :: tl) with inl v => inl (v, rest) | inr e => inr e end.
Proof.
  intros d tl rest HF H48 HT. inversion HF as [|? ? Hd Htl]; subst.
  apply is_digit_range in Hd.
  unfold dec_number.
  destruct (d =? 45) eqn:E45; [lia|].
  destruct (d =? 48) eqn:E48.
  - rewrite (H48 ltac:(lia)). cbn [app]. rewrite (scan_N0 rest [] HT). reflexivity.
  - rewrite (scan_N1 tl rest [] Htl HT). reflexivity.
Qed.

Lemma dec_number_45 : forall bs,
  dec_number 45 bs =
  match num_scan NNeg bs [] with
  | inr e => inr e
  | inl (more, rest) =>
      match num_token (45 :: more) with inl v => inl (v, rest) | inr e => inr e end
  end.
Proof. reflexivity. Qed.

Lemma dec_number_neg_digits : forall d tl rest,
  Forall digitP (d :: tl) -> (d = 48 -> tl = []) -> terminator_ok rest ->
  dec_number 45 ((d :: tl) ++ rest) =
  match num_token (45 :: d :: tl) with inl v => inl (v, rest) | inr e => inr e end.
Proof.
  intros d tl rest HF H48 HT. inversion HF as [|? ? Hd Htl]; subst.
  rewrite dec_number_45. cbn [app num_scan]. rewrite (step_NNeg_digit d Hd).
  destruct (d =? 48) eqn:E48.
  - rewrite (H48 ltac:(lia)). cbn [app]. rewrite (scan_N0 rest [d] HT). reflexivity.
  - rewrite (scan_N1 tl rest [d] Htl HT). reflexivity.
Qed.

Lemma dec_number_print_uint_aux : forall u rest, 0 <= u <= max_uint64 -> terminator_ok rest ->
  match print_uint u with
  | first :: more => dec_number first (more ++ rest) = inl ((if u <=? max_int64 then Int u else Uint u), rest)
  | [] => False
  end.
Proof.
  intros u rest Hu HT.
  destruct (print_uint_spec u Hu) as (d & tl & Heq & HF & Hv & H48).
  rewrite Heq.
  rewrite (dec_number_digits d tl rest HF (fun H => proj2 (H48 H)) HT).
  rewrite (num_token_pos d tl HF). cbv zeta. rewrite Hv.
  destruct Hu as [Hu0 Hu1].
  assert (Hmin : (min_int64 <=? u) = true) by (unfold min_int64; lia).
  rewrite Hmin. cbn [andb].
  destruct (u <=? max_int64) eqn:E; [reflexivity|].
  assert (Hmax : (u <=? max_uint64) = true) by lia.
  rewrite Hmax. reflexivity.
Qed.

(* STATEMENTS TO PROVE (do not change them) *)

Theorem print_uint_nonempty : forall u, 0 <= u -> exists d ds, print_uint u = d :: ds /\ is_digit d = true.
Proof. intros u Hu. unfold print_uint. apply dec_digits_head. assumption. Qed.

Theorem dec_number_print_int : forall i rest, min_int64 <= i <= max_int64 -> terminator_ok rest ->
  match print_int i with
  | first :: more => dec_number first (more ++ rest) = inl (Int i, rest)
  | [] => False
  end.
Proof.
  intros i rest Hi HT. unfold print_int.
  destruct (i <? 0) eqn:Eneg.
  - assert (Hu : 0 <= - i <= max_uint64).
    { unfold min_int64, max_int64, max_uint64 in *. lia. }
    destruct (print_uint_spec (- i) Hu) as (d & tl & Heq & HF & Hv & H48).
    rewrite Heq.
    assert (H48' : d = 48 -> tl = []) by (intros H; exact (proj2 (H48 H))).
    rewrite (dec_number_neg_digits d tl rest HF H48' HT).
    rewrite (num_token_neg (d :: tl) HF). cbv zeta. rewrite Hv.
    rewrite Z.opp_involutive.
    destruct Hi as [Hi0 Hi1].
    assert (Hmin : (min_int64 <=? i) = true) by lia.
    assert (Hmax : (i <=? max_int64) = true) by lia.
    rewrite Hmin, Hmax. reflexivity.
  - assert (Hu : 0 <= i <= max_uint64).
    { unfold min_int64, max_int64, max_uint64 in *. lia. }
    pose proof (dec_number_print_uint_aux i rest Hu HT) as H.
    destruct (print_uint i) as [|first more]; [exact H|].
    rewrite H.
    assert (Hmax : (i <=? max_int64) = true) by lia.
    rewrite Hmax. reflexivity.
Qed.

Theorem dec_number_print_uint : forall u rest, 0 <= u <= max_uint64 -> terminator_ok rest ->
  match print_uint u with
  | first :: more => dec_number first (more ++ rest) = inl ((if u <=? max_int64 then Int u else Uint u), rest)
  | [] => False
  end.
Proof. exact dec_number_print_uint_aux. Qed.

Print Assumptions print_uint_nonempty.
Print Assumptions dec_number_print_int.
Print Assumptions dec_number_print_uint.
