(* Writer.v — write faults (C16).  The encoders write through a wrapper that
   remembers the first failed or short Write (cbor: quickWriterStream; json:
   the sticky writer added by fix D10) and every Step that wrote returns that
   error.  A fault plan says which Write call (counted from 1 over the whole
   run) misbehaves, how, and whether it keeps failing. *)
From Coq Require Import List ZArith Bool Lia.
Require Import Tok CborEnc JsonEnc.
Import ListNotations.
Open Scope Z_scope.

Inductive wfault := WErr | WShort | WBoth.   (* error with full count | short count, no error | both *)

Record wplan := WPlan { wk : nat ; wstop : bool ; wkind : wfault }.

(* a short count is only possible on a non-empty chunk *)
Definition effective (f : wfault) (c : chunk) : bool :=
  match f with WShort => negb (Nat.eqb (length c) 0) | _ => true end.

(* does the plan hit one of the writes numbered nw+1 .. nw+|out| ? *)
Fixpoint hits (p : wplan) (nw : nat) (out : list chunk) : bool :=
  match out with
  | [] => false
  | c :: rest =>
      let i := S nw in
      ((Nat.eqb i (wk p) || (wstop p && Nat.leb (wk p) i)) && effective (wkind p) c) || hits p i rest
  end.

Inductive wres :=
| WReported (tok_index : nat)     (* Step number tok_index returned the write error *)
| WFinished (used : nat)          (* finished without ever reporting *)
| WTokenErr (used : nat)          (* the token stream itself was rejected first *)
| WStarved
| WPanic.

Fixpoint enc_run_w (p : wplan) (s : enc_state) (ts : list token) (nw : nat) (n : nat) : wres :=
  match ts with
  | [] => WStarved
  | t :: rest =>
      let '(s', out, r) := enc_step s t in
      match r with
      | RErr => WTokenErr (S n)
      | RPanic => WPanic
      | RCont => if hits p nw out then WReported (S n) else enc_run_w p s' rest (nw + length out) (S n)
      | RDone => if hits p nw out then WReported (S n) else WFinished (S n)
      end
  end.

Definition cbor_write_faulty (p : wplan) (ts : list token) : wres := enc_run_w p enc_init ts 0 0.

Fixpoint jenc_run_w (sh : Z -> list Z * Z) (o : jopts) (p : wplan) (s : jenc_state) (ts : list token) (nw : nat) (n : nat) : wres :=
  match ts with
  | [] => WStarved
  | t :: rest =>
      let '(s', out, r) := jenc_step sh o s t in
      match r with
      | RPanic => WPanic
      | RErr => if hits p nw out then WReported (S n) else WTokenErr (S n)
      | RCont => if hits p nw out then WReported (S n) else jenc_run_w sh o p s' rest (nw + length out) (S n)
      | RDone => if hits p nw out then WReported (S n) else WFinished (S n)
      end
  end.

Definition json_write_faulty sh o (p : wplan) (ts : list token) : wres := jenc_run_w sh o p jenc_init ts 0 0.
