(* Properties_C11.v — C11: Clone produces an equal and fully independent deep copy.
   Independence (this file, Alias.v / AliasProof.v): Clone is a marshaller
   pumped into an unmarshaller; the only token that carries a reference into the
   source is the byte-string token, and the unmarshaller copies it — so the
   destination is built entirely from storage the allocator hands out during
   the call.  Equality of source and destination is the token round trip of
   C01 (statements added from RoundTripProof.v when it lands); the source is
   never written: the model's marshaller is a function of its argument. *)
From Coq Require Import List Arith.
Require Import Alias AliasProof.
Import ListNotations.

(* whatever the source's shape: the clone exists, has the same shape, and no mutable storage
   (backing arrays of slices and byte slices, map tables, pointer targets) reachable from it
   is reachable from the source — so no mutation through one is visible through the other *)
Theorem C11_clone_is_an_independent_copy : forall next v,
  (forall l, In l (locs v) -> l < next) ->
  exists x, aclone true (asize v) next v = Some x /\ shape x = shape v /\
            forall l, In l (locs x) -> ~ In l (locs v).
Proof. exact clone_is_independent_copy. Qed.
Print Assumptions C11_clone_is_an_independent_copy.

Theorem C11_no_shared_storage : forall f next v x,
  aclone true f next v = Some x -> (forall l, In l (locs v) -> l < next) ->
  forall l, In l (locs x) -> ~ In l (locs v).
Proof. exact clone_shares_no_storage. Qed.

(* the behaviour before the repair (D8), for the record: byte tokens stored by reference *)
Example C11_refuted_without_copy :
  exists l, In l (locs (ASlice 1 [ABytes 2; AScalar])) /\
            match aclone false 10 100 (ASlice 1 [ABytes 2; AScalar]) with Some x => In l (locs x) | None => False end.
Proof. exists 2. cbn. auto. Qed.

Example C11_example :
  aclone true 10 100 (ASlice 1 [ABytes 2; APtr 3 (AMap 4 [ABytes 5])]) = Some (ASlice 100 [ABytes 101; APtr 102 (AMap 103 [ABytes 104])]).
Proof. reflexivity. Qed.
