(* Reuse.v — long-lived codec instances (C17).  The Go Encoder/Decoder structs
   keep their phase stacks between calls; the helpers (Marshaller, Unmarshaller)
   call Reset before every item.  Reset is transcribed field by field from
   cbor/cborEncoder.go:29, cbor/cborDecoder.go:43, json/jsonEncoder.go:19,
   json/jsonDecoder.go:32; a call on a reused instance is "Reset, then run". *)
From Coq Require Import List ZArith Bool.
Require Import Tok CborEnc CborDec JsonEnc JsonDec.
Import ListNotations.
Open Scope Z_scope.

(* d.stack = d.stack[0:0]; d.current = phase_anyExpectValue *)
Definition enc_reset (s : enc_state) : enc_state := EncSt EAny (firstn 0 (estack s)).
(* d.stack = d.stack[0:0]; d.phase = decoderPhase_acceptValue; d.left = d.left[0:0]   (the reader is kept) *)
Definition dec_reset (s : dec_state) : dec_state := DecSt DAny (firstn 0 (dstack s)) (firstn 0 (dleft s)) (dinp s).
(* d.stack = d.stack[0:0]; d.current = phase_anyExpectValue; d.some = false *)
Definition jenc_reset (s : jenc_state) : jenc_state := JEncSt JAny (firstn 0 (jstack s)) false.
(* d.stack = d.stack[0:0]; d.frame = stackFrame{d.step_acceptValue, false}   (the reader is kept) *)
Definition jdec_reset (s : jdec_state) : jdec_state := JDecSt (JFrame KAny false) (firstn 0 (jdstack s)) (jdinp s).

(* a call on a reused instance, whatever state the previous call (finished, failed or abandoned) left behind *)
Definition enc_call (s : enc_state) (ts : list token) : run_res := enc_run (enc_reset s) ts [] 0.
Definition dec_call (coerce : bool) (s : dec_state) : drun_res :=
  dec_loop (2 * length (dinp s) + 2) coerce (dec_reset s) [] 0.
Definition jenc_call (sh : Z -> list Z * Z) (o : jopts) (s : jenc_state) (ts : list token) : jrun_res :=
  jenc_run sh o (jenc_reset s) ts 0.
Definition jdec_call (s : jdec_state) : jdrun_res := jdec_loop (length (jdinp s) + 2) (jdec_reset s) [].

