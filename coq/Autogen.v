(* Autogen.v — model of atlas.AutogenerateStructMapEntryUsingTags
   (obj/atlas/structMapAutogen.go): the breadth-first exploration of a struct
   type's fields and embedded structs [explore], transcribed statement by
   statement, and next to it the specification it is meant to implement
   [selected]: Go's promotion rules applied to refmt's serial names.

   Struct type declarations are descriptors: for each struct id the list of
   its fields (Go name, exported?, embedded?, the value of the tag key, type).
   reflect.StructTag.Get is Go's; the model starts from the tag *value*.

   Modelled behaviour is the one after the fix commits (known_findings.json):
   D13 the default name lower-cases the first *rune* of the field name;
   D18 embedded fields of unexported type are never mapped themselves (non-struct: skipped;
       struct: only its promoted fields, whatever the tag says);
   D19 fields below an embedded type that is reachable along several paths
       are ambiguous (the multiplicity is carried down the levels). *)
From Coq Require Import List ZArith Bool Lia.
Require Import Tok Utf8 GoVal.
Import ListNotations.
Open Scope Z_scope.

Record sfield := SF {
  sf_name : bytes ;       (* Go field name; for an embedded field the type's name *)
  sf_exported : bool ;    (* PkgPath == "" *)
  sf_anon : bool ;        (* embedded *)
  sf_tag : bytes ;        (* value of the tag key, [] when absent *)
  sf_type : gtype }.

Definition senv := list (Z * list sfield).

Fixpoint senv_get (SE : senv) (id : Z) : option (list sfield) :=
  match SE with
  | [] => None
  | (i, fs) :: r => if i =? id then Some fs else senv_get r id
  end.

Record cand := Cand {
  c_name : bytes ; c_route : list nat ; c_type : gtype ; c_tagged : bool ; c_omit : bool }.

(* ---------- tags and names -------------------------------------------------------- *)

(* parseTag: split at the first comma *)
Fixpoint tag_split (s : bytes) (acc : bytes) : bytes * bytes :=
  match s with
  | [] => (rev acc, [])
  | x :: r => if x =? 44 then (rev acc, r) else tag_split r (x :: acc)
  end.

(* tagOptions.Contains: a comma-separated option equal to name *)
Fixpoint opts_contains_fuel (fuel : nat) (opts name : bytes) : bool :=
  match fuel with
  | O => false
  | S f =>
    match opts with
    | [] => false
    | _ => let '(o, rest) := tag_split opts [] in
           if bytes_eqb o name then true else opts_contains_fuel f rest name
    end
  end.
Definition opts_contains (opts name : bytes) : bool := opts_contains_fuel (S (length opts)) opts name.

Definition omitempty_word : bytes := [111;109;105;116;101;109;112;116;121].

(* isValidTag, on bytes: the listed ASCII punctuation, ASCII letters and digits; bytes >= 128 are
   parts of non-ASCII runes, which the harness only draws from letters *)
Definition tag_punct : bytes := [33;35;36;37;38;40;41;42;43;45;46;47;58;60;61;62;63;64;91;93;94;95;123;124;125;126;32].
Definition tag_byte_ok (c : Z) : bool :=
  existsb (Z.eqb c) tag_punct
  || ((48 <=? c) && (c <=? 57)) || ((65 <=? c) && (c <=? 90)) || ((97 <=? c) && (c <=? 122)) || (128 <=? c).
Definition is_valid_tag (s : bytes) : bool :=
  match s with [] => false | _ => forallb tag_byte_ok s end.

(* unicode.ToLower on the ranges the harness draws first letters from: ASCII, Latin-1, Greek, Cyrillic *)
Definition rune_lower (r : Z) : Z :=
  if (65 <=? r) && (r <=? 90) then r + 32
  else if (192 <=? r) && (r <=? 222) && negb (r =? 215) then r + 32
  else if (913 <=? r) && (r <=? 937) && negb (r =? 930) then r + 32
  else if (1040 <=? r) && (r <=? 1071) then r + 32
  else if (1024 <=? r) && (r <=? 1039) then r + 80
  else r.

Fixpoint drop {X} (n : nat) (l : list X) : list X :=
  match n, l with O, _ => l | S k, _ :: r => drop k r | _, [] => [] end.

Definition downcase_first (s : bytes) : bytes :=
  match s with
  | [] => []
  | _ => let '(r, n) := decode_rune s in
         let r' := rune_lower r in
         if r' =? r then s else encode_rune r' ++ drop (Z.to_nat n) s
  end.

(* ---------- classification of one field -------------------------------------------- *)

Definition follow (t : gtype) : gtype := match t with GPtr t' => t' | _ => t end.
Definition struct_id (t : gtype) : option Z := match t with GStruct id => Some id | _ => None end.

Inductive fclass := FSkip | FCand (c : cand) | FEmbed (id : Z).

Definition classify (route : list nat) (i : nat) (sf : sfield) : fclass :=
  if negb (sf_exported sf) && negb (sf_anon sf) then FSkip
  else
    let ft := follow (sf_type sf) in
    if sf_anon sf && negb (sf_exported sf) && match struct_id ft with None => true | Some _ => false end then FSkip
    else if bytes_eqb (sf_tag sf) [45] then FSkip
    else
      let '(nm0, opts) := tag_split (sf_tag sf) [] in
      (* an embedded field of unexported type is itself unexported: a tag cannot make it a mapped field *)
      let nm := if is_valid_tag nm0 && negb (sf_anon sf && negb (sf_exported sf)) then nm0 else [] in
      let tagged := match nm with [] => false | _ => true end in
      let mk := FCand (Cand (if tagged then nm else downcase_first (sf_name sf)) (route ++ [i]) (sf_type sf)
                            tagged (opts_contains opts omitempty_word)) in
      if tagged || negb (sf_anon sf) then mk
      else match struct_id ft with
           | None => mk
           | Some id => FEmbed id
           end.

(* ---------- the breadth-first exploration ------------------------------------------- *)

Definition counts := list (Z * nat).
Fixpoint count_get (c : counts) (id : Z) : nat :=
  match c with [] => O | (i, n) :: r => if i =? id then n else count_get r id end.
Fixpoint count_add (c : counts) (id : Z) (k : nat) : counts :=
  match c with
  | [] => [(id, k)]
  | (i, n) :: r => if i =? id then (i, (n + k)%nat) :: r else (i, n) :: count_add r id k
  end.

Record bfs_acc := Acc { b_next : list (list nat * Z) ; b_ncount : counts ; b_fields : list cand }.

(* scan the fields of one struct reached along [route] with multiplicity [mult] *)
Fixpoint scan (fs : list sfield) (i : nat) (route : list nat) (mult : nat) (a : bfs_acc) : bfs_acc :=
  match fs with
  | [] => a
  | sf :: r =>
    let a' :=
      match classify route i sf with
      | FSkip => a
      | FCand c =>
          Acc (b_next a) (b_ncount a)
              (b_fields a ++ (if Nat.ltb 1 mult then [c; c] else [c]))
      | FEmbed id =>
          let n0 := count_get (b_ncount a) id in
          Acc (if Nat.eqb n0 0 then b_next a ++ [(route ++ [i], id)] else b_next a)
              (count_add (b_ncount a) id (if Nat.ltb 1 mult then 2%nat else 1%nat))
              (b_fields a)
      end in
    scan r (S i) route mult a'
  end.

Fixpoint level (SE : senv) (cur : list (list nat * Z)) (count : counts) (visited : list Z) (a : bfs_acc)
  : list Z * bfs_acc :=
  match cur with
  | [] => (visited, a)
  | (route, id) :: r =>
      if existsb (Z.eqb id) visited then level SE r count visited a
      else
        let fs := match senv_get SE id with Some fs => fs | None => [] end in
        level SE r count (id :: visited) (scan fs O route (count_get count id) a)
  end.

Fixpoint bfs (fuel : nat) (SE : senv) (cur : list (list nat * Z)) (count : counts) (visited : list Z)
             (fields : list cand) : list cand :=
  match fuel with
  | O => fields
  | S f =>
    match cur with
    | [] => fields
    | _ => let '(visited', a) := level SE cur count visited (Acc [] [] fields) in
           bfs f SE (b_next a) (b_ncount a) visited' (b_fields a)
    end
  end.

(* ---------- orders ---------------------------------------------------------------------- *)

Fixpoint route_ltb (a b : list nat) : bool :=
  match a, b with
  | [], [] => false
  | [], _ :: _ => true
  | _ :: _, [] => false
  | x :: a', y :: b' => if Nat.ltb x y then true else if Nat.ltb y x then false else route_ltb a' b'
  end.

(* StructMapEntry_byName.Less *)
Definition by_name_ltb (x y : cand) : bool :=
  if negb (bytes_eqb (c_name x) (c_name y)) then bytes_ltb (c_name x) (c_name y)
  else if negb (Nat.eqb (length (c_route x)) (length (c_route y))) then Nat.ltb (length (c_route x)) (length (c_route y))
  else if negb (Bool.eqb (c_tagged x) (c_tagged y)) then c_tagged x
  else route_ltb (c_route x) (c_route y).

Fixpoint insert_by {X} (lt : X -> X -> bool) (x : X) (l : list X) : list X :=
  match l with
  | [] => [x]
  | y :: r => if lt x y then x :: l else y :: insert_by lt x r
  end.
Definition sort_by {X} (lt : X -> X -> bool) (l : list X) : list X := fold_right (insert_by lt) [] l.

(* dominantField over a run of equally named candidates sorted by depth, tagged first *)
Definition dominant (run : list cand) : option cand :=
  match run with
  | [] => None
  | c0 :: _ =>
      let d := length (c_route c0) in
      let top := filter (fun c => Nat.eqb (length (c_route c)) d) run in
      match filter c_tagged top with
      | [t] => Some t
      | _ :: _ :: _ => None
      | [] => match top with [c] => Some c | _ => None end
      end
  end.

(* group a name-sorted list into runs of equal names and keep each run's dominant field *)
Fixpoint take_run (n : bytes) (l : list cand) : list cand * list cand :=
  match l with
  | [] => ([], [])
  | c :: r => if bytes_eqb (c_name c) n then let '(a, b) := take_run n r in (c :: a, b) else ([], l)
  end.

Fixpoint dominate (fuel : nat) (l : list cand) : list cand :=
  match fuel with
  | O => []
  | S f =>
    match l with
    | [] => []
    | c :: r =>
        let '(run, rest) := take_run (c_name c) r in
        match run with
        | [] => c :: dominate f rest
        | _ => match dominant (c :: run) with
               | Some d => d :: dominate f rest
               | None => dominate f rest
               end
        end
    end
  end.

Definition final_sort (mode : Z) (l : list cand) : list cand :=
  if mode =? 0 then sort_by (fun x y => route_ltb (c_route x) (c_route y)) l
  else if mode =? 2 then sort_by (fun x y => rfc7049_ltb (c_name x) (c_name y)) l
  else l.

Definition explore (SE : senv) (id : Z) (mode : Z) : list cand :=
  let raw := bfs (S (S (length SE))) SE [([], id)] [] [] [] in
  let sorted := sort_by by_name_ltb raw in
  final_sort mode (dominate (S (length sorted)) sorted).

Definition cand_entry (c : cand) : field_entry := FE (c_name c) (c_route c) (c_type c) (c_omit c) false.
Definition autogen_entry (SE : senv) (id : Z) (mode : Z) : atlas_entry :=
  AE (GStruct id) None (EStruct (map cand_entry (explore SE id mode))).

(* ---------- the specification: Go's promotion rules on serial names ----------------- *)

(* every candidate along every embedding path, to a depth bound *)
Fixpoint unfold (fuel : nat) (SE : senv) (id : Z) (route : list nat) : list cand :=
  match fuel with
  | O => []
  | S f =>
    let fs := match senv_get SE id with Some fs => fs | None => [] end in
    (fix go (fs : list sfield) (i : nat) : list cand :=
       match fs with
       | [] => []
       | sf :: r =>
           match classify route i sf with
           | FSkip => go r (S i)
           | FCand c => c :: go r (S i)
           | FEmbed id' => unfold f SE id' (route ++ [i]) ++ go r (S i)
           end
       end) fs O
  end.

Definition depth_of (c : cand) : nat := length (c_route c).

Definition select_name (all : list cand) (n : bytes) : option cand :=
  let same := filter (fun c => bytes_eqb (c_name c) n) all in
  let d := fold_right Nat.min (match same with c :: _ => depth_of c | [] => O end) (map depth_of same) in
  let top := filter (fun c => Nat.eqb (depth_of c) d) same in
  match top with
  | [c] => Some c
  | _ => match filter c_tagged top with [t] => Some t | _ => None end
  end.

Fixpoint dedup_names (l : list bytes) : list bytes :=
  match l with
  | [] => []
  | x :: r => if existsb (bytes_eqb x) r then dedup_names r else x :: dedup_names r
  end.

(* the selected fields, in no particular order *)
Definition selected (SE : senv) (id : Z) : list cand :=
  let all := unfold (S (length SE)) SE id [] in
  flat_map (fun n => match select_name all n with Some c => [c] | None => [] end)
           (dedup_names (map c_name all)).

(* comparison as sets of (name, route, type, omitempty) *)
Definition gtype_eq_dec_b := gtype_eqb.
Definition cand_eqb (x y : cand) : bool :=
  bytes_eqb (c_name x) (c_name y) && (if list_eq_dec Nat.eq_dec (c_route x) (c_route y) then true else false)
  && gtype_eqb (c_type x) (c_type y) && Bool.eqb (c_omit x) (c_omit y).
Definition same_set (a b : list cand) : bool :=
  Nat.eqb (length a) (length b) && forallb (fun x => existsb (cand_eqb x) b) a && forallb (fun y => existsb (cand_eqb y) a) b.

Definition explore_matches_spec (SE : senv) (id : Z) (mode : Z) : bool :=
  same_set (explore SE id mode) (selected SE id).
