(* Properties_C10.v — C10: streaming transcoding between JSON and CBOR
   preserves the document.  Statements are added as the proofs land. *)
From Coq Require Import List ZArith.
Require Import Tok CborEnc CborDec JsonEnc JsonDec Pump.
Import ListNotations.
Open Scope Z_scope.

(* sanity (kernel-evaluated) *)
Example C10_j2c_example : pump_j2c [91; 49; 44; 32; 34; 120; 34; 93; 32] = PumpOk [159; 1; 97; 120; 255] [32].
Proof. vm_compute. reflexivity. Qed.
Example C10_error_example : pump_j2c [123; 49; 58; 50; 125] = PumpErr.
Proof. vm_compute. reflexivity. Qed.
