(* Properties_C10.v — C10: streaming transcoding between JSON and CBOR preserves
   the document.  Statements only; proofs in TranscodeProof.v, which composes
   the codec theorems of C02/C03/C04/C05/C14 through the pump model (Pump.v).

   The float statements are parameterised by the shortest-digits oracle [sh]
   (strconv), exactly as in C03: [float_ok b] are the floats for which the
   oracle's digits re-read as [fnorm b] (hypothesis Hflt, validated per case by
   the correspondence run); the *_float_free statements carry no hypothesis. *)
From Coq Require Import List ZArith.
Require Import Tok TokGrammar TokGrammarProof CborSpec CborEnc CborDec CborParse CborRoundtrip JsonEnc JsonDec JsonParse
               JsonNumProof JsonEncProof EncAccept Pump TranscodeProof PumpStream.
Import ListNotations.
Open Scope Z_scope.

(* ---- JSON text -> CBOR ---------------------------------------------------------- *)
(* total on valid JSON; consumes exactly one item, produces exactly one item (out = the RFC encoding of the
   value tree read from the text), which decodes to the same tokens up to CBOR's spelling of non-negative
   integers (canon_tok: Int n >= 0 reads back as Uint n) *)
Theorem C10_json_to_cbor : forall c bs toks rest,
  jdec_run bs = JDOk toks rest -> str_cap_ok toks = true ->
  exists out,
    pump_j2c bs = PumpOk out rest /\
    (forall tail, exists a, dec_run c (out ++ tail) = DOk (map canon_tok toks) tail a) /\
    (exists n, jparse_item true bs = POk n rest /\ toks = flatten n /\ out = rfc_enc n /\
               parse_item c out = POk (canon n) []) /\
    (exists used, bs = used ++ rest /\ used <> []).
Proof. exact pump_j2c_value. Qed.
Print Assumptions C10_json_to_cbor.

(* an input error surfaces as a pump error, and only then *)
Theorem C10_json_to_cbor_error_iff : forall bs,
  pump_j2c bs = PumpErr <-> exists e, jparse_item true bs = PErr e.
Proof. exact pump_j2c_err_iff. Qed.

(* ---- CBOR -> JSON text ---------------------------------------------------------- *)
Theorem C10_cbor_to_json : forall sh (float_ok : Z -> Prop) fnorm,
  (forall b rest, float_ok b -> terminator_ok rest ->
    exists first more, emit_float sh b = Some [first :: more] /\
      (first = 45 \/ is_digit first = true) /\ is_leaf (fnorm b) = true /\
      dec_number first (more ++ rest) = inl (leaf_tok (fnorm b), rest) /\
      match fnorm b with VInt _ | VUint _ | VFlt _ => True | _ => False end) ->
  forall o c bs toks rest a,
    ws_opts o -> bytes_ok bs -> dec_run c bs = DOk toks rest a ->
    Forall (jtok_ok float_ok) toks -> json_keys_ok toks = true ->
    exists out,
      pump_c2j sh o c bs = PumpOk out rest /\
      jdec_run out = JDOk (map (jnorm_tok fnorm) toks) (jtail o toks) /\
      (exists n, parse_item c bs = POk n rest /\ toks = flatten n /\
                 exists fuel, jpvalue fuel false out = POk (jnorm fnorm n) (jtail o toks)).
Proof. exact pump_c2j_value. Qed.
Print Assumptions C10_cbor_to_json.

(* the error side, for any oracle: the pump fails exactly when the input is not well-formed CBOR or the
   document is outside JSON's data model (byte strings, non-finite floats, non-string keys) *)
Theorem C10_cbor_to_json_error_iff : forall sh o c bs,
  pump_c2j sh o c bs = PumpErr <->
  (exists e toks a, dec_run c bs = DFail e toks a) \/
  (exists toks rest a, dec_run c bs = DOk toks rest a /\
                       (json_repr_all toks = false \/ json_keys_ok toks = false)).
Proof. exact pump_c2j_err_iff. Qed.

(* ---- round trips, float-free instances (no hypothesis at all) --------------------- *)
Theorem C10_json_cbor_json_same_document : forall sh o c bs toks rest,
  ws_opts o -> jdec_run bs = JDOk toks rest -> str_cap_ok toks = true ->
  forallb jtok_plain toks = true -> forallb str_valid toks = true ->
  exists cb out2,
    pump_j2c bs = PumpOk cb rest /\ pump_c2j sh o c cb = PumpOk out2 [] /\
    jdec_run out2 = JDOk toks (jtail o toks).
Proof. exact pump_roundtrip_jcj_same_float_free. Qed.
Print Assumptions C10_json_cbor_json_same_document.

(* ---- CBOR -> CBOR (re-encoding) ---------------------------------------------------- *)
Theorem C10_cbor_to_cbor : forall c bs toks rest a,
  bytes_ok bs -> dec_run c bs = DOk toks rest a ->
  cbor_keys_ok toks = true -> str_cap_ok toks = true ->
  exists out,
    pump_c2c c bs = PumpOk out rest /\
    (forall tail, exists a', dec_run c (out ++ tail) = DOk toks tail a') /\
    (exists n, parse_item c bs = POk n rest /\ parse_item c out = POk n [] /\ toks = flatten n /\ out = rfc_enc n) /\
    (exists used, bs = used ++ rest /\ used <> []).
Proof. exact pump_c2c_value. Qed.
Theorem C10_cbor_to_cbor_error_iff : forall c bs,
  pump_c2c c bs = PumpErr <->
  (exists e, parse_item c bs = PErr e) \/ (exists n rest, parse_item c bs = POk n rest /\ ~ wf_keys key_cbor n).
Proof. exact pump_c2c_err_iff. Qed.

(* ---- streams: one decoder and one encoder, Reset before each document (PumpStream.v) ------------------------
   [pump_many pump k bs]: k successive documents, each pumped from what the earlier calls left unread (Reset makes
   the reused decoder / encoder a fresh one: Reuse.v, C17).  A stream of documents each of which transcodes on its
   own transcodes document by document to the same outputs, each call consuming exactly its own document.  JSON
   documents must be self-delimiting (anything but a bare number) or be followed by a terminator — "1" then "2" is
   the document 12 (C17's caveat; kernel-evaluated below). *)
Theorem C10_cbor_stream_to_json : forall sh o c (docs : list (bytes * bytes)) tail,
  Forall (fun d => pump_c2j sh o c (fst d) = PumpOk (snd d) []) docs ->
  pump_many (pump_c2j sh o c) (length docs) (concat (map fst docs) ++ tail) = Some (map snd docs, tail).
Proof. exact cbor_stream_to_json. Qed.
Theorem C10_cbor_stream_to_cbor : forall c (docs : list (bytes * bytes)) tail,
  Forall (fun d => pump_c2c c (fst d) = PumpOk (snd d) []) docs ->
  pump_many (pump_c2c c) (length docs) (concat (map fst docs) ++ tail) = Some (map snd docs, tail).
Proof. exact cbor_stream_to_cbor. Qed.
Theorem C10_json_stream_to_cbor : forall (docs : list (bytes * bytes)) tail,
  Forall (fun d => self_delimiting (fst d) /\ pump_j2c (fst d) = PumpOk (snd d) []) docs ->
  pump_many pump_j2c (length docs) (concat (map fst docs) ++ tail) = Some (map snd docs, tail).
Proof. exact json_stream_to_cbor. Qed.
Theorem C10_json_stream_to_json : forall sh o (docs : list (bytes * bytes)) tail,
  Forall (fun d => self_delimiting (fst d) /\ pump_j2j sh o (fst d) = PumpOk (snd d) []) docs ->
  pump_many (pump_j2j sh o) (length docs) (concat (map fst docs) ++ tail) = Some (map snd docs, tail).
Proof. exact json_stream_to_json. Qed.
Print Assumptions C10_json_stream_to_json.
Example C10_stream_examples :
  pump_many (pump_c2j (fun _ => ([], 0)) {| jline := None; jindent := [] |} false) 3 [1; 130; 1; 2; 97; 120; 255] =
    Some ([[49]; [91; 49; 44; 50; 93]; [34; 120; 34]], [255]) /\
  pump_many pump_j2c 2 [91; 49; 93; 34; 120; 34; 125] = Some ([[159; 1; 255]; [97; 120]], [125]) /\
  pump_many pump_j2c 2 [49; 50] = None.
Proof. vm_compute. repeat split; reflexivity. Qed.

(* sanity (kernel-evaluated) *)
Example C10_j2c_example : pump_j2c [91; 49; 44; 32; 34; 120; 34; 93; 32] = PumpOk [159; 1; 97; 120; 255] [32].
Proof. vm_compute. reflexivity. Qed.
Example C10_error_example : pump_j2c [123; 49; 58; 50; 125] = PumpErr.
Proof. vm_compute. reflexivity. Qed.
