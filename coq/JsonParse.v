(* JsonParse.v — the reference reading of a JSON text (RFC 8259) as a
   recursive-descent function producing a value tree, with refmt's one
   deliberate leniency as a flag: with [lenient = true] a ',' may directly
   (modulo whitespace) precede a closing ']' or '}'.

     value   ::= ws ( object | array | string | number | "true" | "false" | "null" )
     array   ::= '[' ws ']' | '[' value (ws ',' value)* ws [',' ws]? ']'
     object  ::= '{' ws '}' | '{' member (ws ',' member)* ws [',' ws]? '}'
     member  ::= ws string ws ':' value

   Terminals (strings, numbers, literals, whitespace) use the flat functions of
   JsonDec.v.  The decoder automaton (JsonDec.jdec_run) is proved equivalent to
   [jparse_item true] in JsonDecProof.v; the reading itself is validated
   against Go's encoding/json on every check run. *)
From Coq Require Import List ZArith Bool Lia.
Require Import Tok Utf8 CborDec CborParse JsonFloat JsonDec.
Import ListNotations.
Open Scope Z_scope.

Fixpoint jpvalue (fuel : nat) (lenient : bool) (bs : bytes) : pres tnode :=
  match fuel with
  | O => PFuel
  | S f =>
    match skip_ws bs with
    | [] => PErr EEof
    | mb :: r => jpbody f lenient mb r
    end
  end
with jpbody (fuel : nat) (lenient : bool) (mb : Z) (r : bytes) : pres tnode :=
  match fuel with
  | O => PFuel
  | S f =>
      if mb =? 123 then
        match jpmembers f lenient false r with
        | POk es rest => POk (Node None (VMap (-1) es)) rest
        | PErr e => PErr e | PFuel => PFuel
        end
      else if mb =? 91 then
        match jpelements f lenient false r with
        | POk xs rest => POk (Node None (VArr (-1) xs)) rest
        | PErr e => PErr e | PFuel => PFuel
        end
      else if mb =? 110 then
        match dec_literal [117; 108; 108] r with inl rest => POk (Node None VNull) rest | inr e => PErr e end
      else if mb =? 34 then
        match dec_string r with inl (s, rest) => POk (Node None (VStr s)) rest | inr e => PErr e end
      else if mb =? 102 then
        match dec_literal [97; 108; 115; 101] r with inl rest => POk (Node None (VBool false)) rest | inr e => PErr e end
      else if mb =? 116 then
        match dec_literal [114; 117; 101] r with inl rest => POk (Node None (VBool true)) rest | inr e => PErr e end
      else if (mb =? 45) || is_digit mb then
        match dec_number mb r with
        | inl (Int i, rest) => POk (Node None (VInt i)) rest
        | inl (Uint u, rest) => POk (Node None (VUint u)) rest
        | inl (Flt b, rest) => POk (Node None (VFlt b)) rest
        | inl (_, _) => PErr EMalformed
        | inr e => PErr e
        end
      else PErr EMalformed
  end
(* the remaining elements of an array; [some] = at least one element has been read *)
with jpelements (fuel : nat) (lenient : bool) (some : bool) (bs : bytes) : pres (list tnode) :=
  match fuel with
  | O => PFuel
  | S f =>
    match skip_ws bs with
    | [] => PErr EEof
    | mb :: r =>
      let element (mb2 : Z) (r2 : bytes) : pres (list tnode) :=
        match jpbody f lenient mb2 r2 with
        | POk x r3 =>
          match jpelements f lenient true r3 with
          | POk xs r4 => POk (x :: xs) r4
          | PErr e => PErr e | PFuel => PFuel
          end
        | PErr e => PErr e | PFuel => PFuel
        end in
      if some then
        if mb =? 93 then POk [] r
        else if mb =? 44 then
          match skip_ws r with
          | [] => PErr EEof
          | mb2 :: r2 =>
              if mb2 =? 93 then (if lenient then POk [] r2 else PErr EMalformed)
              else element mb2 r2
          end
        else PErr EMalformed
      else
        if mb =? 93 then POk [] r else element mb r
    end
  end
with jpmembers (fuel : nat) (lenient : bool) (some : bool) (bs : bytes) : pres (list (tnode * tnode)) :=
  match fuel with
  | O => PFuel
  | S f =>
    match skip_ws bs with
    | [] => PErr EEof
    | mb :: r =>
      let member (mb2 : Z) (r2 : bytes) : pres (list (tnode * tnode)) :=
        if mb2 =? 34 then
          match dec_string r2 with
          | inr e => PErr e
          | inl (k, r3) =>
            match skip_ws r3 with
            | [] => PErr EEof
            | c :: r4 =>
              if c =? 58 then
                match jpvalue f lenient r4 with
                | POk v r5 =>
                  match jpmembers f lenient true r5 with
                  | POk es r6 => POk ((Node None (VStr k), v) :: es) r6
                  | PErr e => PErr e | PFuel => PFuel
                  end
                | PErr e => PErr e | PFuel => PFuel
                end
              else PErr EMalformed
            end
          end
        else PErr EMalformed in
      if some then
        if mb =? 125 then POk [] r
        else if mb =? 44 then
          match skip_ws r with
          | [] => PErr EEof
          | mb2 :: r2 =>
              if mb2 =? 125 then (if lenient then POk [] r2 else PErr EMalformed)
              else member mb2 r2
          end
        else PErr EMalformed
      else
        if mb =? 125 then POk [] r else member mb r
    end
  end.

(* The reference reading of the first value of [bs]. *)
Definition jparse_item (lenient : bool) (bs : bytes) : pres tnode :=
  jpvalue (4 * length bs + 4) lenient bs.
