(* Properties_C12.v — C12: re-marshalling a decoded document reaches a fixpoint.
   Object layer, token level (RoundTripProof.v): what the unmarshaller returns
   marshals to the tokens it was read from, under the two conditions that make
   re-marshalling deterministic — and both are needed (refutations below):
     omit_ok A : no omitempty field has a type whose empty value still serializes (pointer to nullable, struct, interface)
     rmv v     : integers in untyped slots already have the type an untyped slot gives them (int, or uint64 above MaxInt64)
   So decoding v's document into an untyped variable (whose contents satisfy rmv by construction: the
   unmarshaller only produces such values) and marshalling that again is a fixpoint; the first round may
   re-type numbers (C12's own exception list).  The byte level adds the codec round trips C02 / C03+C05.
   [atlas_wf] allows struct maps, transforms (kinds 1..9), keyed unions and map morphisms; [domb] is the
   domain described in Properties_C01.v. *)
From Coq Require Import List ZArith.
Require Import Tok GoVal Marshal Unmarshal ObjProof BoundsProof RoundTripProof EndToEndProof.
Import ListNotations.
Open Scope Z_scope.

Theorem C12_remarshal_reproduces_tokens : forall E A t v f ts,
  atlas_wf E A = true -> omit_ok A = true -> wt E A t v -> domb E A t v = true -> rmv v = true ->
  marshal A f t v = MOk ts ->
  exists f' v', unmarshal E A f' t (zero 50 E t) ts = UOk v' [] /\ req E A t v v' /\
    forall f'', (f <= f'')%nat -> marshal A f'' t v' = MOk ts.
Proof. exact token_roundtrip_remarshal. Qed.
Print Assumptions C12_remarshal_reproduces_tokens.

(* the untyped instance: t = interface{} *)
Corollary C12_untyped_fixpoint : forall E A v f ts,
  atlas_wf E A = true -> omit_ok A = true -> wt E A GAny v -> domb E A GAny v = true -> rmv v = true ->
  marshal A f GAny v = MOk ts ->
  exists f' v', unmarshal E A f' GAny (zero 50 E GAny) ts = UOk v' [] /\
    forall f'', (f <= f'')%nat -> marshal A f'' GAny v' = MOk ts.
Proof.
  intros E A v f ts H1 H2 H3 H4 H5 H6.
  destruct (token_roundtrip_remarshal E A GAny v f ts H1 H2 H3 H4 H5 H6) as (f' & v' & Hu & _ & Hm).
  exists f', v'. split; assumption.
Qed.

(* the byte level (EndToEndProof.v): the document re-marshalled from the value read back is byte-identical
   (stated for explicit marshaller fuel, and for marshal_top whenever it does not run out of fuel) *)
Theorem C12_cbor_remarshal_byte_exact : forall E A t v bs,
  atlas_wf E A = true -> cranked A 3 = true -> omit_ok A = true ->
  wt E A t v -> domb E A t v = true -> rmv v = true -> cbor_ok E A t v = true ->
  cbor_marshal E A t v = Some bs ->
  exists n v', cbor_unmarshal E A t bs = Some (UTDone n v') /\ req E A t v v' /\
    (forall f, (200 + 12 * vsize 100 v <= f)%nat -> cbor_marshal_with f A t v' = Some bs) /\
    (marshal_top E A t v' <> MFuel -> cbor_marshal E A t v' = Some bs) /\
    ((vsize 100 v <= vsize 100 v')%nat -> cbor_marshal E A t v' = Some bs).
Proof. exact cbor_remarshal. Qed.
Print Assumptions C12_cbor_remarshal_byte_exact.

(* why the conditions: uint8(5) in an untyped slot marshals as Uint 5, reads back as int 5, re-marshals as Int 5 *)
Example C12_first_round_may_retype_numbers : rmv (VAny (Some (GNum U8, VNum 5))) = false.
Proof. reflexivity. Qed.

Example C12_model_runs :
  unmarshal_top [] (Atlas [] 0) GAny [Tok (ArrOpen 1) None; Tok (Uint 18446744073709551615) None; Tok ArrClose None] =
  UTDone 3 (VAny (Some (GSlice GAny, VSlice (Some [VAny (Some (GNum U64, VNum 18446744073709551615))])))).
Proof. vm_compute. reflexivity. Qed.
